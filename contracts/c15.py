"""C15 -- images are stored once, byte-exact, with the type and size of the actual image.  DESIGN.md 5/C15.

Chain of contracts: Image.dpi (each component in 1..2048, 72 for absent / non-numeric / implausible)
=> ImagePart._native_size (> 0, no division by zero) => ImagePart.scale (identity / native / aspect
ratio within rounding); Image.ext and content_type over the PIL format table (ground); _find_by_sha1
and get_or_add_image_part (one part per digest)."""
from __future__ import annotations

import z3

from pyvc.engine import Atom, GhostFn, SObj, SSeq, SStr, invariant_loop, real_round_half_even, to_real
from pyvc.verify import contract

META = {
    "residual": [
        "Pillow decoding (format, pixel size >= 1x1, info['dpi']) is assumed; probed natively by C15.native_images",
        "SHA-1 is treated as injective on the inputs at hand",
        "IEEE doubles treated as reals in dpi rounding and scaling; non-finite dpi values are probed natively",
    ],
    "trusted_base": ["Pillow", "hashlib.sha1", "z3 real arithmetic"],
}


def _replay_dpi(model, rec):
    from pptx.parts.image import Image

    bad = []
    for d in [None, (72, 72), (0, 0), (0.4, 0.6), (2048, 2048.4), (2048.6, 3000), (96.5, 97.5), ("x", None), (-5, 1e9), 72, (1, 2048), (float("nan"), 72.0)]:
        im = Image(b"", None)
        im.__dict__["_pil_props"] = ("PNG", (10, 10), d)
        try:
            got = im.dpi
        except Exception as e:
            bad.append("pil dpi %r: raised %r" % (d, e))
            continue

        def want(x):
            try:
                v = int(round(float(x)))
            except (TypeError, ValueError):
                return 72
            return v if 1 <= v <= 2048 else 72

        exp = (want(d[0]), want(d[1])) if isinstance(d, tuple) else (72, 72)
        if got != exp or not all(1 <= g <= 2048 for g in got):
            bad.append("pil dpi %r -> %r (expected %r)" % (d, got, exp))
    return {"confirmed": bool(bad), "witness_class": "dpi", "detail": bad or "dpi normalisation behaves on the probed values"}


for _kind in ("none", "tuple_real", "tuple_int", "tuple_none", "tuple_str", "not_tuple"):
    @contract("C15", "C15.parts.image.Image.dpi[%s]" % _kind, replay=_replay_dpi)
    def _dpi(c, kind=_kind):
        """each dpi component is an int in 1..2048: round(value) when that is in range, 72 when absent,
        non-numeric, < 1 or > 2048."""
        from pptx.parts.image import Image

        if kind == "none":
            pil = None
        elif kind == "tuple_real":
            pil = (c.real("h"), c.real("v"))
        elif kind == "tuple_int":
            pil = (c.int("h"), c.int("v"))
        elif kind == "tuple_none":
            pil = (None, c.real("v"))
        elif kind == "tuple_str":
            pil = ("n/a", c.int("v"))
        else:
            pil = c.int("h")
        im = SObj(Image, "image", _pil_props=("PNG", (c.int("w"), c.int("hgt")), pil))
        out = c.getattr(im, "dpi")
        if out.raised:
            c.fails("never_raises", "dpi raised %s" % out.exc)
            return
        r = out.value
        ok = isinstance(r, tuple) and len(r) == 2
        c.ensures("post.pair", ok)
        if not ok:
            return
        c.ensures("post.in_range", z3.And(*[z3.And(x >= 1, x <= 2048) if z3.is_expr(x) else z3.BoolVal(1 <= x <= 2048) for x in r]))
        if kind in ("none", "not_tuple"):
            c.ensures("post.default_72", r == (72, 72))
        else:
            for i, comp in enumerate(pil):
                if z3.is_expr(comp):
                    rr = real_round_half_even(comp) if z3.is_real(comp) else comp
                    c.ensures("post.component%d" % i, r[i] == z3.If(z3.And(rr >= 1, rr <= 2048), rr, 72))
                else:
                    c.ensures("post.component%d_default" % i, r[i] == 72)


def _replay_size(model, rec):
    r = _native_images(tier="quick", seed=0)
    bad = [o for o in r["obligations"] if o["status"] == "refuted"]
    if bad:
        return {"confirmed": True, "witness_class": bad[0]["replay"]["witness_class"], "detail": bad[0]["replay"]["detail"]}
    return {"confirmed": False, "detail": "generated images of all probed formats/sizes/dpi behave"}


@contract("C15", "C15.parts.image.ImagePart._native_size.fget", replay=_replay_size)
def _native_size(c):
    """native size = floor(914400 * px / dpi) per axis; with px >= 1 and dpi in 1..2048 (Image.dpi contract) it is
    >= 446 and the division never fails."""
    from pptx.parts.image import ImagePart

    w, h, dh, dv = c.int("width_px"), c.int("height_px"), c.int("horz_dpi"), c.int("vert_dpi")
    c.requires(z3.And(w >= 1, h >= 1))  # assumed Pillow contract
    c.requires(z3.And(dh >= 1, dh <= 2048, dv >= 1, dv <= 2048))  # proved post of Image.dpi
    part = SObj(ImagePart, "image_part", _dpi=(dh, dv), _px_size=(w, h))
    out = c.run(ImagePart._native_size.fget, part)
    if out.raised:
        c.fails("never_raises", "_native_size raised %s" % out.exc)
        return
    cx, cy = out.value
    c.ensures("post.floor_of_quotient", z3.And(cx * dh <= 914400 * w, 914400 * w < (cx + 1) * dh, cy * dv <= 914400 * h, 914400 * h < (cy + 1) * dv))
    c.ensures("post.positive", z3.And(cx >= 446, cy >= 446))


@contract("C15", "C15.parts.image.Image._pil_props", replay=_replay_size)
def _pil_props(c):
    """the properties are the ones Pillow reports for the stored bytes: (format, size, info['dpi']), nothing derived from other metadata."""
    import PIL.Image as PIL_Image
    from pptx.parts.image import Image

    w, h = c.int("width_px"), c.int("height_px")
    fmt = SStr([Atom("format", zs=z3.String("format"))])
    dpi = SObj(None, "pil_dpi")
    info = SObj(None, "info", get=GhostFn(lambda it, a, k: dpi if a and a[0] == "dpi" else None, "info.get"))
    pil = SObj(None, "pil_image", format=fmt, size=(w, h), info=info, __external__=True)
    c.summaries["PIL.Image:open"] = lambda it, a, k: pil
    c.path.assumed.add("PIL.Image.open(stream) reports format, size and info of the stored bytes")
    img = SObj(Image, "image", _blob=b"bytes")
    fn = Image.__dict__["_pil_props"]
    out = c.run(getattr(fn, "_fget", None) or getattr(fn, "fget", None) or fn.__wrapped__, img)
    if out.raised:
        c.fails("never_raises", "raised %s" % out.exc)
        return
    f2, sz, d2 = out.value
    c.ensures("post.format_size_dpi_as_pillow_reports", f2 is fmt and d2 is dpi and len(sz) == 2 and z3.is_expr(sz[0]) and z3.is_expr(sz[1]) and z3.And(sz[0] == w, sz[1] == h))


@contract("C15", "C15.parts.image.ImagePart.scale", replay=_replay_size)
def _scale(c):
    """both given: returned unchanged; none given: native size; one given: the other preserves the aspect ratio to
    within half an EMU; never divides by zero (native size > 0)."""
    from pptx.parts.image import ImagePart

    icx, icy = c.int("image_cx"), c.int("image_cy")
    c.requires(z3.And(icx >= 446, icy >= 446))  # proved post of _native_size
    part = SObj(ImagePart, "image_part", _native_size=(icx, icy))
    kind = c.path.fork_free(4)
    sx = c.int("scaled_cx") if kind in (0, 1) else None
    sy = c.int("scaled_cy") if kind in (0, 2) else None
    if sx is not None:
        c.requires(sx >= 1)
    if sy is not None:
        c.requires(sy >= 1)
    out = c.run(ImagePart.scale, part, sx, sy)
    if out.raised:
        c.fails("never_raises", "scale raised %s" % out.exc)
        return
    rx, ry = out.value
    half = z3.RealVal(1) / 2
    if kind == 0:
        c.ensures("post.both_given_identity", z3.And(rx == sx, ry == sy))
    elif kind == 1:
        ideal = to_real(icy) * to_real(sx) / to_real(icx)
        c.ensures("post.width_kept", rx == sx)
        c.ensures("post.aspect_ratio_within_rounding", z3.And(to_real(ry) - ideal <= half, ideal - to_real(ry) <= half))
    elif kind == 2:
        ideal = to_real(icx) * to_real(sy) / to_real(icy)
        c.ensures("post.height_kept", ry == sy)
        c.ensures("post.aspect_ratio_within_rounding", z3.And(to_real(rx) - ideal <= half, ideal - to_real(rx) <= half))
    else:
        c.ensures("post.native", z3.And(rx == icx, ry == icy))


@contract("C15", "C15.parts.image.Image.ext_and_content_type")
def _ext(c):
    """ground, over the format table: every format Pillow can report for a supported image maps to an extension that
    has a content type, and (extension, content type) is a Default pair of the package writer; any other format raises
    ValueError (never KeyError)."""
    from pptx.opc.spec import default_content_types, image_content_types
    from pptx.parts.image import Image

    defaults = set(default_content_types)
    import ast
    import inspect
    import textwrap

    src = textwrap.dedent(inspect.getsource(Image.ext._fget))
    formats = []
    for n in ast.walk(ast.parse(src)):
        if isinstance(n, ast.Dict):
            formats = [k.value for k in n.keys if isinstance(k, ast.Constant)]
            break
    c.ensures("table.extracted", len(formats) >= 5)
    for fmt in formats + ["WEBP", "SVG", None]:
        im = SObj(Image, "image", _format=fmt)
        out = c.getattr(im, "ext")
        if fmt in formats:
            if out.raised:
                c.fails("ext.total[%s]" % fmt, "ext raised %s" % out.exc)
                continue
            ext = out.value
            ct = c.getattr(im, "content_type")
            c.ensures("content_type.total[%s]" % fmt, not ct.raised)
            if not ct.raised:
                c.ensures("content_type.is_default_pair[%s]" % fmt, (ext, ct.value) in defaults,
                          why="(%r, %r) is not in default_content_types" % (ext, ct.value))
                c.ensures("content_type.table[%s]" % fmt, image_content_types.get(ext) == ct.value)
        else:
            c.ensures("ext.rejects_unknown[%s]" % fmt, out.raised and issubclass(out.exc.exc_cls, ValueError))


class _GPart:
    __pyvc_symbolic__ = True

    def __init__(self, j, HAS, SHA):
        self.j, self.HAS, self.SHA = j, HAS, SHA

    def sym_truth(self, it):
        return True

    def sym_getattr(self, it, name):
        if name == "sha1":
            if it.path.branch(self.HAS(self.j)):
                return self.SHA(self.j)
            from pyvc.engine import PyRaise

            raise PyRaise(AttributeError, ("sha1",))
        raise Exception("ghost part asked for %s" % name)


def _replay_find(model, rec):
    r = _native_images(tier="quick", seed=0)
    bad = [o for o in r["obligations"] if o["status"] == "refuted" and "dedup" in o["name"]]
    if bad:
        return {"confirmed": True, "witness_class": "image-dedup", "detail": bad[0]["replay"]["detail"]}
    return {"confirmed": False, "detail": "repeated additions share one part; different bytes get different parts"}


@contract("C15", "C15.package._ImageParts._find_by_sha1", replay=_replay_find)
def _find_by_sha1(c):
    """returns an image part with that digest iff one exists (parts without a digest, e.g. SVG, are skipped)."""
    from pptx.package import _ImageParts

    n = c.int("n_parts")
    c.requires(n >= 0)
    HAS = z3.Function("HAS_SHA", z3.IntSort(), z3.BoolSort())
    SHA = z3.Function("SHA", z3.IntSort(), z3.IntSort())  # digests as abstract values
    target = c.int("sha1")
    seq = SSeq(n, lambda j: _GPart(j, HAS, SHA), name="image_parts")
    parts = SObj(_ImageParts, "image_parts", __iter__=GhostFn(lambda it, a, k: seq))
    j = z3.Int("fj")
    qn = "pptx.package:_ImageParts._find_by_sha1"
    c.loop_specs[(qn, 0)] = invariant_loop("C15.package._ImageParts._find_by_sha1.loop0", [],
                                           lambda env, kk: z3.ForAll([j], z3.Implies(z3.And(0 <= j, j < kk, HAS(j)), SHA(j) != target)))
    out = c.run(_ImageParts._find_by_sha1, parts, target)
    if out.raised:
        c.fails("never_raises", "raised %s" % out.exc)
        return
    r = out.value
    if r is None:
        c.ensures("post.none_iff_absent", z3.ForAll([j], z3.Implies(z3.And(0 <= j, j < n, HAS(j)), SHA(j) != target)))
    else:
        c.ensures("post.found_has_digest", z3.And(0 <= r.j, r.j < n, HAS(r.j), SHA(r.j) == target))


@contract("C15", "C15.package._ImageParts.get_or_add_image_part", replay=_replay_find)
def _get_or_add(c):
    """a new image part is created only when no part with the image's digest exists; otherwise that part is returned
    (hence one part per digest)."""
    from pptx.package import _ImageParts

    found = c.bool("digest_present")
    existing = SObj(None, "existing_part")
    created = []
    img = SObj(None, "image", sha1=c.int("sha1"))
    parts = SObj(_ImageParts, "image_parts", _package=SObj(None, "package"),
                 _find_by_sha1=GhostFn(lambda it, a, k: existing if it.path.branch(found) else None))
    c.summaries["pptx.parts.image:Image.from_file"] = lambda it, a, k: img
    c.summaries["pptx.parts.image:ImagePart.new"] = lambda it, a, k: (created.append(a), SObj(None, "new_part"))[1]
    out = c.run(_ImageParts.get_or_add_image_part, parts, "file.png")
    if out.raised:
        c.fails("never_raises", "raised %s" % out.exc)
        return
    if len(created):
        c.ensures("post.created_only_when_absent", z3.Not(found))
        c.ensures("post.created_from_that_image", created[0][-1] is img)
    else:
        c.ensures("post.reuses_existing", z3.And(found, out.value is existing))


# --------------------------------------------------------------------------------------------
# BOUNDED native job (Pillow, byte-exactness, part names across slides; never counted as proved)


def _native_images(tier="quick", seed=0):
    import hashlib
    import io
    import time as _t

    from PIL import Image as PIL
    from pptx import Presentation
    from pptx.util import Emu

    t0 = _t.time()
    obls = []
    evals = 0

    def rec(name, ok, detail, wc):
        r = {"name": name, "base": name, "kind": "bounded", "status": "discharged" if ok else "refuted", "backend": "native", "time": 0, "path": 0}
        if not ok:
            r["replay"] = {"confirmed": True, "witness_class": wc, "detail": detail}
            r["model"] = None
        obls.append(r)

    def make(fmt, size, dpi, color):
        im = PIL.new("RGB", size, color)
        b = io.BytesIO()
        kw = {}
        if dpi is not None:
            kw["dpi"] = dpi
        im.save(b, fmt, **kw)
        return b.getvalue()

    fmts = {"PNG": ("png", "image/png"), "JPEG": ("jpg", "image/jpeg"), "GIF": ("gif", "image/gif"), "BMP": ("bmp", "image/bmp"), "TIFF": ("tiff", "image/tiff")}
    prs = Presentation()
    s1 = prs.slides.add_slide(prs.slide_layouts[6])
    s2 = prs.slides.add_slide(prs.slide_layouts[6])
    bad = None
    seen = {}
    for fi, (fmt, (ext, ct)) in enumerate(fmts.items()):
        for size in ((1, 1), (3, 7), (64, 16)):
            for dpi in (None, (72, 72), (300, 150), (96.5, 96.5), (0, 0), (5000, 5000)):
                if fmt == "GIF" and dpi is not None:
                    continue
                blob = make(fmt, size, dpi, (fi * 40, size[0], size[1]))
                evals += 1
                pic = s1.shapes.add_picture(io.BytesIO(blob), Emu(0), Emu(0))
                pic2 = s2.shapes.add_picture(io.BytesIO(blob), Emu(10), Emu(10), width=Emu(1000))
                part = pic.image  # noqa
                ip, ip2 = pic._pic.blip_rId, pic2._pic.blip_rId
                p1 = s1.part.related_part(ip)
                p2 = s2.part.related_part(ip2)
                if p1 is not p2:
                    bad = bad or ("dedup", "same %s bytes added on two slides give two parts %s / %s" % (fmt, p1.partname, p2.partname))
                if p1.blob != blob or pic.image.blob != blob:
                    bad = bad or ("bytes", "%s bytes not stored byte-exact" % fmt)
                if p1.partname.ext != ext or p1.content_type != ct:
                    bad = bad or ("type", "%s stored as %s / %s" % (fmt, p1.partname, p1.content_type))
                d = hashlib.sha1(blob).hexdigest()
                if d in seen and seen[d] is not p1:
                    bad = bad or ("dedup", "digest %s has two parts" % d)
                seen[d] = p1
                # native size at the image's dpi (72 when absent or implausible)
                eff = []
                reported = PIL.open(io.BytesIO(blob)).info.get("dpi")
                for comp in (reported if isinstance(reported, tuple) else (None, None)):
                    try:
                        v = int(round(float(comp)))
                    except (TypeError, ValueError):
                        v = 72
                    eff.append(v if 1 <= v <= 2048 else 72)
                want = (int(914400 * size[0] / eff[0]), int(914400 * size[1] / eff[1]))
                if (pic.width, pic.height) != want:
                    bad = bad or ("size", "%s %sx%s dpi %r: picture is %s x %s EMU, expected %s" % (fmt, size[0], size[1], reported, pic.width, pic.height, want))
                ideal = want[1] * 1000 / want[0]
                if pic2.width != 1000 or abs(pic2.height - ideal) > 0.5 + 1e-9:
                    bad = bad or ("aspect", "%s %sx%s: width 1000 gives height %s, ideal %.3f" % (fmt, size[0], size[1], pic2.height, ideal))
    # metadata that says how a viewer might present the image (EXIF orientation 1..8, an ICC profile, a comment) changes neither the
    # stored pixel grid nor the bytes: the picture has the stored width x height at the stored dpi
    # (TIFF is left out: Pillow's TIFF reader applies the Orientation tag itself and reports the transposed grid as the image's size)
    for fmt in ("JPEG", "PNG"):
        for orient in range(1, 9):
            for dpi in (None, (300, 150)):
                im = PIL.new("RGB", (4, 3), (orient * 20, 7, 9 if dpi else 10))
                ex = PIL.Exif()
                ex[0x0112] = orient
                ex[0x010E] = "a description"
                b = io.BytesIO()
                kw = {"exif": ex}
                if dpi is not None:
                    kw["dpi"] = dpi
                try:
                    im.save(b, fmt, **kw)
                except Exception:
                    continue
                blob = b.getvalue()
                if PIL.open(io.BytesIO(blob)).getexif().get(0x0112) != orient:
                    continue
                evals += 1
                reported = PIL.open(io.BytesIO(blob)).info.get("dpi") or (72, 72)
                eff = [int(round(float(v))) if 1 <= int(round(float(v))) <= 2048 else 72 for v in reported]
                want = (int(914400 * 4 / eff[0]), int(914400 * 3 / eff[1]))
                pic = s1.shapes.add_picture(io.BytesIO(blob), Emu(0), Emu(0))
                pic2 = s2.shapes.add_picture(io.BytesIO(blob), Emu(0), Emu(0), height=Emu(3000))
                if pic.image.blob != blob:
                    bad = bad or ("bytes", "%s with EXIF orientation %d: bytes not stored byte-exact" % (fmt, orient))
                if (pic.width, pic.height) != want or pic.image.size != (4, 3):
                    bad = bad or ("size", "%s 4x3 dpi %r EXIF orientation %d: picture is %s x %s EMU (image.size %r), expected %s from the stored pixel grid"
                                  % (fmt, dpi, orient, pic.width, pic.height, pic.image.size, want))
                ideal = want[0] * 3000 / want[1]
                if pic2.height != 3000 or abs(pic2.width - ideal) > 0.5 + 1e-9:
                    bad = bad or ("aspect", "%s 4x3 dpi %r EXIF orientation %d: height 3000 gives width %s, ideal %.3f" % (fmt, dpi, orient, pic2.width, ideal))
    # the images the library brings itself (speaker icon of a movie without poster frame, icon of an embedded object) obey the same
    # rule: stored once however many shapes use them, also when the deck already holds them after a re-open
    from pptx.enum.shapes import PROG_ID

    def image_digests(p_):
        from pptx.parts.image import ImagePart

        out = {}
        for part_ in p_.part.package.iter_parts():
            if isinstance(part_, ImagePart):
                out.setdefault(hashlib.sha1(part_.blob).hexdigest(), []).append(str(part_.partname))
        return out

    for k in range(2):
        evals += 1
        s1.shapes.add_movie(io.BytesIO(b"\x00\x00\x00\x18ftypmp42 movie %d" % k), Emu(0), Emu(0), Emu(100), Emu(100), mime_type="video/mp4")
        s2.shapes.add_movie(io.BytesIO(b"\x00\x00\x00\x18ftypmp42 other %d" % k), Emu(0), Emu(0), Emu(100), Emu(100), mime_type="video/mp4")
        s1.shapes.add_ole_object(io.BytesIO(b"PK sheet %d" % k), PROG_ID.XLSX, Emu(0), Emu(0))
        s2.shapes.add_ole_object(io.BytesIO(b"PK doc %d" % k), PROG_ID.DOCX, Emu(0), Emu(0))
    dup = {d_: n_ for d_, n_ in image_digests(prs).items() if len(n_) > 1}
    if dup:
        bad = bad or ("dedup", "after movies without poster frame and embedded objects with the default icon: identical image bytes stored as several parts %s" % sorted(dup.values())[:2])
    b_ = io.BytesIO()
    prs.save(b_)
    prs_r = Presentation(io.BytesIO(b_.getvalue()))
    sr = prs_r.slides[0]
    sr.shapes.add_movie(io.BytesIO(b"\x00\x00\x00\x18ftypmp42 after re-open"), Emu(0), Emu(0), Emu(100), Emu(100), mime_type="video/mp4")
    sr.shapes.add_ole_object(io.BytesIO(b"PK sheet after re-open"), PROG_ID.XLSX, Emu(0), Emu(0))
    dup = {d_: n_ for d_, n_ in image_digests(prs_r).items() if len(n_) > 1}
    if dup:
        bad = bad or ("dedup", "re-opened deck, one more movie and embedded object: identical image bytes stored as several parts %s" % sorted(dup.values())[:2])
    # decks written by other producers (the corpus): every stored image is found again when the same bytes are added -- whatever
    # spelling of the image content type the producer declared (image/jpg for JPEG, ...)
    import glob
    import os

    repo = os.environ.get("PPTX_REPO", "/repo")
    files = sorted(glob.glob(os.path.join(repo, "features", "steps", "test_files", "*.pptx")))
    if tier == "quick":
        files = [f for f in files if os.path.basename(f) in ("test-image-jpg-mime.pptx", "shp-picture.pptx", "shp-common-props.pptx", "test.pptx", "ph-inserted-ph.pptx")] or files[:6]
    for f in files:
        try:
            prs_c = Presentation(f)
        except Exception:
            continue
        media = {}
        from pptx.opc.constants import RELATIONSHIP_TYPE as _RT

        for rel_ in prs_c.part.package.iter_rels():  # an image is what an image relationship points at (a thumbnail, say, is not)
            if rel_.is_external or rel_.reltype != _RT.IMAGE:
                continue
            part_ = rel_.target_part
            if str(part_.content_type).startswith("image/"):
                try:
                    fmt_ = PIL.open(io.BytesIO(part_.blob)).format
                except Exception:
                    continue
                if fmt_ in ("PNG", "JPEG", "GIF", "BMP", "TIFF"):
                    media[str(part_.partname)] = part_.blob
        if not media or not len(prs_c.slide_layouts):
            continue
        sl_c = prs_c.slides.add_slide(prs_c.slide_layouts[0])
        for name_, blob_ in sorted(media.items())[:4]:
            evals += 1
            try:
                sl_c.shapes.add_picture(io.BytesIO(blob_), Emu(0), Emu(0))
            except Exception as e:
                bad = bad or ("dedup", "%s: adding the bytes of its own %s again raised %r" % (os.path.basename(f), name_, e))
                continue
            twins = sorted({str(r_.target_part.partname) for r_ in prs_c.part.package.iter_rels() if not r_.is_external and r_.reltype == _RT.IMAGE and r_.target_part.blob == blob_})
            if len(twins) != 1:
                bad = bad or ("dedup", "%s: the bytes of %s added again are stored a second time: %s" % (os.path.basename(f), name_, twins))
    # a picture reports the image it shows now: after another picture was removed (shape deleted, relationship dropped) its relationship
    # id is handed out again, and whatever was read through the old one says nothing about the new one
    prs_k = Presentation()
    sl_k = prs_k.slides.add_slide(prs_k.slide_layouts[6])
    blob_a, blob_b = make("PNG", (4, 4), None, (200, 1, 1)), make("JPEG", (9, 5), None, (1, 200, 1))
    pic_a = sl_k.shapes.add_picture(io.BytesIO(blob_a), Emu(0), Emu(0))
    _ = (pic_a.image.blob, pic_a.image.size)
    rid_a = pic_a._pic.blip_rId
    pic_a._element.getparent().remove(pic_a._element)
    sl_k.part.drop_rel(rid_a)
    pic_b = sl_k.shapes.add_picture(io.BytesIO(blob_b), Emu(0), Emu(0))
    evals += 1
    if pic_b.image.blob != blob_b or pic_b.image.size != (9, 5) or pic_b.image.content_type != "image/jpeg":
        bad = bad or ("bytes", "picture added after another was removed (relationship id %s%s): image reports %d bytes, %s, %s; the file has %d bytes, (9, 5), image/jpeg" % (
            pic_b._pic.blip_rId, " reused" if pic_b._pic.blip_rId == rid_a else "", len(pic_b.image.blob), pic_b.image.size, pic_b.image.content_type, len(blob_b)))
    names = [str(p.partname) for p in set(seen.values())]
    if len(names) != len(set(names)):
        bad = bad or ("names", "two image parts share a part name")
    for wc in ("dedup", "bytes", "type", "size", "aspect", "names"):
        rec("C15.native.%s" % wc, not (bad and bad[0] == wc), bad[1] if bad and bad[0] == wc else None, "image-" + wc)
    # misleading file name
    import os
    import tempfile

    d = tempfile.mkdtemp(prefix="c15_")
    try:
        path = os.path.join(d, "really_a_png.jpg")
        open(path, "wb").write(make("PNG", (2, 2), None, (1, 2, 3)))
        pic = s1.shapes.add_picture(path, Emu(0), Emu(0))
        p = s1.part.related_part(pic._pic.blip_rId)
        rec("C15.native.misleading_extension", p.partname.ext == "png" and p.content_type == "image/png",
            "PNG bytes in really_a_png.jpg stored as %s / %s" % (p.partname, p.content_type), "image-type")
    finally:
        import shutil

        shutil.rmtree(d, ignore_errors=True)
    # the image arrives through a stream in whatever position the caller left it (after sniffing the signature, after PIL read it,
    # at the end), through a path, through a non-rewound BufferedReader: the stored bytes are the whole file
    import os
    import tempfile

    bad = None
    blob = make("PNG", (5, 3), (96, 96), (9, 8, 7))
    d_ = tempfile.mkdtemp(prefix="c15_")
    try:
        pth = os.path.join(d_, "pic.png")
        open(pth, "wb").write(blob)
        for label, mk in (("fresh stream", lambda: io.BytesIO(blob)), ("stream after read(8)", lambda: (lambda s_: (s_.read(8), s_)[1])(io.BytesIO(blob))),
                          ("stream at its end", lambda: (lambda s_: (s_.read(), s_)[1])(io.BytesIO(blob))),
                          ("stream PIL has opened", lambda: (lambda s_: (PIL.open(s_).load(), s_)[1])(io.BytesIO(blob))),
                          ("stream after seek(3)", lambda: (lambda s_: (s_.seek(3), s_)[1])(io.BytesIO(blob))),
                          ("file object after read(20)", lambda: (lambda f_: (f_.read(20), f_)[1])(open(pth, "rb"))), ("path", lambda: pth)):
            evals += 1
            prs_ = Presentation()
            src = mk()
            try:
                pic = prs_.slides.add_slide(prs_.slide_layouts[6]).shapes.add_picture(src, Emu(0), Emu(0))
                if pic.image.blob != blob:
                    bad = bad or "add_picture(%s): stored %d bytes (sha1 %s), the file has %d (sha1 %s)" % (label, len(pic.image.blob), hashlib.sha1(pic.image.blob).hexdigest()[:8], len(blob), hashlib.sha1(blob).hexdigest()[:8])
            except Exception as e:
                bad = bad or "add_picture(%s) raised %r" % (label, e)
            finally:
                if hasattr(src, "close"):
                    src.close()
    finally:
        import shutil

        shutil.rmtree(d_, ignore_errors=True)
    rec("C15.native.image_source_in_any_stream_position", bad is None, bad, "image-source")
    return {"contract": "C15.native_images", "prop": "C15", "status": "ok", "obligations": obls, "paths": 0, "assumed": [], "functions": {},
            "notes": [], "solver_s": 0.0, "wall_s": _t.time() - t0,
            "bounded": {"name": "C15.native_images", "bound": "PNG/JPEG/GIF/BMP/TIFF x sizes 1x1,3x7,64x16 x dpi {absent,72,300x150,96.5,0,5000}, two slides, one misleading file name",
                        "evaluations": evals, "samples": [{"formats": list(fmts)}], "counted_as_proved": False}}


JOBS = {"C15.native_images": _native_images}


@contract("C15", "C15.oxml.shapes.picture.CT_Picture._fill_cropping", timeout_ms=30000)
def _fill_cropping(c):
    """placeholder picture cropping: only one axis is cropped, symmetrically, by a fraction in [0, 1/2), and the part
    of the image left visible has exactly the aspect ratio of the view."""
    from pptx.oxml.shapes.picture import CT_Picture

    iw, ih, vw, vh = c.int("image_w"), c.int("image_h"), c.int("view_w"), c.int("view_h")
    c.requires(z3.And(iw >= 1, ih >= 1, vw >= 1, vh >= 1))
    pic = SObj(CT_Picture, "pic")
    out = c.run(CT_Picture._fill_cropping, pic, (iw, ih), (vw, vh))
    if out.raised:
        c.fails("never_raises", "raised %s" % out.exc)
        return
    l, t, r, b = [to_real(x) for x in out.value]
    half = z3.RealVal(1) / 2
    c.ensures("post.symmetric", z3.And(l == r, t == b))
    c.ensures("post.one_axis", z3.Or(z3.And(l == 0, r == 0), z3.And(t == 0, b == 0)))
    c.ensures("post.fraction_range", z3.And(l >= 0, l < half, t >= 0, t < half))
    # visible part: width iw*(1-l-r), height ih*(1-t-b); its aspect ratio equals the view's (cross-multiplied)
    c.ensures("post.aspect_preserved", to_real(iw) * (1 - l - r) * to_real(vh) == to_real(ih) * (1 - t - b) * to_real(vw))


# ---------------------------------------------------------------------------------------------------------
# images the library supplies itself go through the same de-duplicating entry point


def _replay_poster(model, rec):
    import hashlib
    import io

    from pptx import Presentation
    from pptx.parts.image import ImagePart
    from pptx.util import Emu

    prs = Presentation()
    s1 = prs.slides.add_slide(prs.slide_layouts[6])
    s2 = prs.slides.add_slide(prs.slide_layouts[6])
    for k, sl in enumerate((s1, s1, s2)):
        sl.shapes.add_movie(io.BytesIO(b"\x00\x00\x00\x18ftypmp42 %d" % k), Emu(0), Emu(0), Emu(10), Emu(10), mime_type="video/mp4")
    by = {}
    for p in prs.part.package.iter_parts():
        if isinstance(p, ImagePart):
            by.setdefault(hashlib.sha1(p.blob).hexdigest(), []).append(str(p.partname))
    dup = [v for v in by.values() if len(v) > 1]
    if dup:
        return {"confirmed": True, "witness_class": "image-dedup", "detail": "three movies without poster frame: the speaker image is stored as %s" % dup[0]}
    return {"confirmed": False, "detail": "the speaker image of three movies is one part"}


def _make_poster(given):
    @contract("C15", "C15.shapes.shapetree._MoviePicElementCreator._poster_frame_rId[%s]" % ("poster frame given" if given else "no poster frame"), replay=_replay_poster)
    def body(c):
        """the poster frame -- the caller's, or the built-in speaker image when none is given -- is related through
        SlidePart.get_or_add_image_part (the de-duplicating entry point, contract above), once, and the relationship id it returns is used."""
        import io

        from pptx.media import SPEAKER_IMAGE_BYTES
        from pptx.shapes.shapetree import _MoviePicElementCreator

        calls = []
        RID = SStr([Atom("rId", zs=z3.String("rId"))])

        def goa(it, a, k):
            calls.append(a[0] if a else None)
            return (SObj(None, "image_part", __external__=True), RID)

        slide_part = SObj(None, "slide_part", get_or_add_image_part=GhostFn(goa, "SlidePart.get_or_add_image_part"), __external__=True)
        poster = SObj(None, "poster_file", __external__=True) if given else None
        cr = SObj(_MoviePicElementCreator, "creator", _slide_part=slide_part, _poster_frame_file=poster)
        fn = _MoviePicElementCreator.__dict__["_poster_frame_rId"]
        out = c.run(getattr(fn, "_fget", None) or fn.fget, cr)
        if out.raised:
            c.fails("never_raises", "raised %s" % out.exc)
            return
        c.ensures("post.id_from_the_deduplicating_entry_point", out.value is RID)
        c.ensures("post.related_once", len(calls) == 1)
        if given:
            c.ensures("post.the_callers_file", len(calls) == 1 and calls[0] is poster)
        else:
            arg = calls[0] if calls else None
            c.ensures("post.the_builtin_image", isinstance(arg, io.BytesIO) and arg.getvalue() == SPEAKER_IMAGE_BYTES)

    return body


_make_poster(True)
_make_poster(False)

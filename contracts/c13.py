"""C13 -- a new slide mirrors its layout's placeholders and inherits their geometry.  DESIGN.md 5/C13.

Chain of contracts (each function is executed symbolically from its real source):

  SlideLayout.iter_cloneable_placeholders   = the subsequence of layout placeholders whose type is not latent
  _BaseShapes.clone_placeholder             adds exactly one placeholder with the same (type, orient, sz, idx),
                                            a fresh id and a fresh name; never raises on any cloneable type
  SlideShapes.clone_layout_placeholders     loop contract: after k layout placeholders the log of added
                                            placeholders is map(clone, filter(not latent, first k)), in order,
                                            ids and names pairwise distinct and distinct from the existing ones
  NotesSlide.clone_master_placeholders      the same over (slide image, body, slide number)
  LayoutPlaceholders.get / MasterPlaceholders.get   first match by idx / by type, None if absent
  _InheritsDimensions._effective_value      own value if present, else the base placeholder's, else None
  *_base_placeholder                        layout: by idx; master: by mapped type (total on every type the schema
                                            allows); notes master: by type
  Slides.add_slide / PresentationPart.add_slide / SlidePart.new    the slide part is related to the layout part, the
                                            new p:sldId is appended last, nothing else in the list is touched
"""
from __future__ import annotations

import z3

from pyvc.engine import Atom, FmtInt, GhostFn, SObj, SSeq, SStr, invariant_loop, invariant_while, is_z3
from pyvc.verify import contract

META = {
    "residual": [
        "CT_Shape.new_placeholder_sp / CT_GroupShape.add_placeholder (XML construction from a template string) are "
        "covered by C05/C10 contracts and probed natively here (C13.native_layouts); the loop contract takes "
        "'add_placeholder puts exactly that (id, name, type, orient, sz, idx) shape last in the tree' as their contract",
        "freshness of ids/names across iterations uses the C06 contracts of _next_shape_id / _next_ph_name applied to the "
        "part state 'initial ids + ids added so far'",
        "lazyproperty caching of .placeholders / .shapes proxies is not modelled (a fresh proxy is equivalent)",
    ],
    "trusted_base": ["z3 quantifier instantiation", "lxml", "C06 allocator contracts", "C10 insertion-order contracts"],
}


def _ph_types():
    """placeholder types that can be read from XML (ST_PlaceholderType tokens)."""
    from pptx.enum.shapes import PP_PLACEHOLDER

    return [m for m in PP_PLACEHOLDER if getattr(m, "xml_value", None) not in (None, "")]


def _latent():
    from pptx.enum.shapes import PP_PLACEHOLDER as P

    return (P.DATE, P.FOOTER, P.SLIDE_NUMBER)


def _is_type(t, members=None):
    return z3.Or(*[t == int(m) for m in (members or _ph_types())])


def _ghost_ph(j, T, O, S, I, extra=None):
    """layout/master placeholder j as seen by the cloning code: .element.ph_type/.ph_orient/.ph_sz/.ph_idx"""
    e = SObj(None, "sp[%s]" % j, ph_type=T(j), ph_orient=O(j), ph_sz=S(j), ph_idx=I(j))
    p = SObj(None, "placeholder[%s]" % j, element=e, _element=e, ph_type=T(j), j=j)
    return p


def _fields(c):
    T = z3.Function("PH_TYPE", z3.IntSort(), z3.IntSort())
    O = z3.Function("PH_ORIENT", z3.IntSort(), z3.IntSort())  # abstract token of ST_Direction
    S = z3.Function("PH_SZ", z3.IntSort(), z3.IntSort())  # abstract token of ST_PlaceholderSize
    I = z3.Function("PH_IDX", z3.IntSort(), z3.IntSort())
    for q in range(3):
        c.input("type%d" % q, T(z3.IntVal(q)))
        c.input("idx%d" % q, I(z3.IntVal(q)))
    return T, O, S, I


# ---------------------------------------------------------------------------------------------------------
# replay: generated layouts with arbitrary placeholder populations


def _mk_layout_prs(specs):
    """Default deck whose first layout's placeholders are replaced by `specs`: list of (type token, idx or None,
    orient or None, sz or None, has_xfrm)."""
    from pptx import Presentation
    from pptx.oxml import parse_xml
    from pptx.oxml.ns import nsdecls

    prs = Presentation()
    layout = prs.slide_layouts[0]
    spTree = layout.shapes._spTree
    for sp in list(spTree.iter_shape_elms()):
        spTree.remove(sp)
    for n, spec in enumerate(specs):
        tok, idx, orient, sz, xfrm = spec[:5]
        kind = spec[5] if len(spec) > 5 else "sp"
        attrs = ""
        if tok is not None:
            attrs += ' type="%s"' % tok
        if idx is not None:
            attrs += ' idx="%d"' % idx
        if orient is not None:
            attrs += ' orient="%s"' % orient
        if sz is not None:
            attrs += ' sz="%s"' % sz
        x = '<a:xfrm><a:off x="%d" y="%d"/><a:ext cx="%d" cy="%d"/></a:xfrm>' % (100 + n, 200 + n, 300 + n, 400 + n) if xfrm else ""
        if xfrm == "zero":
            x = '<a:xfrm><a:off x="0" y="0"/><a:ext cx="0" cy="0"/></a:xfrm>'
        if kind == "pic":  # a populated picture placeholder, as PowerPoint writes it on a layout
            sp = parse_xml('<p:pic %s><p:nvPicPr><p:cNvPr id="%d" name="L%d"/><p:cNvPicPr/><p:nvPr><p:ph%s/></p:nvPr></p:nvPicPr>'
                           '<p:blipFill><a:blip/><a:stretch><a:fillRect/></a:stretch></p:blipFill><p:spPr>%s</p:spPr></p:pic>'
                           % (nsdecls("p", "a"), n + 2, n, attrs, x))
        elif kind == "graphicFrame":  # a populated table placeholder; p:xfrm is a required child of p:graphicFrame
            x = x or '<a:xfrm><a:off x="%d" y="%d"/><a:ext cx="%d" cy="%d"/></a:xfrm>' % (100 + n, 200 + n, 300 + n, 400 + n)
            sp = parse_xml('<p:graphicFrame %s><p:nvGraphicFramePr><p:cNvPr id="%d" name="L%d"/><p:cNvGraphicFramePr/><p:nvPr><p:ph%s/></p:nvPr>'
                           '</p:nvGraphicFramePr>%s<a:graphic><a:graphicData uri="http://schemas.openxmlformats.org/drawingml/2006/table">'
                           '<a:tbl><a:tblPr/><a:tblGrid><a:gridCol w="100"/></a:tblGrid><a:tr h="100"><a:tc><a:txBody><a:bodyPr/><a:p/></a:txBody>'
                           '<a:tcPr/></a:tc></a:tr></a:tbl></a:graphicData></a:graphic></p:graphicFrame>'
                           % (nsdecls("p", "a"), n + 2, n, attrs, x.replace("a:xfrm", "p:xfrm")))
        else:
            sp = parse_xml('<p:sp %s><p:nvSpPr><p:cNvPr id="%d" name="L%d"/><p:cNvSpPr/><p:nvPr><p:ph%s/></p:nvPr></p:nvSpPr><p:spPr>%s</p:spPr>'
                           '<p:txBody><a:bodyPr/><a:p/></p:txBody></p:sp>' % (nsdecls("p", "a"), n + 2, n, attrs, x))
        spTree.append(sp)
    return prs, layout


def _xml_placeholders(spTree):
    """The placeholder shapes of a shape tree read from the XML alone: every direct child carrying p:ph under its non-visual properties,
    whatever its element type; [(element, (type, idx, orient, sz))] with the schema defaults filled in."""
    from pptx.enum.shapes import PP_PLACEHOLDER as P

    out = []
    for e in spTree.iterchildren():
        phs = e.xpath("./*[1]/p:nvPr/p:ph")
        if not phs:
            continue
        ph = phs[0]
        tok = ph.get("type")
        out.append((e, (P.from_xml(tok) if tok else P.OBJECT, int(ph.get("idx", "0")), ph.get("orient", "horz"), ph.get("sz", "full"))))
    return out


def _check_slide_against_layout(prs, layout, before_ids=None):
    """add a slide from `layout`; return None if the property holds, else a description."""
    from pptx.enum.shapes import PP_PLACEHOLDER as P

    latent = (P.DATE, P.FOOTER, P.SLIDE_NUMBER)
    before = [s.slide_id for s in prs.slides]
    before_xml = [s._element.xml for s in prs.slides]
    try:
        slide = prs.slides.add_slide(layout)
    except Exception as e:
        return "add_slide raised %r" % (e,)
    lay_xml = _xml_placeholders(layout.shapes._spTree)
    want = [k for _, k in lay_xml if k[0] not in latent]
    got = [slide.shapes._shape_factory(e) for e in slide.shapes._spTree.iter_ph_elms()]
    got_xml = [k for _, k in _xml_placeholders(slide.shapes._spTree)]
    if len(got) != len(want) or len(got_xml) != len(want):
        return "slide has %d placeholders, layout has %d cloneable" % (len(got_xml), len(want))
    for w, g, gx in zip(want, got, got_xml):
        ge = g.element
        if w != (ge.ph_type, ge.ph_idx, ge.ph_orient, ge.ph_sz) or w != gx:
            return "placeholder mismatch: layout (%s, idx %s, %s, %s) vs slide (%s, idx %s, %s, %s)" % (w + gx)
    names = [g.name for g in got]
    if len(set(names)) != len(names):
        return "placeholder names not unique: %s" % names
    ids = [int(v) for v in slide.shapes._spTree.xpath("//@id")]
    if len(set(ids)) != len(ids):
        return "shape ids not unique: %s" % ids
    # geometry: the counterpart is the first layout placeholder with the same idx
    for g in got:
        base = next((layout.shapes._shape_factory(e) for e, k in lay_xml if k[1] == g.element.ph_idx), None)
        for attr in ("left", "top", "width", "height"):
            try:
                gv = getattr(g, attr)
                bv = getattr(base, attr) if base is not None else None
            except Exception as e:
                return "reading %s of cloned placeholder idx=%s raised %r" % (attr, g.element.ph_idx, e)
            if gv != bv:
                return "%s of slide placeholder idx=%s is %r, layout counterpart has %r" % (attr, g.element.ph_idx, gv, bv)
    after = [s.slide_id for s in prs.slides]
    if after[:-1] != before or after[-1] != slide.slide_id:
        return "slide order: before %s after %s new %s" % (before, after, slide.slide_id)
    if slide.slide_layout is not layout and slide.slide_layout.part is not layout.part:
        return "slide is not related to the layout it was made from"
    if [s._element.xml for s in list(prs.slides)[:-1]] != before_xml:
        return "another slide changed"
    return None


_TOKENS = ["title", "body", "ctrTitle", "subTitle", "dt", "sldNum", "ftr", "hdr", "obj", "chart", "tbl", "clipArt", "dgm", "media", "sldImg", "pic"]


def _replay_clone(model, rec):
    cands = []
    for tok in _TOKENS:
        cands.append([(tok, 10, None, None, True)])
    cands += [
        [("body", 1, "vert", "half", True), ("body", 1, None, None, False), ("title", None, None, None, True)],
        [(None, 5, None, None, True), ("pic", 6, None, "quarter", False), ("dt", 7, None, None, True)],
        [("body", 4294967295, "vert", "full", True)],
        [("obj", 3, None, None, False), ("obj", 3, None, None, True)],
    ]
    for specs in cands:
        prs, layout = _mk_layout_prs(specs)
        bad = _check_slide_against_layout(prs, layout)
        if bad is None:
            bad = _check_slide_against_layout(prs, layout)  # a second slide from the same layout
        if bad is not None:
            toks = [s[0] for s in specs]
            cls = "clone-raises" if "raised" in bad else "clone-mismatch"
            if "raised" in bad and ("KeyError" in bad):
                cls = "ph-type-keyerror"
            return {"confirmed": True, "witness_class": cls, "detail": "layout placeholders %s: %s" % (specs, bad), "input": toks}
    return {"confirmed": False, "detail": "%d generated layouts: slide mirrors layout" % len(cands)}


# ---------------------------------------------------------------------------------------------------------
# (A) the cloneable subsequence


@contract("C13", "C13.slide.SlideLayout.iter_cloneable_placeholders", replay=_replay_clone)
def _iter_cloneable(c):
    """yields exactly the layout placeholders whose type is not date / footer / slide number, in layout order."""
    from pptx.slide import SlideLayout

    n = c.int("n_ph")
    c.requires(n >= 0)
    T, O, S, I = _fields(c)
    j = z3.Int("aj")
    c.requires(z3.ForAll([j], z3.Implies(z3.And(0 <= j, j < n), _is_type(T(j)))))
    phs = SSeq(n, lambda q: _ghost_ph(q, T, O, S, I), name="layout.placeholders")
    layout = SObj(SlideLayout, "layout", placeholders=phs)
    out = c.run(SlideLayout.iter_cloneable_placeholders, layout)
    if out.raised:
        c.fails("never_raises", "raised %s" % out.exc)
        return
    r = out.value
    ok = type(r).__name__ == "SFiltered" and getattr(r, "objects", False)
    c.ensures("post.is_subsequence_of_layout_placeholders", ok)
    if not ok:
        return
    lat = _latent()
    c.ensures("post.same_underlying_length", r.n == n)
    c.ensures("post.kept_iff_not_latent",
              z3.ForAll([j], z3.Implies(z3.And(0 <= j, j < n), r.cond(j) == z3.And(*[T(j) != int(m) for m in lat]))))
    k = c.int("probe")
    c.requires(z3.And(0 <= k, k < n))
    e = r.elt(k)
    c.ensures("post.element_is_the_layout_placeholder", isinstance(e, SObj) and z3.is_true(z3.simplify(e.fields["j"] == k)))


# ---------------------------------------------------------------------------------------------------------
# (B) one clone


class _Names:
    __pyvc_symbolic__ = True

    def __init__(self):
        self.HASNAME = z3.Function("HASNAME", z3.StringSort(), z3.BoolSort())

    def sym_contains(self, it, item):
        from pyvc.engine import _as_sstr

        z = _as_sstr(item).z3()
        if z is None:
            raise Exception("name without z3 form: %r" % (item,))
        return self.HASNAME(z)


def _xpath_names(names):
    def h(it, a, k):
        from pyvc.engine import Unsupported

        if a and a[0] == "//p:cNvPr/@name":
            it.path.assumed.add("xpath('//p:cNvPr/@name') returns the names of the shapes in the part")
            return names
        raise Unsupported("xpath %r has no assumed contract" % (a,))

    return GhostFn(h, "xpath")


def _make_clone_one(cls_name, types_fn, label):
    @contract("C13", "C13.shapes.shapetree.%s.clone_placeholder[%s]" % (cls_name, label), replay=_replay_clone, timeout_ms=20000, max_paths=400)
    def body(c):
        """for every cloneable placeholder type, orientation, size and idx: exactly one add_placeholder call with the
        same (type, orient, sz, idx), an id not in use and a name not in use; never raises."""
        import pptx.shapes.shapetree as st

        cls = getattr(st, cls_name)
        types = types_fn()
        T = c.int("ph_type")
        c.requires(_is_type(T, types))
        vert = c.bool("vertical")
        orient = "vert" if c.branch(vert) else "horz"
        sz, idx = c.int("sz_token"), c.int("idx")
        USED = z3.Function("USED", z3.IntSort(), z3.BoolSort())
        M = c.int("max_shape_id")
        m = z3.Int("um")
        c.requires(z3.ForAll([m], z3.Implies(USED(m), z3.And(m >= 0, m <= M))))
        c.requires(M >= 0)
        names = _Names()
        calls = []
        spTree = SObj(None, "spTree", max_shape_id=M, xpath=_xpath_names(names),
                      add_placeholder=GhostFn(lambda it, a, k: calls.append((a, k)), "add_placeholder"))
        shapes = SObj(cls, "shapes", _spTree=spTree, _element=spTree, _cached_max_shape_id=None)
        e = SObj(None, "sp", ph_type=T, ph_orient=orient, ph_sz=sz, ph_idx=idx)
        ph = SObj(None, "layout_placeholder", element=e)
        qn = "pptx.shapes.shapetree:_BaseShapes._next_ph_name"
        c.loop_specs[(qn, 0)] = invariant_while("C13.%s._next_ph_name.loop0" % cls_name, ["numpart"], lambda env: z3.BoolVal(True))
        out = c.run(cls.clone_placeholder, shapes, ph)
        if out.raised:
            c.fails("never_raises", "clone_placeholder raised %s" % out.exc)
            return
        c.ensures("post.exactly_one_placeholder_added", len(calls) == 1)
        if len(calls) != 1:
            return
        a, k = calls[0]
        ok = len(a) == 6 and not k
        c.ensures("post.add_placeholder_args", ok)
        if not ok:
            return
        id_, name, t2, o2, s2, i2 = a
        from pyvc.engine import _as_sstr

        c.ensures("post.same_type", t2 is T)
        c.ensures("post.same_orient", o2 == orient)
        c.ensures("post.same_sz", s2 is sz)
        c.ensures("post.same_idx", i2 is idx)
        c.ensures("post.fresh_id", z3.And(z3.Not(USED(id_)), id_ >= 1))
        z = _as_sstr(name).z3()
        c.ensures("post.fresh_name", z is not None and z3.Not(names.HASNAME(z)))

    return body


def _slide_cloneable():
    lat = _latent()
    return [m for m in _ph_types() if m not in lat]


def _notes_cloneable():
    from pptx.enum.shapes import PP_PLACEHOLDER as P

    return [P.SLIDE_IMAGE, P.BODY, P.SLIDE_NUMBER]


_make_clone_one("SlideShapes", _slide_cloneable, "every non-latent type")
_make_clone_one("NotesSlideShapes", _notes_cloneable, "slide image, body, slide number")


# ---------------------------------------------------------------------------------------------------------
# (C) the loops


class _Log:
    """ghost: the placeholders added so far, as arrays indexed by position."""

    def __init__(self):
        self.gen = 0
        self.reset()

    def reset(self, tag="0"):
        A = lambda nm, rng: z3.Array("%s_%s" % (nm, tag), z3.IntSort(), rng)
        self.cnt = z3.IntVal(0) if tag == "0" else z3.Int("cnt_%s" % tag)
        self.T, self.O, self.S, self.I, self.ID = (A(x, z3.IntSort()) for x in ("LT", "LO", "LS", "LI", "LID"))
        self.NM = A("LNM", z3.StringSort())


def _loop_contract(c, run, label, keep, qn, loop_ord):
    """Shared body of the two cloning loops.  `keep(T(j))` is the cloneable predicate (z3)."""
    n = c.int("n_ph")
    c.requires(n >= 0)
    T, O, S, I = _fields(c)
    j, a, b = z3.Ints("lj la lb")
    USED0 = z3.Function("USED0", z3.IntSort(), z3.BoolSort())
    HASNAME0 = z3.Function("HASNAME0", z3.StringSort(), z3.BoolSort())
    log = _Log()
    # COUNT(k) = number of cloneable placeholders among the first k (ghost function with its defining axioms)
    COUNT = z3.Function("COUNT", z3.IntSort(), z3.IntSort())
    c.path.assume(COUNT(0) == 0)
    c.path.assume(z3.ForAll([j], z3.Implies(j >= 0, COUNT(j + 1) == COUNT(j) + z3.If(keep(T(j)), 1, 0))))
    c.path.assumed.add("COUNT(k): ghost definition (number of cloneable placeholders among the first k)")
    phs = SSeq(n, lambda q: _ghost_ph(q, T, O, S, I), name="base.placeholders")

    def next_id(it):
        r = it.path.fresh("new_id", z3.IntSort())
        q = z3.Int("nq")
        it.path.assume(z3.And(r >= 1, z3.Not(USED0(r)), z3.ForAll([q], z3.Implies(z3.And(0 <= q, q < log.cnt), log.ID[q] != r))))
        it.path.assumed.add("C06 contract of _next_shape_id: result >= 1 and not among the ids in the part (initial ids + ids added so far)")
        return r

    def next_name(it, a_, k_):
        r = it.path.fresh("new_name", z3.StringSort())
        q = z3.Int("nq2")
        it.path.assume(z3.And(z3.Not(HASNAME0(r)), z3.ForAll([q], z3.Implies(z3.And(0 <= q, q < log.cnt), log.NM[q] != r))))
        it.path.assumed.add("C06 contract of _next_ph_name: result not among the names in the part (initial names + names added so far)")
        return SStr([Atom("new_name", zs=r)])

    def add_placeholder(it, a_, k_):
        id_, name, t, o, s, i = a_
        from pyvc.engine import _as_sstr, to_int

        p = log.cnt
        log.T, log.O, log.S, log.I = z3.Store(log.T, p, to_int(t)), z3.Store(log.O, p, to_int(o)), z3.Store(log.S, p, to_int(s)), z3.Store(log.I, p, to_int(i))
        log.ID, log.NM = z3.Store(log.ID, p, to_int(id_)), z3.Store(log.NM, p, _as_sstr(name).z3())
        log.cnt = p + 1
        return None

    class _Shapes:
        pass

    def inv(env, k):
        return z3.And(
            log.cnt == COUNT(k), COUNT(k) >= 0,
            z3.ForAll([j], z3.Implies(z3.And(0 <= j, j < k, keep(T(j))),
                                      z3.And(0 <= COUNT(j), COUNT(j) < log.cnt, log.T[COUNT(j)] == T(j), log.O[COUNT(j)] == O(j), log.S[COUNT(j)] == S(j), log.I[COUNT(j)] == I(j)))),
            z3.ForAll([a, b], z3.Implies(z3.And(0 <= a, a < b, b < log.cnt), z3.And(log.ID[a] != log.ID[b], log.NM[a] != log.NM[b]))),
            z3.ForAll([a], z3.Implies(z3.And(0 <= a, a < log.cnt), z3.And(z3.Not(USED0(log.ID[a])), z3.Not(HASNAME0(log.NM[a]))))),
            z3.ForAll([j], z3.Implies(z3.And(0 <= j, j < k), z3.And(COUNT(j) <= COUNT(j + 1), COUNT(j + 1) <= COUNT(k)))),
        )

    def on_havoc(path):
        log.gen += 1
        log.reset("h%d_%d" % (log.gen, len(path.taken)))

    c.loop_specs[(qn, loop_ord)] = invariant_loop(label + ".loop0", [], inv, on_havoc=on_havoc)
    out = run(phs, next_id, next_name, add_placeholder)
    if out.raised:
        c.fails("never_raises", "raised %s" % out.exc)
        return
    c.ensures("post.count_is_number_of_cloneable", log.cnt == COUNT(n))
    c.ensures("post.each_cloneable_mirrored_at_its_rank",
              z3.ForAll([j], z3.Implies(z3.And(0 <= j, j < n, keep(T(j))),
                                        z3.And(0 <= COUNT(j), COUNT(j) < log.cnt, log.T[COUNT(j)] == T(j), log.O[COUNT(j)] == O(j), log.S[COUNT(j)] == S(j), log.I[COUNT(j)] == I(j)))))
    c.ensures("post.ids_pairwise_distinct_and_new", z3.And(
        z3.ForAll([a, b], z3.Implies(z3.And(0 <= a, a < b, b < log.cnt), log.ID[a] != log.ID[b])),
        z3.ForAll([a], z3.Implies(z3.And(0 <= a, a < log.cnt), z3.Not(USED0(log.ID[a]))))))
    c.ensures("post.names_pairwise_distinct_and_new", z3.And(
        z3.ForAll([a, b], z3.Implies(z3.And(0 <= a, a < b, b < log.cnt), log.NM[a] != log.NM[b])),
        z3.ForAll([a], z3.Implies(z3.And(0 <= a, a < log.cnt), z3.Not(HASNAME0(log.NM[a]))))))
    # order: rank is monotone, so two cloneable placeholders keep their relative order
    c.ensures("post.order_preserved", z3.ForAll([j], z3.Implies(z3.And(0 <= j, j < n, keep(T(j))), COUNT(j + 1) == COUNT(j) + 1)))


class _PropShapes:
    """Helper: SObj whose `_next_shape_id` is a ghost *property* (evaluated on every read)."""


def _mk_shapes(cls, next_id, next_name, add_placeholder):
    from pyvc.engine import GhostProp

    spTree = SObj(None, "spTree", add_placeholder=GhostFn(add_placeholder, "add_placeholder"))
    return SObj(cls, "shapes", _spTree=spTree, _element=spTree, _next_shape_id=GhostProp(next_id), _next_ph_name=GhostFn(next_name, "_next_ph_name"))


@contract("C13", "C13.shapes.shapetree.SlideShapes.clone_layout_placeholders", replay=_replay_clone, timeout_ms=30000)
def _clone_layout(c):
    """the placeholders added are map(clone, filter(not latent, layout placeholders)) in the same order: the j-th
    cloneable layout placeholder is mirrored at rank COUNT(j) with equal (type, orient, sz, idx); ids and names are
    pairwise distinct and new -- for any number of layout placeholders with arbitrary (duplicate) types and idx."""
    from pptx.shapes.shapetree import SlideShapes
    from pptx.slide import SlideLayout

    lat = _latent()

    def keep(t):
        return z3.And(*[t != int(m) for m in lat])

    def run(phs, next_id, next_name, add_placeholder):
        shapes = _mk_shapes(SlideShapes, next_id, next_name, add_placeholder)
        layout = SObj(SlideLayout, "layout", placeholders=phs)
        return c.run(SlideShapes.clone_layout_placeholders, shapes, layout)

    _loop_contract(c, run, "C13.shapes.shapetree.SlideShapes.clone_layout_placeholders", keep,
                   "pptx.shapes.shapetree:SlideShapes.clone_layout_placeholders", 0)


@contract("C13", "C13.slide.NotesSlide.clone_master_placeholders", replay=None, timeout_ms=30000)
def _clone_master(c):
    """notes slide: the same mirror property over the notes master's slide-image, body and slide-number placeholders."""
    from pptx.shapes.shapetree import NotesSlideShapes
    from pptx.slide import NotesSlide

    cl = _notes_cloneable()

    def keep(t):
        return z3.Or(*[t == int(m) for m in cl])

    def run(phs, next_id, next_name, add_placeholder):
        shapes = _mk_shapes(NotesSlideShapes, next_id, next_name, add_placeholder)
        master = SObj(None, "notes_master", placeholders=phs)
        ns = SObj(NotesSlide, "notes_slide", shapes=shapes)
        return c.run(NotesSlide.clone_master_placeholders, ns, master)

    _loop_contract(c, run, "C13.slide.NotesSlide.clone_master_placeholders", keep, "pptx.slide:NotesSlide.clone_master_placeholders", 0)


# ---------------------------------------------------------------------------------------------------------
# (D) lookups and inheritance


def _replay_get(model, rec):
    specs = [("body", 1, None, None, True), ("body", 1, None, None, False), ("title", 0, None, None, True), (None, 7, None, None, True)]
    prs, layout = _mk_layout_prs(specs)
    phs = list(layout.placeholders)
    for idx, want in ((1, 0), (0, 2), (7, 3), (99, None)):
        got = layout.placeholders.get(idx=idx)
        if (got is None) != (want is None) or (got is not None and got.element is not phs[want].element):
            return {"confirmed": True, "witness_class": "layout-get", "detail": "LayoutPlaceholders.get(idx=%d) returned %r" % (idx, got)}
    from pptx.enum.shapes import PP_PLACEHOLDER as P

    mp = prs.slide_master.placeholders
    for t in (P.TITLE, P.BODY, P.DATE, P.CHART):
        got = mp.get(t, None)
        want = next((p for p in mp if p.ph_type == t), None)
        if (got is None) != (want is None) or (got is not None and got.element is not want.element):
            return {"confirmed": True, "witness_class": "master-get", "detail": "MasterPlaceholders.get(%s) returned %r" % (t, got)}
    return {"confirmed": False, "detail": "lookups return the first match"}


@contract("C13", "C13.shapes.shapetree.LayoutPlaceholders.get", replay=_replay_get)
def _layout_get(c):
    """returns the first placeholder whose idx equals the argument, the default iff none has it."""
    from pptx.shapes.shapetree import LayoutPlaceholders

    n = c.int("n_ph")
    c.requires(n >= 0)
    T, O, S, I = _fields(c)
    idx = c.int("idx")
    j = z3.Int("gj")
    seq = SSeq(n, lambda q: _ghost_ph(q, T, O, S, I), name="layout placeholders")
    coll = SObj(LayoutPlaceholders, "placeholders", __iter__=GhostFn(lambda it, a, k: seq))
    c.loop_specs[("pptx.shapes.shapetree:LayoutPlaceholders.get", 0)] = invariant_loop(
        "C13.LayoutPlaceholders.get.loop0", [], lambda env, kk: z3.ForAll([j], z3.Implies(z3.And(0 <= j, j < kk), I(j) != idx)))
    out = c.run(LayoutPlaceholders.get, coll, idx)
    if out.raised:
        c.fails("never_raises", "raised %s" % out.exc)
        return
    r = out.value
    if r is None:
        c.ensures("post.none_iff_absent", z3.ForAll([j], z3.Implies(z3.And(0 <= j, j < n), I(j) != idx)))
    else:
        rj = r.fields["j"]
        c.ensures("post.first_match", z3.And(0 <= rj, rj < n, I(rj) == idx, z3.ForAll([j], z3.Implies(z3.And(0 <= j, j < rj), I(j) != idx))))


def _replay_member(model, rec):
    specs = [("pic", 1, None, None, True, "pic"), ("tbl", 2, None, None, True, "graphicFrame"), ("body", 3, None, None, True, "sp")]
    prs, layout = _mk_layout_prs(specs)
    got = [ph.element.ph_idx for ph in layout.placeholders]
    if got != [1, 2, 3]:
        return {"confirmed": True, "witness_class": "ph-member", "detail": "layout with p:pic, p:graphicFrame and p:sp placeholders (idx 1, 2, 3): .placeholders has idx %s" % got}
    return {"confirmed": False, "detail": "every element type carrying p:ph is a member"}


def _make_member(coll_name, elm_name):
    @contract("C13", "C13.shapes.shapetree.%s._is_member_elm[%s]" % (coll_name, elm_name), replay=_replay_member)
    def body(c):
        """a shape element of any type is a member of the placeholder collection exactly when it carries p:ph."""
        import pptx.oxml.shapes.autoshape as a_
        import pptx.oxml.shapes.connector as c_
        import pptx.oxml.shapes.graphfrm as g_
        import pptx.oxml.shapes.groupshape as gs_
        import pptx.oxml.shapes.picture as p_
        import pptx.shapes.shapetree as st

        ecls = {"CT_Shape": a_.CT_Shape, "CT_Picture": p_.CT_Picture, "CT_GraphicalObjectFrame": g_.CT_GraphicalObjectFrame,
                "CT_GroupShape": gs_.CT_GroupShape, "CT_Connector": c_.CT_Connector}[elm_name]
        has = c.bool("has_ph_elm")
        elm = SObj(ecls, "shape_elm", has_ph_elm=has)
        cls = getattr(st, coll_name)
        out = c.run(cls._is_member_elm, elm)
        if out.raised:
            c.fails("never_raises", "raised %s" % out.exc)
            return
        r = out.value
        c.ensures("post.member_iff_placeholder", (r if is_z3(r) else z3.BoolVal(bool(r))) == has)

    return body


for _cn in ("LayoutPlaceholders", "MasterPlaceholders", "NotesSlidePlaceholders"):
    for _en in ("CT_Shape", "CT_Picture", "CT_GraphicalObjectFrame", "CT_GroupShape", "CT_Connector"):
        _make_member(_cn, _en)


def _make_master_get(cls_name):
    @contract("C13", "C13.shapes.shapetree.%s.get" % cls_name, replay=_replay_get)
    def body(c):
        """returns the first placeholder whose type equals the argument, the default iff none has it."""
        import pptx.shapes.shapetree as st

        cls = getattr(st, cls_name)
        n = c.int("n_ph")
        c.requires(n >= 0)
        T, O, S, I = _fields(c)
        t = c.int("ph_type")
        j = z3.Int("gj")
        seq = SSeq(n, lambda q: _ghost_ph(q, T, O, S, I), name="master placeholders")
        coll = SObj(cls, "placeholders", __iter__=GhostFn(lambda it, a, k: seq))
        c.loop_specs[("pptx.shapes.shapetree:MasterPlaceholders.get", 0)] = invariant_loop(
            "C13.MasterPlaceholders.get.loop0", [], lambda env, kk: z3.ForAll([j], z3.Implies(z3.And(0 <= j, j < kk), T(j) != t)))
        out = c.run(cls.get, coll, t)
        if out.raised:
            c.fails("never_raises", "raised %s" % out.exc)
            return
        r = out.value
        if r is None:
            c.ensures("post.none_iff_absent", z3.ForAll([j], z3.Implies(z3.And(0 <= j, j < n), T(j) != t)))
        else:
            rj = r.fields["j"]
            c.ensures("post.first_match", z3.And(0 <= rj, rj < n, T(rj) == t, z3.ForAll([j], z3.Implies(z3.And(0 <= j, j < rj), T(j) != t))))

    return body


_make_master_get("MasterPlaceholders")
_make_master_get("NotesSlidePlaceholders")


def _replay_inherit(model, rec):
    """layout placeholder of each type with and without own xfrm; slide clone with/without override"""
    bad = None
    for tok in _TOKENS:
        for xfrm in (True, False):
            prs, layout = _mk_layout_prs([(tok, 10, None, None, xfrm)])
            lp = list(layout.placeholders)[0]
            try:
                vals = (lp.left, lp.top, lp.width, lp.height)
            except Exception as e:
                return {"confirmed": True, "witness_class": "layout-inherit-raises" if not isinstance(e, KeyError) else "ph-type-keyerror",
                        "detail": "layout placeholder type=%s own xfrm=%s: reading geometry raised %r" % (tok, xfrm, e), "input": tok}
            if xfrm and vals != (100, 200, 300, 400):
                bad = "layout placeholder type=%s reports %s instead of its own xfrm" % (tok, vals)
    for tok in ("body", "title", "pic"):
        prs, layout = _mk_layout_prs([(tok, 10, None, None, "zero")])
        lp = list(layout.placeholders)[0]
        vals = (lp.left, lp.top, lp.width, lp.height)
        if vals != (0, 0, 0, 0):
            bad = "layout placeholder type=%s with own xfrm (0,0,0,0) reports %s" % (tok, vals)
        slide = prs.slides.add_slide(layout)
        sp = list(slide.placeholders)[0]
        sp.left, sp.top, sp.width, sp.height = 0, 0, 0, 0
        vals = (sp.left, sp.top, sp.width, sp.height)
        if vals != (0, 0, 0, 0):
            bad = "slide placeholder type=%s overridden to (0,0,0,0) reports %s" % (tok, vals)
    if bad:
        return {"confirmed": True, "witness_class": "inherit-wrong", "detail": bad}
    return {"confirmed": False, "detail": "all 16 types x own/inherited geometry readable"}


def _geom_elem(c, name):
    """element with optional xfrm values: each of x, y, cx, cy is None or an int"""
    vals = {}
    for a in ("x", "y", "cx", "cy"):
        has = c.bool("%s_has_%s" % (name, a))
        vals[a] = c.int("%s_%s" % (name, a)) if c.branch(has) else None
    return vals


def _make_effective(cls_name, attr, elem_attr):
    @contract("C13", "C13.shapes.placeholder.%s.%s.fget" % (cls_name, attr), replay=_replay_inherit)
    def body(c):
        """own value when the shape has one; otherwise the base placeholder's effective value; None when there is
        no base placeholder."""
        import pptx.shapes.placeholder as pl

        cls = getattr(pl, cls_name)
        own_has = c.bool("own_has")
        own = c.int("own") if c.branch(own_has) else None
        base_exists = c.bool("base_exists")
        base_val = None
        base = None
        if c.branch(base_exists):
            bh = c.bool("base_has")
            base_val = c.int("base_val") if c.branch(bh) else None
            base = SObj(None, "base_placeholder", **{attr: base_val})
        e = SObj(None, "sp", **{elem_attr: own})
        ph = SObj(cls, "placeholder", _element=e, element=e, _base_placeholder=base)
        out = c.run(getattr(cls, attr).fget, ph)
        if out.raised:
            c.fails("never_raises", "raised %s" % out.exc)
            return
        r = out.value
        if own is not None:
            c.ensures("post.own_value_wins", r is own or (r is not None and z3.is_expr(r) and r == own))
        elif base is None:
            c.ensures("post.none_without_base", r is None)
        elif base_val is None:
            c.ensures("post.none_when_base_has_none", r is None)
        else:
            c.ensures("post.inherits_base_value", r is base_val or (r is not None and z3.is_expr(r) and r == base_val))

    return body


# PlaceholderGraphicFrame does not inherit: p:graphicFrame always has its own p:xfrm (required child)
for _cls in ("SlidePlaceholder", "ChartPlaceholder", "PicturePlaceholder", "TablePlaceholder", "LayoutPlaceholder", "NotesSlidePlaceholder", "PlaceholderPicture"):
    for _attr, _ea in (("left", "x"), ("top", "y"), ("width", "cx"), ("height", "cy")):
        _make_effective(_cls, _attr, _ea)


@contract("C13", "C13.shapes.placeholder._BaseSlidePlaceholder._base_placeholder.fget", replay=_replay_clone)
def _slide_base(c):
    """a slide placeholder's base is the result of layout.placeholders.get(idx = its own idx)."""
    from pptx.shapes.placeholder import _BaseSlidePlaceholder

    idx = c.int("idx")
    asked = []
    res = SObj(None, "layout_placeholder")

    def get(it, a, k):
        asked.append((a, k))
        return res

    layout = SObj(None, "layout", placeholders=SObj(None, "layout.placeholders", get=GhostFn(get, "get")))
    part = SObj(None, "slide_part", slide_layout=layout)
    e = SObj(None, "sp", ph_idx=idx)
    ph = SObj(_BaseSlidePlaceholder, "placeholder", _element=e, element=e, part=part)
    out = c.run(_BaseSlidePlaceholder._base_placeholder.fget, ph)
    if out.raised:
        c.fails("never_raises", "raised %s" % out.exc)
        return
    c.ensures("post.looked_up_once_by_own_idx", len(asked) == 1 and (list(asked[0][0]) + list(asked[0][1].values()))[0] is idx)
    c.ensures("post.returns_the_lookup_result", out.value is res)


@contract("C13", "C13.shapes.placeholder.LayoutPlaceholder._base_placeholder.fget", replay=_replay_inherit, max_paths=200)
def _layout_base(c):
    """for every placeholder type the schema allows, the lookup key is defined (no KeyError) and is the master type
    that the layout type specialises: title-like -> title, date/footer/slide number -> themselves, all content types -> body."""
    from pptx.enum.shapes import PP_PLACEHOLDER as P
    from pptx.shapes.placeholder import LayoutPlaceholder

    T = c.int("ph_type")
    c.requires(_is_type(T))
    asked = []
    res = SObj(None, "master_placeholder")

    def get(it, a, k):
        asked.append((a, k))
        return res

    master = SObj(None, "master", placeholders=SObj(None, "master.placeholders", get=GhostFn(get, "get")))
    part = SObj(None, "layout_part", slide_master=master)
    e = SObj(None, "sp", ph_type=T)
    ph = SObj(LayoutPlaceholder, "placeholder", _element=e, element=e, part=part)
    out = c.run(LayoutPlaceholder._base_placeholder.fget, ph)
    if out.raised:
        c.fails("never_raises", "_base_placeholder raised %s" % out.exc)
        return
    ok = len(asked) == 1
    c.ensures("post.one_lookup", ok)
    if not ok:
        return
    key = asked[0][0][0]
    from pyvc.engine import to_int

    kz = to_int(key)
    title_like = z3.Or(T == int(P.TITLE), T == int(P.CENTER_TITLE))
    own = z3.Or(*[T == int(m) for m in (P.DATE, P.FOOTER, P.SLIDE_NUMBER, P.HEADER, P.SLIDE_IMAGE)])
    c.ensures("post.key_is_mapped_master_type",
              z3.If(title_like, kz == int(P.TITLE), z3.If(own, kz == T, kz == int(P.BODY))))
    c.ensures("post.returns_the_lookup_result", out.value is res)


@contract("C13", "C13.shapes.placeholder.NotesSlidePlaceholder._base_placeholder.fget", replay=None)
def _notes_base(c):
    """a notes-slide placeholder's base is notes_master.placeholders.get(ph_type = its own type)."""
    from pptx.shapes.placeholder import NotesSlidePlaceholder

    T = c.int("ph_type")
    asked = []
    res = SObj(None, "master_placeholder")

    def get(it, a, k):
        asked.append((a, k))
        return res

    master = SObj(None, "notes_master", placeholders=SObj(None, "placeholders", get=GhostFn(get, "get")))
    part = SObj(None, "notes_part", notes_master=master)
    e = SObj(None, "sp", ph_type=T)
    ph = SObj(NotesSlidePlaceholder, "placeholder", _element=e, element=e, part=part)
    out = c.run(NotesSlidePlaceholder._base_placeholder.fget, ph)
    if out.raised:
        c.fails("never_raises", "raised %s" % out.exc)
        return
    c.ensures("post.looked_up_once_by_own_type", len(asked) == 1 and (list(asked[0][0]) + list(asked[0][1].values()))[0] is T)
    c.ensures("post.returns_the_lookup_result", out.value is res)


# ---------------------------------------------------------------------------------------------------------
# (E) presentation order and the relationship to the layout


def _replay_add_slide(model, rec):
    from pptx import Presentation

    prs = Presentation()
    for li in (0, 1, 6, 3, 0):
        bad = _check_slide_against_layout(prs, prs.slide_layouts[li])
        if bad:
            return {"confirmed": True, "witness_class": "add-slide", "detail": "default deck, layout %d: %s" % (li, bad)}
    return {"confirmed": False, "detail": "five additions to the default deck behave"}


@contract("C13", "C13.slide.Slides.add_slide", replay=_replay_add_slide)
def _add_slide(c):
    """add_slide: (1) the slide part is created from the layout, (2) the layout's placeholders are cloned into that
    slide from that same layout, (3) a p:sldId for the returned rId is added -- exactly once each, in this order --
    and the slide returned is the one created."""
    from pptx.slide import Slides

    events = []
    layout = SObj(None, "layout")
    new_shapes = SObj(None, "new_slide.shapes", clone_layout_placeholders=GhostFn(lambda it, a, k: events.append(("clone", a)), "clone_layout_placeholders"))
    new_slide = SObj(None, "new_slide", shapes=new_shapes)
    rid = SStr([Atom("rId")])

    def add_slide(it, a, k):
        events.append(("part.add_slide", a))
        return (rid, new_slide)

    part = SObj(None, "presentation_part", add_slide=GhostFn(add_slide, "add_slide"))
    lst = SObj(None, "sldIdLst", add_sldId=GhostFn(lambda it, a, k: events.append(("add_sldId", a)), "add_sldId"))
    slides = SObj(Slides, "slides", part=part, _sldIdLst=lst, _element=lst)
    out = c.run(Slides.add_slide, slides, layout)
    if out.raised:
        c.fails("never_raises", "raised %s" % out.exc)
        return
    kinds = [e[0] for e in events]
    c.ensures("post.three_steps_in_order", kinds == ["part.add_slide", "clone", "add_sldId"])
    if kinds != ["part.add_slide", "clone", "add_sldId"]:
        return
    c.ensures("post.part_created_from_the_layout", len(events[0][1]) == 1 and events[0][1][0] is layout)
    c.ensures("post.placeholders_cloned_from_the_same_layout", len(events[1][1]) == 1 and events[1][1][0] is layout)
    c.ensures("post.sldId_for_the_returned_rId", len(events[2][1]) == 1 and events[2][1][0] is rid)
    c.ensures("post.returns_the_new_slide", out.value is new_slide)


@contract("C13", "C13.parts.presentation.PresentationPart.add_slide", replay=_replay_add_slide)
def _part_add_slide(c):
    """the slide part gets the next slide part name, is created for the given layout's part, and the presentation
    part is related to it with the slide relationship type; returns (that rId, that part's slide)."""
    from pptx.opc.constants import RELATIONSHIP_TYPE as RT
    from pptx.parts.presentation import PresentationPart

    events = []
    layout_part = SObj(None, "layout_part")
    layout = SObj(None, "layout", part=layout_part)
    the_slide = SObj(None, "slide")
    slide_part = SObj(None, "slide_part", slide=the_slide)
    pname = SStr([Atom("next_slide_partname")])
    pkg = SObj(None, "package")
    rid = SStr([Atom("rId")])

    def new(it, a, k):
        events.append(("SlidePart.new", a))
        return slide_part

    c.summaries["pptx.parts.slide:SlidePart.new"] = new

    def relate_to(it, a, k):
        events.append(("relate_to", a))
        return rid

    part = SObj(PresentationPart, "presentation_part", _next_slide_partname=pname, package=pkg, relate_to=GhostFn(relate_to, "relate_to"))
    out = c.run(PresentationPart.add_slide, part, layout)
    if out.raised:
        c.fails("never_raises", "raised %s" % out.exc)
        return
    kinds = [e[0] for e in events]
    c.ensures("post.create_then_relate", kinds == ["SlidePart.new", "relate_to"])
    if kinds != ["SlidePart.new", "relate_to"]:
        return
    a = events[0][1]
    args = [x for x in a if not isinstance(x, type)]
    c.ensures("post.new_slide_part_named_next_in_package_for_layout_part", len(args) == 3 and args[0] is pname and args[1] is pkg and args[2] is layout_part)
    r = events[1][1]
    c.ensures("post.related_as_slide", len(r) == 2 and r[0] is slide_part and r[1] == RT.SLIDE)
    v = out.value
    c.ensures("post.returns_rId_and_slide", isinstance(v, tuple) and len(v) == 2 and v[0] is rid and v[1] is the_slide)


@contract("C13", "C13.parts.slide.SlidePart.new", replay=_replay_add_slide)
def _slidepart_new(c):
    """the new slide part is related to the layout part it was given, with the slide-layout relationship type."""
    from pptx.opc.constants import CONTENT_TYPE as CT, RELATIONSHIP_TYPE as RT
    from pptx.parts.slide import SlidePart

    events = []
    layout_part = SObj(None, "layout_part")
    pkg = SObj(None, "package")
    pname = SStr([Atom("partname")])
    made = SObj(None, "slide_part", relate_to=GhostFn(lambda it, a, k: events.append(("relate_to", a)), "relate_to"))
    ctor = []

    def cls_call(it, a, k):
        ctor.append(a)
        return made

    c.summaries["pptx.oxml.slide:CT_Slide.new"] = lambda it, a, k: SObj(None, "sld")
    cls = GhostFn(cls_call, "SlidePart")
    out = c.run(SlidePart.new.__func__, cls, pname, pkg, layout_part)
    if out.raised:
        c.fails("never_raises", "raised %s" % out.exc)
        return
    c.ensures("post.constructed_once_with_name_type_package", len(ctor) == 1 and ctor[0][0] is pname and ctor[0][1] == CT.PML_SLIDE and ctor[0][2] is pkg)
    c.ensures("post.related_to_layout_part", len(events) == 1 and events[0][1][0] is layout_part and events[0][1][1] == RT.SLIDE_LAYOUT)
    c.ensures("post.returns_it", out.value is made)


def _replay_sldid(model, rec):
    from pptx.oxml import parse_xml
    from pptx.oxml.ns import nsdecls

    for ids in ([], [256], [300, 256, 999]):
        xml = "<p:sldIdLst %s>%s</p:sldIdLst>" % (nsdecls("p", "r"), "".join('<p:sldId id="%d" r:id="rId%d"/>' % (v, i + 1) for i, v in enumerate(ids)))
        lst = parse_xml(xml)
        before = [(e.id, e.rId) for e in lst.sldId_lst]
        new = lst.add_sldId("rIdNEW")
        after = [(e.id, e.rId) for e in lst.sldId_lst]
        if after[:-1] != before or after[-1][1] != "rIdNEW" or after[-1][0] in ids or new is not lst.sldId_lst[-1]:
            return {"confirmed": True, "witness_class": "sldid-order", "detail": "sldIdLst %s + add_sldId -> %s" % (before, after)}
    return {"confirmed": False, "detail": "add_sldId appends"}


@contract("C13", "C13.oxml.presentation.CT_SlideIdList.add_sldId", replay=_replay_sldid)
def _add_sldid(c):
    """add_sldId makes exactly one p:sldId through the declared _add_sldId (whose contract -- new child after every
    existing p:sldId and before p:extLst, other children untouched -- is the C10 obligation for CT_SlideIdList/p:sldId),
    with the rId given and the id from _next_id, and returns it."""
    from pptx.oxml.presentation import CT_SlideIdList

    calls = []
    made = SObj(None, "sldId")

    def _add(it, a, k):
        calls.append((a, k))
        return made

    nid = c.int("next_id")
    rid = SStr([Atom("rId")])
    lst = SObj(CT_SlideIdList, "sldIdLst", _add_sldId=GhostFn(_add, "_add_sldId"), _next_id=nid)
    out = c.run(CT_SlideIdList.add_sldId, lst, rid)
    if out.raised:
        c.fails("never_raises", "raised %s" % out.exc)
        return
    ok = len(calls) == 1 and not calls[0][0]
    c.ensures("post.one_sldId_added", ok)
    if ok:
        k = calls[0][1]
        c.ensures("post.carries_rId_and_fresh_id", set(k) == {"id", "rId"} and k["rId"] is rid and k["id"] is nid)
    c.ensures("post.returns_it", out.value is made)


# ---------------------------------------------------------------------------------------------------------
# BOUNDED native job: whole decks, every layout, generated layouts, interleaved edits


def _non_dimension_edits_keep_inheritance():
    """on a fresh slide, edits of a placeholder that concern neither position nor size (rotation, name, text, a fill, a line width) leave
    left / top / width / height what the layout placeholder (or the master's) reports; returns a description of the first failure"""
    from pptx import Presentation

    dims = ("left", "top", "width", "height")
    edits = [("rotation = 0", lambda ph: setattr(ph, "rotation", 0)), ("rotation = 30.5", lambda ph: setattr(ph, "rotation", 30.5)), ("name", lambda ph: setattr(ph, "name", "renamed")),
             ("text", lambda ph: setattr(ph.text_frame, "text", "x") if ph.has_text_frame else None), ("fill.solid()", lambda ph: ph.fill.solid()),
             ("line.width", lambda ph: setattr(ph.line, "width", 12700))]
    for li in (0, 1, 3, 8):
        for what, edit in edits:
            prs = Presentation()
            sl = prs.slides.add_slide(prs.slide_layouts[li])
            for ph in list(sl.placeholders)[:3]:
                if ph._element.xpath("./p:spPr/a:xfrm/a:off | ./p:spPr/a:xfrm/a:ext"):
                    continue
                inherited = {d: getattr(ph, d) for d in dims}
                try:
                    edit(ph)
                except Exception:
                    continue
                got = {d: getattr(ph, d) for d in dims}
                if got != inherited:
                    return "layout %d placeholder idx %s: after %s its position / size read %r, inherited were %r" % (li, ph.placeholder_format.idx, what, got, inherited)
    return None


def _native_layouts(tier="quick", seed=0):
    import io
    import itertools
    import random
    import time as _t

    from pptx import Presentation

    t0 = _t.time()
    obls, evals = [], 0

    def record(name, bad, what):
        r = {"name": name, "base": name, "kind": "bounded", "status": "refuted" if bad else "discharged", "backend": "native", "time": 0, "path": 0}
        if bad:
            r["replay"] = {"confirmed": True, "witness_class": "ph-type-keyerror" if "KeyError" in bad else "native-layout", "detail": bad}
            r["model"] = None
        obls.append(r)

    # every layout of the default deck, repeated additions interleaved with other edits, then save/reopen
    prs = Presentation()
    bad = None
    for rep in range(2):
        for li, layout in enumerate(prs.slide_layouts):
            bad = bad or _check_slide_against_layout(prs, layout)
            evals += 1
            s = prs.slides[len(prs.slides) - 1]
            s.shapes.add_textbox(0, 0, 100, 100)  # other edit
    buf = io.BytesIO()
    prs.save(buf)
    prs2 = Presentation(io.BytesIO(buf.getvalue()))
    for layout in prs2.slide_layouts:
        bad = bad or _check_slide_against_layout(prs2, layout)
        evals += 1
    record("C13.native.default_deck_every_layout_interleaved", bad, "11 layouts x 2 rounds + reopen: mirror property holds")
    # a deck whose relationship ids have a gap, the highest being <count>+1 (a slide was deleted by another producer): the slides that
    # exist stay what they are, the new one comes last
    import re as _re
    import zipfile

    bad = None
    base_ = Presentation()
    for i_ in range(3):
        base_.slides.add_slide(base_.slide_layouts[i_ % 2]).shapes.add_textbox(0, 0, 100, 100).text_frame.text = "slide %d" % (i_ + 1)
    b_ = io.BytesIO()
    base_.save(b_)
    zin = zipfile.ZipFile(io.BytesIO(b_.getvalue()))
    rels_ = zin.read("ppt/_rels/presentation.xml.rels").decode()
    n_rels = len(_re.findall(r"<Relationship ", rels_))
    for victim in (1, 2, 3):
        m_ = _re.search(r'Id="(rId\d+)"[^>]*Target="slides/slide%d.xml"|Target="slides/slide%d.xml"[^>]*Id="(rId\d+)"' % (victim, victim), rels_)
        old_id = m_.group(1) or m_.group(2)
        new_id = "rId%d" % (n_rels + 1)
        out_ = io.BytesIO()
        with zipfile.ZipFile(out_, "w", zipfile.ZIP_DEFLATED) as zout:
            for info in zin.infolist():
                data_ = zin.read(info.filename)
                if info.filename in ("ppt/_rels/presentation.xml.rels", "ppt/presentation.xml"):
                    data_ = _re.sub(r'"%s"' % old_id, '"%s"' % new_id, data_.decode()).encode()
                zout.writestr(info.filename, data_)
        prs_g = Presentation(io.BytesIO(out_.getvalue()))
        texts_before = [[sh.text_frame.text for sh in sl.shapes if sh.has_text_frame] for sl in prs_g.slides]
        for layout in list(prs_g.slide_layouts)[:3]:
            evals += 1
            b = _check_slide_against_layout(prs_g, layout)
            if b and not bad:
                bad = "deck whose slide %d is related as %s (ids 1..%d otherwise): %s" % (victim, new_id, n_rels, b)
        texts_after = [[sh.text_frame.text for sh in sl.shapes if sh.has_text_frame] for sl in prs_g.slides][: len(texts_before)]
        if texts_after != texts_before and not bad:
            bad = "deck whose slide %d is related as %s: after adding slides the first %d slides read %r, before %r" % (victim, new_id, len(texts_before), texts_after, texts_before)
    record("C13.native.existing_slides_stay_when_relationship_ids_have_gaps", bad, "3-slide deck, one slide relationship renumbered to count+1")
    # generated layouts: every type, duplicate types, missing idx, vertical
    rnd = random.Random(seed)
    bad = None
    N = 120 if tier == "quick" else 1500
    toks = _TOKENS + [None]
    for _ in range(N):
        k = rnd.randint(0, 5)
        specs = [(rnd.choice(toks), rnd.choice([None, 0, 1, 1, 10, 11, 4294967295]), rnd.choice([None, "vert", "horz"]), rnd.choice([None, "full", "half", "quarter"]), rnd.random() < 0.5,
                  rnd.choice(["sp", "sp", "sp", "sp", "pic", "graphicFrame"]))
                 for _ in range(k)]
        p, layout = _mk_layout_prs(specs)
        b = _check_slide_against_layout(p, layout) or _check_slide_against_layout(p, layout)
        evals += 1
        if b and not bad:
            bad = "layout %s: %s" % (specs, b)
    record("C13.native.generated_layouts", bad, "%d random placeholder populations: mirror property holds" % N)
    # "until overridden": on a fresh slide, override one dimension, then another, in every order; the overridden ones read the values given,
    # the others still read what the layout placeholder (or the master's) reports
    bad = None
    from pptx.util import Emu as _Emu

    dims = ("left", "top", "width", "height")
    for li in (0, 1, 3, 8):
        for a, b in itertools.permutations(dims, 2):
            prs = Presentation()
            layout = prs.slide_layouts[li]
            sl = prs.slides.add_slide(layout)
            for ph in list(sl.placeholders)[:2]:
                evals += 1
                inherited = {d: getattr(ph, d) for d in dims}
                if any(ph._element.xpath("./p:spPr/a:xfrm")):
                    continue
                setattr(ph, a, _Emu(111111))
                setattr(ph, b, _Emu(222222))
                want = dict(inherited, **{a: 111111, b: 222222})
                got = {d: getattr(ph, d) for d in dims}
                if got != want:
                    bad = bad or "layout %d placeholder idx %s: %s = 111111 then %s = 222222 gives %r, expected %r" % (li, ph.placeholder_format.idx, a, b, got, want)
    record("C13.native.overriding_two_dimensions_keeps_the_others_inherited", bad, "every ordered pair of dimension overrides on fresh inheriting placeholders")
    evals += 72
    record("C13.native.edits_other_than_position_and_size_keep_them_inherited", _non_dimension_edits_keep_inheritance(), "rotation, name, text, fill, line on fresh inheriting placeholders")
    # notes slide: the notes master's placeholders in every sampled z-order, and with a duplicated cloneable placeholder
    import copy

    from pptx.enum.shapes import PP_PLACEHOLDER as P

    bad = None
    arrangements = [None, "reversed", "dup_body", "dup_slide_number_first"] + ["perm%d" % i for i in range(6 if tier == "quick" else 40)]
    for arr in arrangements:
        prs = Presentation()
        s = prs.slides.add_slide(prs.slide_layouts[1])
        nm = prs.notes_master
        spTree = nm.shapes._spTree
        sps = [sp for sp in spTree.iter_ph_elms()]
        if arr is not None:
            for sp in sps:
                spTree.remove(sp)
            if arr == "reversed":
                order = list(reversed(sps))
            elif arr == "dup_body":
                body = [sp for sp in sps if sp.ph_type == P.BODY][0]
                order = sps + [copy.deepcopy(body)]
            elif arr == "dup_slide_number_first":
                num = [sp for sp in sps if sp.ph_type == P.SLIDE_NUMBER][0]
                order = [copy.deepcopy(num)] + sps
            else:
                order = list(sps)
                rnd.shuffle(order)
            for sp in order:
                spTree.append(sp)
        evals += 1
        try:
            ns = s.notes_slide
            want = [k for _, k in _xml_placeholders(nm.shapes._spTree) if k[0] in (P.SLIDE_IMAGE, P.BODY, P.SLIDE_NUMBER)]
            got = list(ns.placeholders)
            key = lambda q: (q.element.ph_type, q.element.ph_idx, q.element.ph_orient, q.element.ph_sz)
            if want != [key(g) for g in got] or want != [k for _, k in _xml_placeholders(ns.shapes._spTree)]:
                bad = bad or "notes master arranged %s: notes slide placeholders %s, the master's cloneable ones are %s" % (arr, [g.element.ph_type for g in got], [w[0] for w in want])
            names = [g.name for g in got]
            if len(set(names)) != len(names):
                bad = bad or "notes master arranged %s: notes placeholder names not unique %s" % (arr, names)
        except Exception as e:
            bad = bad or "notes master arranged %s: notes slide creation raised %r" % (arr, e)
    record("C13.native.notes_slide_mirrors_master_in_any_order", bad, "notes slide mirrors the cloneable placeholders of the notes master in the master's order")
    bad = None
    prs = Presentation()
    s = prs.slides.add_slide(prs.slide_layouts[1])
    try:
        ns = s.notes_slide
        nm = prs.notes_master

        want = [ph for ph in nm.placeholders if ph.element.ph_type in (P.SLIDE_IMAGE, P.BODY, P.SLIDE_NUMBER)]
        got = list(ns.placeholders)
        if [(w.element.ph_type, w.element.ph_idx, w.element.ph_orient, w.element.ph_sz) for w in want] != [(g.element.ph_type, g.element.ph_idx, g.element.ph_orient, g.element.ph_sz) for g in got]:
            bad = "notes slide placeholders %s vs notes master cloneable %s" % ([g.element.ph_type for g in got], [w.element.ph_type for w in want])
        names = [g.name for g in got]
        if len(set(names)) != len(names):
            bad = "notes placeholder names not unique %s" % names
        for g in got:
            base = nm.placeholders.get(g.element.ph_type)
            for attr in ("left", "top", "width", "height"):
                if getattr(g, attr) != getattr(base, attr):
                    bad = "notes placeholder %s %s differs from master's" % (g.element.ph_type, attr)
    except Exception as e:
        bad = "notes slide creation raised %r" % (e,)
    evals += 1
    record("C13.native.notes_slide", bad, "notes slide mirrors slide image, body, slide number of the notes master")
    return {"contract": "C13.native_layouts", "prop": "C13", "status": "ok", "obligations": obls, "paths": 0, "assumed": [], "functions": {},
            "notes": [], "solver_s": 0.0, "wall_s": _t.time() - t0,
            "bounded": {"name": "C13.native_layouts", "bound": "default deck: 11 layouts x 2 rounds interleaved with other edits, save/reopen; "
                        "%d random layouts of 0..5 placeholders over 16 types + untyped, idx in {none,0,1,10,11,2^32-1}, orient, sz; one notes slide" % N,
                        "evaluations": evals, "samples": [], "counted_as_proved": False}}


JOBS = {"C13.native_layouts": _native_layouts}

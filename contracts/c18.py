"""C18 -- core document properties round-trip and stay valid.  DESIGN.md 5/C18.

The real `CT_CoreProperties` helpers are executed symbolically: `_set_element_text` /
`_text_of_element` over z3 strings of any length, `revision_number`, `_set_element_datetime` /
`_datetime_of_element` / `_parse_W3CDTF_to_datetime` / `_offset_dt` over an abstract datetime
(day ordinal, hour, minute, second) with `strftime` / `strptime` / `timedelta` entering as stated
assumed contracts (glibc renders %Y without zero padding; strptime needs a full match), and the 15
thin accessors by one contract schema each."""
from __future__ import annotations

import datetime as dt

import z3

from pyvc.engine import Atom, GhostFn, MODELS_BY_NAME, PyRaise, SObj, SStr, Unsupported, model, to_int
from pyvc.verify import contract

META = {
    "residual": [
        "XSD validity of the whole core-properties part and the save/re-open leg are covered by the bounded C18.native_roundtrip job only",
        "the element tree of cp:coreProperties is abstracted to one optional child per property with a `text` field "
        "(get_or_add_<prop> creates it; child order is C10's obligation)",
    ],
    "trusted_base": [
        "datetime.strftime('%Y-%m-%dT%H:%M:%SZ'): year rendered WITHOUT zero padding on this platform (glibc), other fields 2 digits "
        "(probed natively for all year widths by C18.native_roundtrip)",
        "datetime.strptime(s, tmpl) succeeds iff s matches tmpl entirely and then inverts strftime; timedelta arithmetic is exact",
        "re.match of ([+-])(\\d\\d):(\\d\\d) on an offset of that shape yields its three groups",
    ],
}

STRING_PROPS = [("author", "creator"), ("category", "category"), ("comments", "description"), ("contentStatus", "contentStatus"),
                ("identifier", "identifier"), ("keywords", "keywords"), ("language", "language"), ("lastModifiedBy", "lastModifiedBy"),
                ("subject", "subject"), ("title", "title"), ("version", "version")]
DATE_PROPS = ["created", "lastPrinted", "modified"]


class _Child:
    """abstract property element: `text` field; a text assembled as '%04d-' + strftime('%m-%dT%H:%M:%SZ') is recognised as a timestamp."""

    __pyvc_symbolic__ = True

    def __init__(self, name, text):
        self.name = name
        self.fields = {"text": text, "_attrs": {}}

    def sym_truth(self, it):
        return True

    def sym_getattr(self, it, name):
        if name == "set":
            return GhostFn(lambda interp, a, k: self.fields["_attrs"].__setitem__(a[0], a[1]))
        if name in self.fields:
            return self.fields[name]
        raise Exception("ghost property element asked for %s" % name)

    def sym_setattr(self, it, name, v):
        if name == "text" and isinstance(v, SStr) and len(v.parts) == 3 and v.parts[1] == "-" and isinstance(v.parts[2], Atom) and hasattr(v.parts[2], "stamp_of"):
            from pyvc.engine import FmtInt

            y = v.parts[0]
            t = v.parts[2].stamp_of
            if isinstance(y, FmtInt) and y.width == 4:
                # '%04d' % year: four digits up to 9999, more above (assumed contract of %-formatting)
                v = _GStamp(t, z3.If(y.term >= 10000, 5, 4), suffix="Z") if y.term is t.year else v
        self.fields[name] = v


def _core(c, present_names):
    """abstract cp:coreProperties: child <name> present or absent (forked by the caller), get_or_add_<name> creates it."""
    from pptx.oxml.coreprops import CT_CoreProperties

    e = SObj(CT_CoreProperties, "coreProperties")
    e.fields["attrib"] = {}
    log = []
    e.fields["set"] = GhostFn(lambda it, a, k: (log.append(("set", a[0])), e.fields["attrib"].__setitem__(a[0], a[1]))[0])
    for name in [p[1] for p in STRING_PROPS] + DATE_PROPS + ["revision"]:
        if name in present_names:
            e.fields[name] = _Child(name, present_names[name])
        else:
            e.fields[name] = None

        def goa(it, a, k, name=name):
            if e.fields[name] is None:
                e.fields[name] = _Child(name, None)
            return e.fields[name]

        e.fields["get_or_add_%s" % name] = GhostFn(goa)
    return e, log


# --------------------------------------------------------------------------------------------
# strings


def _replay_text(model, rec):
    from pptx import Presentation

    prs = Presentation()
    cp = prs.core_properties
    L = model.get("len_value")
    for s in [("y" * L if isinstance(L, int) and 0 <= L <= 100000 else None), "", "x" * 255, "x" * 256, "a<b&c>\"'", " lead", "\U0001F600" * 3,
              "&" * 255, "<>" * 127 + "<", "\"" * 255, "R&D <Q3> " * 28, "\u00e9" * 255, "\U0001F600" * 255, "&" * 256, "\u00e9" * 256,
              # line ends are characters like any other: kept as given, counted as given
              "a\r\nb", "a\rb", "a\nb\n", "\t tab", "x" * 253 + "\r\n", "x" * 254 + "\r\n", "cafe\u0301"]:
        if not isinstance(s, str):
            continue
        for attr in ("author", "title", "keywords", "comments", "category", "subject", "content_status", "identifier", "language", "last_modified_by", "version"):
            try:
                setattr(cp, attr, s)
            except ValueError:
                if len(s) <= 255:
                    return {"confirmed": True, "witness_class": "string-prop", "detail": "%s = %r (len %d) raised ValueError" % (attr, s, len(s))}
                continue
            if len(s) > 255 or getattr(cp, attr) != s:
                return {"confirmed": True, "witness_class": "string-prop", "detail": "%s = %r reads back %r" % (attr, s, getattr(cp, attr))}
    return {"confirmed": False, "detail": "string properties behave on the probed values"}


def _make_text(api_name, elm_name):
    @contract("C18", "C18.oxml.coreprops.CT_CoreProperties.%s_text" % api_name, replay=_replay_text)
    def body(c):
        """string property: any string of <= 255 characters is stored verbatim and read back; longer ones raise
        ValueError and change nothing; reading an absent or empty element gives ''."""
        from pptx.oxml.coreprops import CT_CoreProperties

        present = c.bool("present")
        old = SStr([Atom("old")])
        e, log = _core(c, {elm_name: old} if c.branch(present) else {})
        before = e.fields[elm_name]
        # the assigned string is opaque (any characters); only its length matters to the code
        L = c.int("len_value")
        c.requires(L >= 0)
        a = Atom("value")
        a.length = L
        val = SStr([a])
        prop = getattr(CT_CoreProperties, "%s_text" % api_name)
        out = c.run(prop.fset, e, val)
        child = e.fields[elm_name]
        if out.raised:
            c.ensures("raises.ValueError_iff_too_long", z3.And(issubclass(out.exc.exc_cls, ValueError), L > 255))
            c.ensures("raises.nothing_changed", child is before and (before is None or before.fields["text"] is old))
            return
        c.ensures("post.accepted_is_short", L <= 255)
        t = child.fields["text"] if child is not None else None
        same = lambda x: isinstance(x, SStr) and len(x.parts) == 1 and x.parts[0] is a
        c.ensures("post.stored_verbatim", same(t))
        back = c.run(prop.fget, e)
        if back.raised:
            c.fails("read.never_raises", "getter raised %s" % back.exc)
            return
        c.ensures("read.returns_value", same(back.value))

    @contract("C18", "C18.oxml.coreprops.CT_CoreProperties.%s_text.absent" % api_name)
    def body2(c):
        """reading a property whose element is absent (or has no text) returns ''."""
        from pptx.oxml.coreprops import CT_CoreProperties

        empty = c.bool("element_present_without_text")
        e, log = _core(c, {elm_name: None} if c.branch(empty) else {})
        out = c.run(getattr(CT_CoreProperties, "%s_text" % api_name).fget, e)
        c.ensures("read.empty_string", (not out.raised) and out.value == "")


for _api, _elm in STRING_PROPS:
    _make_text(_api, _elm)


# --------------------------------------------------------------------------------------------
# revision


def _replay_revision(model, rec):
    from pptx import Presentation

    cp = Presentation().core_properties
    import decimal
    import fractions as _fr

    for v in [model.get("value"), model.get("vb"), 1, 2, 2 ** 40, 0, -1, True, 2.5, 41.0, "12", decimal.Decimal("3.9"), _fr.Fraction(7, 2), 1e3, b"5", [3], float("inf")]:
        if v is None:
            continue
        try:
            cp.revision = v
        except ValueError:
            if isinstance(v, int) and not isinstance(v, bool) and v >= 1:
                return {"confirmed": True, "witness_class": "revision", "detail": "revision = %r raised ValueError" % (v,)}
            continue
        proper = isinstance(v, int) and v >= 1  # (True is the integer 1)
        if cp.revision != v or not proper:
            return {"confirmed": True, "witness_class": "revision-bool" if isinstance(v, bool) else "revision",
                    "detail": "revision = %r is accepted, stored as %r and reads back %r" % (v, cp._element.revision.text, cp.revision)}
    # improper values that compare equal to what the property currently reads: after 7, the float 7.0; on a deck without cp:revision
    # (reads 0): 0, False, 0.0 -- each must be refused like any other improper value
    import io
    import re
    import zipfile

    for prior, probes in ((7, [7.0, decimal.Decimal(7), _fr.Fraction(7, 1)]), (None, [0, False, 0.0])):
        for v in probes:
            prs = Presentation()
            if prior is None:
                b = io.BytesIO()
                prs.save(b)
                out = io.BytesIO()
                with zipfile.ZipFile(io.BytesIO(b.getvalue())) as zin, zipfile.ZipFile(out, "w", zipfile.ZIP_DEFLATED) as zout:
                    for n in zin.namelist():
                        d = zin.read(n)
                        if n == "docProps/core.xml":
                            d = re.sub(rb"<cp:revision>[^<]*</cp:revision>", b"", d)
                        zout.writestr(n, d)
                prs = Presentation(io.BytesIO(out.getvalue()))
            cp = prs.core_properties
            if prior is not None:
                cp.revision = prior
            before = cp.revision
            try:
                cp.revision = v
            except ValueError:
                continue
            return {"confirmed": True, "witness_class": "revision", "detail": "revision reads %r; revision = %r (equal to it, but not a positive integer) is accepted" % (before, v)}
    return {"confirmed": False, "detail": "revision behaves on the probed values"}


for _kind in ("int", "bool"):
    @contract("C18", "C18.oxml.coreprops.CT_CoreProperties.revision_number[%s]" % _kind, replay=_replay_revision)
    def _revision(c, kind=_kind):
        """revision: a positive integer is stored and read back; anything else raises ValueError and changes nothing."""
        from pptx.oxml.coreprops import CT_CoreProperties

        e, log = _core(c, {})
        v = c.int("value") if kind == "int" else c.bool("vb")
        out = c.run(CT_CoreProperties.revision_number.fset, e, v)
        if out.raised:
            c.ensures("raises.ValueError_iff_not_positive", issubclass(out.exc.exc_cls, ValueError) and (v < 1 if kind == "int" else z3.Not(v)))
            c.ensures("raises.nothing_changed", e.fields["revision"] is None)
            return
        if kind == "int":
            c.ensures("post.accepted_is_positive", v >= 1)
        back = c.run(CT_CoreProperties.revision_number.fget, e)
        if back.raised:
            c.fails("read.never_raises", "getter raised %s" % back.exc)
            return
        from pyvc.engine import to_int as _ti

        c.ensures("read.returns_value", back.value == (_ti(v)))


@contract("C18", "C18.oxml.coreprops.CT_CoreProperties.revision_number.read")
def _revision_read(c):
    """reading: absent / empty / non-numeric / negative revision text gives 0, a non-negative number gives itself."""
    from pptx.oxml.coreprops import CT_CoreProperties

    kind = c.path.fork_free(4)
    if kind == 0:
        e, log = _core(c, {})
        want = 0
    elif kind == 1:
        e, log = _core(c, {"revision": None})
        want = 0
    elif kind == 2:
        from pyvc.engine import FmtInt

        n = c.int("n")
        e, log = _core(c, {"revision": SStr([FmtInt(n)])})
        want = z3.If(n < 0, 0, n)
    else:
        zs = c.input("txt", z3.String("txt"))
        e, log = _core(c, {"revision": SStr([Atom("txt", zs=zs)])})
        want = None
    out = c.run(CT_CoreProperties.revision_number.fget, e)
    if out.raised:
        c.fails("read.never_raises", "getter raised %s" % out.exc)
        return
    if want is not None:
        c.ensures("read.value", out.value == want)
    else:
        c.ensures("read.nonneg", out.value >= 0)


# --------------------------------------------------------------------------------------------
# datetimes: abstract instants


class _GDT:
    """symbolic datetime: day ordinal, hour, minute, second (microseconds are not written)."""

    __pyvc_symbolic__ = True

    def __init__(self, year, day, hour, minute, second, tag="dt"):
        self.year, self.day, self.hour, self.minute, self.second = year, day, hour, minute, second
        self.tag = tag

    def sym_pytype(self):
        return dt.datetime

    def total_minutes(self):
        return (self.day * 24 + self.hour) * 60 + self.minute

    def sym_getattr(self, it, name):
        if name == "year":
            return self.year
        if name == "strftime":
            def strftime(interp, a, k):
                if a[0] == "%m-%dT%H:%M:%SZ":
                    interp.path.assumed.add("strftime('%m-%dT%H:%M:%SZ') renders two digits per field (15 characters)")
                    at = Atom("stamp_rest", nonempty=True)
                    at.stamp_of = self
                    return SStr([at])
                if a[0] != "%Y-%m-%dT%H:%M:%SZ":
                    raise Unsupported("strftime format %r has no assumed contract" % (a[0],))
                interp.path.assumed.add("strftime('%Y-%m-%dT%H:%M:%SZ'): %Y is NOT zero-padded on glibc; %m %d %H %M %S are two digits")
                return _GStamp(self, z3.If(self.year >= 1000, 4, z3.If(self.year >= 100, 3, z3.If(self.year >= 10, 2, 1))), suffix="Z")
            return GhostFn(strftime)
        raise Exception("ghost datetime asked for %s" % name)

    def sym_eq(self, it, other):
        if isinstance(other, _GDT):
            return z3.And(self.day == other.day, self.hour == other.hour, self.minute == other.minute, self.second == other.second)
        return False


class _GStamp:
    """the text strftime wrote for instant `t`: <year digits>-MM-DDTHH:MM:SS + suffix ('Z', '', or an offset +hh:mm)."""

    __pyvc_symbolic__ = True

    def __init__(self, t, ydigits, suffix="", lo=0, hi=None):
        self.t, self.ydigits, self.suffix = t, ydigits, suffix
        self.lo, self.hi = lo, hi  # slice bounds already applied (character positions)

    def full_len(self):
        sl = len(self.suffix) if isinstance(self.suffix, str) else 6
        return self.ydigits + 15 + sl

    def sym_pytype(self):
        return str

    def sym_len(self, it):
        n = self.full_len()
        hi = n if self.hi is None else z3.If(n < self.hi, n, self.hi)
        return z3.If(hi > self.lo, hi - self.lo, 0)

    def sym_getitem(self, it, idx):
        if isinstance(idx, slice) and idx.step is None and self.lo == 0 and self.hi is None:
            if idx.start is None and isinstance(idx.stop, int):
                return _GStamp(self.t, self.ydigits, self.suffix, 0, idx.stop)
            if idx.stop is None and isinstance(idx.start, int):
                return _GStamp(self.t, self.ydigits, self.suffix, idx.start, None)
        raise Unsupported("subscript %r of a timestamp text" % (idx,))

    # classification used by the strptime / offset models
    def is_exact_timestamp(self):
        """this text is exactly 'YYYY-MM-DDTHH:MM:SS' of t with nothing after it (z3 Bool)."""
        n = self.full_len()
        body = self.ydigits + 15
        if self.lo != 0:
            return z3.BoolVal(False)
        if self.hi is None:
            return n == body  # only when there is no suffix
        return z3.And(self.hi >= body, z3.If(n < self.hi, n, self.hi) == body)


def _strptime(it, func, a, k):
    s, tmpl = a[0], a[1]
    if not isinstance(s, _GStamp):
        if isinstance(s, (str,)) and isinstance(tmpl, str):
            return it.native(dt.datetime.strptime, [s, tmpl], {})
        raise Unsupported("strptime of %r" % (s,))
    it.path.assumed.add("strptime(s, tmpl) succeeds iff s matches tmpl completely; for the timestamp template it inverts strftime (microsecond 0)")
    if tmpl == "%Y-%m-%dT%H:%M:%S":
        if it.path.branch(s.is_exact_timestamp()):
            return _GDT(s.t.year, s.t.day, s.t.hour, s.t.minute, s.t.second, tag="parsed")
        raise PyRaise(ValueError, ("time data does not match format",))
    # the date-only templates never match a text that carries a time part (it contains 'T' and ':')
    raise PyRaise(ValueError, ("unconverted data remains",))


MODELS_BY_NAME["datetime.strptime"] = _strptime


class _GMatch:
    __pyvc_symbolic__ = True

    def __init__(self, groups):
        self._groups = groups

    def sym_getattr(self, it, name):
        if name == "groups":
            return GhostFn(lambda interp, a, k: self._groups)
        raise Exception("ghost match asked for %s" % name)


def _offset_match(it, pat, s):
    if isinstance(s, _GStamp):
        it.path.assumed.add(r"re.match(([+-])(\d\d):(\d\d)) on '+hh:mm' / '-hh:mm' yields sign, hh, mm; None on other 6-character texts")
        suf = s.suffix
        if s.hi is None and isinstance(suf, tuple):
            sign, hh, mm = suf
            from pyvc.engine import FmtInt

            return _GMatch(("+" if it.path.branch(sign) else "-", SStr([FmtInt(hh)]), SStr([FmtInt(mm)])))
        return None
    raise Unsupported("regex match on %r" % (s,))


from pyvc.engine import PATTERN_MODELS

PATTERN_MODELS[r"([+-])(\d\d):(\d\d)"] = _offset_match



@model(dt.timedelta)
def _timedelta(it, a, k):
    from pyvc.engine import deep_concrete

    if deep_concrete(a) and deep_concrete(k):
        return it.native(dt.timedelta, a, k)
    if a or set(k) - {"hours", "minutes"}:
        raise Unsupported("timedelta with symbolic arguments other than hours/minutes")
    return SObj(dt.timedelta, "timedelta", _minutes=to_int(k.get("hours", 0)) * 60 + to_int(k.get("minutes", 0)))


def _gdt_add(it, a, b):
    if isinstance(a, _GDT) and isinstance(b, SObj) and b.cls is dt.timedelta:
        it.path.assumed.add("datetime + timedelta(hours, minutes) shifts the instant by exactly that many minutes")
        total = a.total_minutes() + b.fields["_minutes"]
        day = total / 1440  # floor division for a positive divisor
        rem = total - day * 1440
        return _GDT(a.year, day, rem / 60, rem - (rem / 60) * 60, a.second, tag="shifted")
    return None


def _install_binop():
    from pyvc.engine import Interp

    if getattr(Interp, "_c18_binop", False):
        return
    orig = Interp.binop

    def binop(self, op, a, b):
        if isinstance(a, _GDT) and type(op).__name__ == "Add":
            r = _gdt_add(self, a, b)
            if r is not None:
                return r
        return orig(self, op, a, b)

    Interp.binop = binop
    Interp._c18_binop = True


_install_binop()


def _fresh_dt(c, tag):
    y, d, h, mi, s = c.int(tag + "_year"), c.int(tag + "_day"), c.int(tag + "_hour"), c.int(tag + "_minute"), c.int(tag + "_second")
    c.requires(z3.And(y >= 1, y <= 9999, h >= 0, h <= 23, mi >= 0, mi <= 59, s >= 0, s <= 59))
    return _GDT(y, d, h, mi, s, tag=tag)


W3CDTF_FORMS = [
    ("2003", (2003, 1, 1, 0, 0, 0)), ("2003-12", (2003, 12, 1, 0, 0, 0)), ("2003-12-31", (2003, 12, 31, 0, 0, 0)),
    ("2003-12-31T10:14:55", (2003, 12, 31, 10, 14, 55)), ("2003-12-31T10:14:55Z", (2003, 12, 31, 10, 14, 55)),
    ("2003-12-31T10:14:55+01:00", (2003, 12, 31, 9, 14, 55)), ("2003-12-31T10:14:55-05:30", (2003, 12, 31, 15, 44, 55)),
    ("2003-12-31T10:14:55+00:00", (2003, 12, 31, 10, 14, 55)), ("2003-12-31T10:14:55-00:00", (2003, 12, 31, 10, 14, 55)),
    ("2003-12-31T23:30:00-01:00", (2004, 1, 1, 0, 30, 0)), ("2004-01-01T00:15:00+00:45", (2003, 12, 31, 23, 30, 0)),
    ("2003-12-31T10:14:55+14:00", (2003, 12, 30, 20, 14, 55)), ("2003-12-31T10:14:55-12:00", (2003, 12, 31, 22, 14, 55)),
    ("2003-12-31T10:14:55+05:45", (2003, 12, 31, 4, 29, 55)), ("1999-01-01T00:00:00Z", (1999, 1, 1, 0, 0, 0)),
]


def _w3cdtf_forms_misread():
    """document-side spellings of a timestamp (W3CDTF profile: year, year-month, date, date-time, with 'Z' or an offset):
    each must read as the equivalent naive UTC datetime; returns a description of the first that does not"""
    from pptx import Presentation
    from pptx.oxml.ns import qn

    cp = Presentation().core_properties
    for attr, tag in (("created", "dcterms:created"), ("modified", "dcterms:modified"), ("last_printed", "cp:lastPrinted")):
        setattr(cp, attr, dt.datetime(2000, 1, 1))
        el = cp._element.find(qn(tag))
        for text, want in W3CDTF_FORMS:
            el.text = text
            try:
                got = getattr(cp, attr)
            except Exception as e:
                return "%s holding %r: reading raised %r" % (tag, text, e)
            if got != dt.datetime(*want):
                return "%s holding %r reads %r, the equivalent UTC time is %r" % (tag, text, got, dt.datetime(*want))
    return None


def _replay_dates(model, rec):
    from pptx import Presentation

    w = _w3cdtf_forms_misread()
    if w:
        return {"confirmed": True, "witness_class": "w3cdtf-form", "detail": w}
    cp = Presentation().core_properties
    y = model.get("v_year")
    cands = [dt.datetime(y, 1, 2, 3, 4, 5)] if isinstance(y, int) and 1 <= y <= 9999 else []
    cands += [dt.datetime(999, 1, 2, 3, 4, 5), dt.datetime(1, 1, 1, 0, 0, 0), dt.datetime(99, 12, 31, 23, 59, 59), dt.datetime(1000, 1, 1),
              dt.datetime(2020, 2, 29, 12, 30, 15, 999999), dt.datetime(9999, 12, 31, 23, 59, 59)]
    for v in cands:
        for attr in ("created", "modified", "last_printed"):
            setattr(cp, attr, v)
            got = getattr(cp, attr)
            if got != v.replace(microsecond=0):
                return {"confirmed": True, "witness_class": "datetime-year-width", "detail": "%s = %r is stored as %r and reads back %r"
                        % (attr, v, getattr(cp._element, {"last_printed": "lastPrinted"}.get(attr, attr)).text, got), "input": repr(v)}
    return {"confirmed": False, "detail": "datetimes round-trip on the probed values"}


def _make_date(prop_name):
    @contract("C18", "C18.oxml.coreprops.CT_CoreProperties.%s_datetime" % prop_name, replay=_replay_dates)
    def body(c):
        """date property: any datetime is returned to one-second resolution (write/read lemma through strftime,
        the [:19] slice and strptime); created/modified get xsi:type; a non-datetime raises ValueError."""
        from pptx.oxml.coreprops import CT_CoreProperties

        e, log = _core(c, {})
        v = _fresh_dt(c, "v")
        prop = getattr(CT_CoreProperties, "%s_datetime" % prop_name)
        out = c.run(prop.fset, e, v)
        if out.raised:
            c.fails("set.never_raises", "setter raised %s for a datetime" % out.exc)
            return
        child = e.fields[prop_name]
        c.ensures("set.element_created", child is not None and isinstance(child.fields.get("text"), _GStamp))
        if prop_name in ("created", "modified"):
            from pptx.oxml.ns import qn

            c.ensures("set.xsi_type", (child.fields.get("_attrs") or {}).get(qn("xsi:type")) == "dcterms:W3CDTF")
        back = c.run(prop.fget, e)
        if back.raised:
            c.fails("read.never_raises", "getter raised %s" % back.exc)
            return
        r = back.value
        c.ensures("read.returns_the_instant", isinstance(r, _GDT) and r.sym_eq(None, v), got=repr(r))

    @contract("C18", "C18.oxml.coreprops.CT_CoreProperties.%s_datetime.rejects" % prop_name)
    def body2(c):
        """a value that is not a datetime raises ValueError and creates nothing."""
        from pptx.oxml.coreprops import CT_CoreProperties

        e, log = _core(c, {})
        kind = c.path.fork_free(3)
        v = [c.int("vi"), SStr([Atom("s", zs=c.input("s", z3.String("s")))]), None][kind]
        out = c.run(getattr(CT_CoreProperties, "%s_datetime" % prop_name).fset, e, v)
        c.ensures("raises.ValueError", out.raised and issubclass(out.exc.exc_cls, ValueError))
        c.ensures("raises.nothing_changed", e.fields[prop_name] is None)


for _p in DATE_PROPS:
    _make_date(_p)


@contract("C18", "C18.oxml.coreprops.CT_CoreProperties._parse_W3CDTF_to_datetime.offset")
def _offset(c):
    """a full W3CDTF timestamp (4-digit year) followed by +hh:mm / -hh:mm is read as the equivalent UTC instant:
    local time minus the signed offset."""
    from pptx.oxml.coreprops import CT_CoreProperties

    t = _fresh_dt(c, "t")
    c.requires(t.year >= 1000)
    plus = c.bool("plus")
    hh, mm = c.int("hh"), c.int("mm")
    c.requires(z3.And(hh >= 0, hh <= 14, mm >= 0, mm <= 59))
    s = _GStamp(t, z3.IntVal(4), suffix=(plus, hh, mm))
    out = c.call(CT_CoreProperties._parse_W3CDTF_to_datetime, s)
    if out.raised:
        c.fails("never_raises", "raised %s" % out.exc)
        return
    r = out.value
    want = t.total_minutes() - z3.If(plus, 1, -1) * (hh * 60 + mm)
    c.ensures("post.utc_equivalent", isinstance(r, _GDT) and z3.And(r.total_minutes() == want, r.second == t.second))


# --------------------------------------------------------------------------------------------
# BOUNDED native job: assumptions about strftime/strptime, XSD validity, save/re-open


def _native_roundtrip(tier="quick", seed=0):
    import io
    import random
    import time as _t
    import zipfile

    from lxml import etree
    from pptx import Presentation

    t0 = _t.time()
    rnd = random.Random(seed)
    obls = []
    evals = 0

    def rec(name, ok, detail, wc):
        r = {"name": name, "base": name, "kind": "bounded", "status": "discharged" if ok else "refuted", "backend": "native", "time": 0, "path": 0}
        if not ok:
            r["replay"] = {"confirmed": True, "witness_class": wc, "detail": detail}
            r["model"] = None
        obls.append(r)

    # assumed contract probe: strftime year widths / strptime full match
    bad = None
    for y in (1, 9, 10, 99, 100, 999, 1000, 2024, 9999):
        d = dt.datetime(y, 3, 4, 5, 6, 7)
        s = d.strftime("%Y-%m-%dT%H:%M:%SZ")
        evals += 1
        want_digits = len(str(y))
        if len(s) != want_digits + 16:
            bad = "strftime renders year %d as %r (assumed: no zero padding)" % (y, s)
    rec("C18.probe.strftime_year_not_padded", bad is None, bad, "assumption-strftime")
    bad = None
    for s, tmpl in (("2020-01-02T03:04:05Z", "%Y-%m-%dT%H:%M:%S"), ("2020-01-02T03:04:05", "%Y-%m-%d"), ("999-01-02T03:04:05Z", "%Y-%m-%dT%H:%M:%S")):
        try:
            dt.datetime.strptime(s, tmpl)
            bad = "strptime(%r, %r) succeeded (assumed: needs a full match)" % (s, tmpl)
        except ValueError:
            pass
        evals += 1
    rec("C18.probe.strptime_full_match", bad is None, bad, "assumption-strptime")
    # XSD validity + save/re-open
    schema = None
    try:
        schema = etree.XMLSchema(etree.parse("/repo/spec/ISO-IEC-29500-2/opc-xsd/opc-coreProperties.xsd"))
    except Exception as e:  # the schema imports dc/dcterms schemas that are not shipped
        schema = None
        schema_note = "opc-coreProperties.xsd cannot be compiled offline (%s): XSD validity of the part is not checked" % str(e)[:120]
    prs = Presentation()
    cp = prs.core_properties
    vals = {"author": "A<&>\"'", "title": "x" * 255, "keywords": " lead and trail ", "subject": "\U0001F600", "category": ""}
    for k, v in vals.items():
        setattr(cp, k, v)
    cp.revision = 7
    when = dt.datetime(2001, 2, 3, 4, 5, 6)
    cp.created = when
    cp.modified = when
    buf = io.BytesIO()
    prs.save(buf)
    buf.seek(0)
    cp2 = Presentation(buf).core_properties
    bad = None
    for k, v in vals.items():
        evals += 1
        if getattr(cp2, k) != v:
            bad = "%s = %r reads %r after save/re-open" % (k, v, getattr(cp2, k))
    if cp2.revision != 7 or cp2.created != when or cp2.modified != when:
        bad = "revision/created/modified after re-open: %r %r %r" % (cp2.revision, cp2.created, cp2.modified)
    rec("C18.native.save_reopen", bad is None, bad, "save-reopen")
    if schema is not None:
        z = zipfile.ZipFile(io.BytesIO(buf.getvalue()))
        doc = etree.fromstring(z.read("docProps/core.xml"))
        ok = schema.validate(doc)
        rec("C18.native.core_xml_schema_valid", ok, None if ok else str(schema.error_log.last_error), "core-xml-invalid")
    # whatever datetime is assigned (naive, time-zone aware, with microseconds, any year), the text written is a W3CDTF / xs:dateTime
    import re as _re

    bad = None
    tzs = [None, dt.timezone.utc, dt.timezone(dt.timedelta(hours=5, minutes=30)), dt.timezone(dt.timedelta(hours=-8)), dt.timezone(dt.timedelta(0), "GMT")]
    from pptx.oxml.ns import qn as _qn

    cpx = Presentation().core_properties
    for tz in tzs:
        for base_ in (dt.datetime(2020, 1, 2, 3, 4, 5), dt.datetime(999, 12, 31, 23, 59, 59, 999999), dt.datetime(1, 1, 1, 0, 0, 0), dt.datetime(9999, 6, 15, 12, 0, 0, 1)):
            v = base_.replace(tzinfo=tz)
            for attr, tag in (("created", "dcterms:created"), ("modified", "dcterms:modified"), ("last_printed", "cp:lastPrinted")):
                evals += 1
                try:
                    setattr(cpx, attr, v)
                except (ValueError, TypeError):
                    continue
                text = cpx._element.find(_qn(tag)).text
                if not _re.fullmatch(r"-?\d{4,}-\d\d-\d\dT\d\d:\d\d:\d\d(\.\d+)?(Z|[+-]\d\d:\d\d)?", text or ""):
                    bad = bad or "%s = %r is written as %r, which is not an xs:dateTime / W3CDTF value" % (attr, v, text)
                elif getattr(cpx, attr) is None:
                    bad = bad or "%s = %r is written as %r and reads back None" % (attr, v, text)
    rec("C18.native.datetime_text_is_w3cdtf", bad is None, bad, "datetime-lexical")
    rr = _replay_revision({}, {})
    rec("C18.native.revision_takes_positive_integers_only", not rr.get("confirmed"), rr.get("detail"), "revision")
    rt = _replay_text({}, {})
    rec("C18.native.strings_up_to_255_characters_whatever_they_contain", not rt.get("confirmed"), rt.get("detail"), "string-prop")
    w = _w3cdtf_forms_misread()
    evals += 3 * len(W3CDTF_FORMS)
    rec("C18.native.w3cdtf_spellings_read_as_utc", w is None, w, "w3cdtf-form")
    # default part on first access
    from pptx.opc.constants import RELATIONSHIP_TYPE as RT

    prs3 = Presentation()
    pkg = prs3.part.package
    rid = [r.rId for r in pkg._rels.values() if r.reltype == RT.CORE_PROPERTIES]
    for r in rid:
        pkg._rels.pop(r)
    cpa = pkg.core_properties
    cpb = pkg.core_properties
    n = len([r for r in pkg._rels.values() if r.reltype == RT.CORE_PROPERTIES])
    rec("C18.native.default_part_once", cpa is cpb and n == 1, "core_properties created %d relationships / distinct parts on repeated access" % n, "default-part")
    # the default part's `modified` is the current time in UTC (it is written with the "Z" designator) whatever the process's time zone
    import os as _os
    import time as _time

    bad = None
    old_tz = _os.environ.get("TZ")
    try:
        for tz_ in ("PST8", "IST-5:30", "UTC0"):
            _os.environ["TZ"] = tz_
            _time.tzset()
            q_ = Presentation().part.package
            for r_ in [r.rId for r in q_._rels.values() if r.reltype == RT.CORE_PROPERTIES]:
                q_._rels.pop(r_)
            before_ = dt.datetime.now(dt.timezone.utc).replace(tzinfo=None)
            m_ = q_.core_properties.modified
            after_ = dt.datetime.now(dt.timezone.utc).replace(tzinfo=None)
            evals += 1
            if m_ is None or not (before_ - dt.timedelta(seconds=2) <= m_ <= after_ + dt.timedelta(seconds=2)):
                bad = bad or "process time zone %s: the default part's modified reads %r, the UTC time is %r" % (tz_, m_, after_)
    finally:
        if old_tz is None:
            _os.environ.pop("TZ", None)
        else:
            _os.environ["TZ"] = old_tz
        _time.tzset()
    rec("C18.native.default_part_modified_is_utc_in_any_time_zone", bad is None, bad, "default-part")
    # two packages without a core-properties part in one process: each gains its own default part
    def _coreless():
        q = Presentation().part.package
        for r_ in [r.rId for r in q._rels.values() if r.reltype == RT.CORE_PROPERTIES]:
            q._rels.pop(r_)
        return q

    bad = None
    pa, pb = _coreless(), _coreless()
    ca = pa.core_properties
    ca.author, ca.title, ca.revision, ca.keywords = "Alice", "Deck A", 41, "k1 k2"
    ca.created = dt.datetime(2011, 1, 1, 1, 1, 1)
    cb = pb.core_properties
    evals += 8
    got_b = (cb.author, cb.keywords, cb.created, cb.title, cb.revision)
    if got_b[:3] != ("", "", None) or got_b[3] != "PowerPoint Presentation" or got_b[4] != 1:
        bad = "default core properties of a second package read author/keywords/created/title/revision = %r after values were assigned on another package" % (got_b,)
    got_a = (ca.author, ca.title, ca.revision, ca.keywords, ca.created)
    if got_a != ("Alice", "Deck A", 41, "k1 k2", dt.datetime(2011, 1, 1, 1, 1, 1)):
        bad = bad or "values assigned on one package read %r after another package gained its default part" % (got_a,)
    cb.author = "Bob"
    if ca.author != "Alice":
        bad = bad or "author assigned on one package reads %r after assigning on another package" % ca.author
    rec("C18.native.default_parts_of_two_packages_are_independent", bad is None, bad, "default-part")
    return {"contract": "C18.native_roundtrip", "prop": "C18", "status": "ok", "obligations": obls, "paths": 0, "assumed": [], "functions": {},
            "notes": [] if schema is not None else [schema_note], "solver_s": 0.0, "wall_s": _t.time() - t0,
            "bounded": {"name": "C18.native_roundtrip", "bound": "strftime for 9 year widths, strptime on 3 texts, one save/re-open with 5 string properties "
                        "(markup, 255 chars, surrounding blanks, astral, empty), revision, 2 dates; default part creation",
                        "evaluations": evals, "samples": [{"strftime": dt.datetime(999, 1, 2, 3, 4, 5).strftime("%Y-%m-%dT%H:%M:%SZ")}], "counted_as_proved": False}}


JOBS = {"C18.native_roundtrip": _native_roundtrip}


# ---------------------------------------------------------------------------------------------------------
# every default part gets an element of its own


def _replay_fresh(model, rec):
    r = _native_roundtrip(tier="quick", seed=0)
    bad = [o for o in r["obligations"] if o["status"] == "refuted" and "default_part" in o["name"]]
    if bad:
        return {"confirmed": True, "witness_class": "default-part", "detail": bad[0]["replay"]["detail"]}
    return {"confirmed": False, "detail": "default parts of two packages are independent"}


@contract("C18", "C18.oxml.coreprops.CT_CoreProperties.new_coreProperties.fresh_element_per_call", replay=_replay_fresh)
def _new_core_fresh(c):
    """two calls give two elements: each comes from its own parse of the template (no element is kept and handed out again)."""
    from pptx.oxml.coreprops import CT_CoreProperties

    made = []

    def parse(it, a, k):
        e = SObj(None, "parsed_%d" % len(made), __external__=True)
        made.append((e, a[0] if a else None))
        return e

    c.summaries["pptx.oxml:parse_xml"] = parse
    c.summaries["pptx.oxml.coreprops:parse_xml"] = parse
    c.path.assumed.add("parse_xml returns a new element tree per call")
    fn = CT_CoreProperties.__dict__["new_coreProperties"]
    fn = getattr(fn, "__func__", fn)
    import inspect

    takes_cls = len(inspect.signature(fn).parameters) >= 1
    a = c.run(fn, *([CT_CoreProperties] if takes_cls else []))
    b = c.run(fn, *([CT_CoreProperties] if takes_cls else []))
    if a.raised or b.raised:
        c.fails("never_raises", "raised %s" % (a.exc if a.raised else b.exc))
        return
    c.ensures("post.two_calls_two_elements", a.value is not b.value)
    c.ensures("post.each_from_its_own_parse", len(made) == 2 and a.value is made[0][0] and b.value is made[1][0])
    c.ensures("post.parsed_from_the_template", all(isinstance(t, str) and t.lstrip().startswith("<cp:coreProperties") for _, t in made))


# ---------------------------------------------------------------------------------------------------------
# the part-level properties (what `prs.core_properties.X = v` calls): every value reaches the validating element setter, or is
# known to be the proper value already there


class _CoreElem:
    """cp:coreProperties seen through its element-level properties: a store of an improper value raises ValueError (contracts above),
    a proper one is kept."""

    __pyvc_symbolic__ = True

    def __init__(self, fields, improper):
        self.fields = dict(fields)
        self.improper = improper  # attr name -> (value -> z3 Bool / bool)
        self.stores = []

    def sym_truth(self, it):
        return True

    def sym_getattr(self, it, name):
        if name in self.fields:
            return self.fields[name]
        raise Unsupported("element attribute %s is not part of the core-properties view" % name)

    def sym_setattr(self, it, name, v):
        from pyvc.engine import PyRaise

        bad = self.improper.get(name, lambda _v: False)(v)
        if not isinstance(bad, bool):
            bad = it.path.branch(bad)
        if bad:
            raise PyRaise(ValueError, ("improper value",))
        self.stores.append(name)
        self.fields[name] = v


def _make_part_prop(api, attr, kind):
    @contract("C18", "C18.parts.coreprops.CorePropertiesPart.%s.fset[%s]" % (api, kind), replay=_replay_revision if api == "revision" else _replay_text)
    def body(c):
        """an improper value never returns normally (it reaches the validating element setter whatever the property currently reads);
        after a normal return the element holds the value assigned, and nothing else was stored."""
        from pptx.parts.coreprops import CorePropertiesPart

        if kind == "int":
            v, cur = c.int("value"), c.int("current")
            improper = lambda x: x < 1 if z3.is_expr(x) else (not isinstance(x, int) or x < 1)
            is_improper = v < 1
        elif kind == "real":
            v, cur = c.real("value"), c.int("current")
            improper = lambda x: True if (z3.is_expr(x) and z3.is_real(x)) or isinstance(x, float) else (x < 1)
            is_improper = z3.BoolVal(True)
        else:
            v = SStr([Atom("value", zs=z3.String("value"))])
            cur = SStr([Atom("current", zs=z3.String("current"))])
            TOO_LONG = z3.Function("TOO_LONG", z3.StringSort(), z3.BoolSort())  # what the element setter refuses (contracts above: > 255 characters)
            improper = lambda x: TOO_LONG(x.z3()) if hasattr(x, "z3") else len(x) > 255
            is_improper = TOO_LONG(z3.String("value"))
        elem = _CoreElem({attr: cur}, {attr: improper})
        part = SObj(CorePropertiesPart, "core_properties_part", _element=elem)
        prop = CorePropertiesPart.__dict__[api]
        out = c.run(prop.fset, part, v)
        if out.raised:
            c.ensures("raises.only_ValueError_for_an_improper_value", z3.And(z3.BoolVal(out.exc.exc_cls is ValueError), is_improper))
            c.ensures("raises.nothing_stored", not elem.stores)
            return
        c.ensures("post.only_proper_values_return_normally", z3.Not(is_improper))
        got = elem.fields[attr]
        if kind == "str":
            c.ensures("post.element_holds_the_value", got.z3() == z3.String("value"))
        else:
            c.ensures("post.element_holds_the_value", got == v)
        c.ensures("frame.no_other_store", all(s == attr for s in elem.stores))

    return body


for _api, _attr in (("author", "author_text"), ("category", "category_text"), ("comments", "comments_text"), ("content_status", "contentStatus_text"), ("identifier", "identifier_text"),
                    ("keywords", "keywords_text"), ("language", "language_text"), ("last_modified_by", "lastModifiedBy_text"), ("subject", "subject_text"), ("title", "title_text"),
                    ("version", "version_text")):
    _make_part_prop(_api, _attr, "str")
_make_part_prop("revision", "revision_number", "int")
_make_part_prop("revision", "revision_number", "real")

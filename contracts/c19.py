"""C19 -- part-name arithmetic is exact: relative references resolve back to their part.  DESIGN.md 5/C19.

Part names are structured strings: "/" + segments, every segment a symbolic name (z3 string, non-empty,
no "/", the last one of several shapes: stem.ext, stem<digits>.ext, a.b.ext, extension-less,
[bracketed].ext).  The real `PackURI` members run on them with `posixpath` entering through the
assumed contracts of pyvc/pathmodel.py.  Depth is enumerated (directories 0..4 deep, which is the
property's own bound), the segments themselves are symbolic, so every alphabet is covered at once."""
from __future__ import annotations

import posixpath

import z3

from pyvc import pathmodel  # noqa: F401  (registers the posixpath contracts)
from pyvc.engine import Atom, FmtInt, PATTERN_MODELS, SStr, Unsupported, _as_sstr, _mkstr, str_eq
from pyvc.verify import contract

META = {
    "residual": ["posixpath.split/splitext/join/normpath/abspath/relpath enter as assumed contracts on structured paths (pyvc/pathmodel.py), "
                 "probed natively on all names over the property's segment alphabet up to depth 3 by C19.posixpath_probe",
                 "depth is enumerated up to 4 directory levels (the property's bound); segments are symbolic"],
    "trusted_base": ["posixpath contracts of pyvc/pathmodel.py", "re.match of ([a-zA-Z]+)([0-9][0-9]*)? on a stem made of letters, digits, rest"],
}

MAXD = 4


def _seg(c, name, dots=False):
    zs = c.input(name, z3.String(name))
    c.requires(z3.Length(zs) >= 1)
    c.requires(z3.Not(z3.Contains(zs, z3.StringVal("/"))))
    ex = {"/"}
    if not dots:
        c.requires(z3.Not(z3.Contains(zs, z3.StringVal("."))))
        ex.add(".")
    return Atom(name, excludes=frozenset(ex), nonempty=True, zs=zs)


def _letters(c, name):
    from pyvc import zstr

    zs = c.input(name, z3.String(name))
    c.requires(z3.InRe(zs, zstr.re_to_z3("[a-zA-Z]+")))
    a = Atom(name, excludes=frozenset("/.0123456789[]"), nonempty=True, tags={"letters"}, zs=zs)
    return a


SHAPES = ["stem.ext", "stem<n>.ext", "a.b.ext", "noext", "[bracket].ext", "stem<n>rest.ext"]


def _filename(c, shape, tag):
    """(pieces, expected) for one file-name shape; expected = dict(ext=..., idx=..., stem pieces)."""
    if shape == "stem.ext":
        st, ex = _letters(c, tag + "_stem"), _seg(c, tag + "_ext")
        return [st, ".", ex], {"ext": [ex], "idx": None}
    if shape == "stem<n>.ext":
        st, ex = _letters(c, tag + "_stem"), _seg(c, tag + "_ext")
        n = c.int(tag + "_n")
        c.requires(n >= 0)
        return [st, FmtInt(n), ".", ex], {"ext": [ex], "idx": n}
    if shape == "stem<n>rest.ext":
        st, ex = _letters(c, tag + "_stem"), _seg(c, tag + "_ext")
        n = c.int(tag + "_n")
        c.requires(n >= 0)
        rest = _letters(c, tag + "_rest")
        return [st, FmtInt(n), rest, ".", ex], {"ext": [ex], "idx": n}
    if shape == "a.b.ext":
        a, b, ex = _seg(c, tag + "_a"), _seg(c, tag + "_b"), _seg(c, tag + "_ext")
        return [a, ".", b, ".", ex], {"ext": [ex], "idx": "unknown"}
    if shape == "noext":
        st = _letters(c, tag + "_stem")
        return [st], {"ext": [], "idx": None}
    if shape == "[bracket].ext":
        inner, ex = _seg(c, tag + "_inner"), _seg(c, tag + "_ext")
        return ["[", inner, "]", ".", ex], {"ext": [ex], "idx": None}
    raise ValueError(shape)


def _partname(c, depth, shape, tag):
    dirs = [_seg(c, "%s_d%d" % (tag, i)) for i in range(depth)]
    fn, exp = _filename(c, shape, tag)
    pieces = []
    for d in dirs:
        pieces += ["/", d]
    pieces += ["/"] + fn
    return _mkstr(pieces), dirs, fn, exp


def _eq(a, b):
    """bool / z3 Bool equality of two structured strings."""
    try:
        return str_eq(_as_sstr(a), _as_sstr(b))
    except Unsupported:
        za, zb = _as_sstr(a).z3(), _as_sstr(b).z3()
        if za is None or zb is None:
            raise
        return za == zb


def _filename_re_model(it, pat, s):
    """re.match(([a-zA-Z]+)([0-9][0-9]*)?) on a stem: letters atom [digits] [rest]."""
    it.path.assumed.add("re.match(([a-zA-Z]+)([0-9][0-9]*)?, stem): group(2) is the run of digits directly after the leading letters, None if there is none; no match if the stem does not start with a letter")
    parts = list(_as_sstr(s).parts)
    if not parts:
        return None
    first = parts[0]
    if isinstance(first, str):
        if not first[0].isascii() or not first[0].isalpha():
            return None
        raise Unsupported("regex on a literal-led stem")
    if isinstance(first, Atom) and "letters" in first.tags:
        g2 = None
        if len(parts) > 1 and isinstance(parts[1], FmtInt):
            g2 = SStr([parts[1]])
        elif len(parts) > 1 and isinstance(parts[1], Atom) and "letters" in parts[1].tags:
            raise Unsupported("two adjacent letter atoms")

        class _M:
            __pyvc_symbolic__ = True

            def sym_truth(self, it2):
                return True

            def sym_getattr(self, it2, name):
                from pyvc.engine import GhostFn

                if name == "group":
                    return GhostFn(lambda i3, a, k: g2 if a[0] == 2 else SStr([first]))
                raise Exception("ghost match asked for %s" % name)

        return _M()
    raise Unsupported("regex on stem %r" % (s,))


PATTERN_MODELS["([a-zA-Z]+)([0-9][0-9]*)?"] = _filename_re_model


def _replay_members(model, rec):
    r = _posixpath_probe(tier="quick", seed=0)
    bad = [o for o in r["obligations"] if o["status"] == "refuted"]
    if bad:
        return {"confirmed": True, "witness_class": bad[0]["replay"]["witness_class"], "detail": bad[0]["replay"]["detail"]}
    return {"confirmed": False, "detail": "all part names over the segment alphabet up to depth 3 agree with the OPC definitions natively"}


def _make_members(depth, shape):
    @contract("C19", "C19.opc.packuri.PackURI.members[depth=%d,%s]" % (depth, shape), replay=_replay_members, timeout_ms=20000)
    def body(c):
        """baseURI, filename, ext, idx, membername, rels_uri of a part name are those OPC defines."""
        from pptx.opc.packuri import PackURI

        s, dirs, fn, exp = _partname(c, depth, shape, "p")
        made = c.call(PackURI, s)
        if made.raised:
            c.fails("new.accepts_absolute", "PackURI(%r) raised %s" % (s, made.exc))
            return
        u = made.value
        dir_pieces = []
        for d in dirs:
            dir_pieces += ["/", d]
        want_dir = _mkstr(dir_pieces) if dirs else "/"

        def get(name):
            o = c.getattr(u, name)
            if o.raised:
                c.fails("%s.never_raises" % name, "%s raised %s" % (name, o.exc))
                return None
            return o

        o = get("baseURI")
        if o:
            c.ensures("baseURI.is_directory", _eq(o.value, want_dir))
        o = get("filename")
        if o:
            c.ensures("filename.is_last_segment", _eq(o.value, _mkstr(fn)))
        o = get("ext")
        if o:
            c.ensures("ext.after_last_dot", _eq(o.value, _mkstr(exp["ext"]) if exp["ext"] else ""))
        o = get("membername")
        if o:
            c.ensures("membername.without_leading_slash", _eq(o.value, _mkstr(list(_as_sstr(s).parts[0][1:] and [_as_sstr(s).parts[0][1:]]) + list(_as_sstr(s).parts[1:]))))
        o = get("rels_uri")
        if o:
            want = _mkstr(dir_pieces + ["/_rels/"] + fn + [".rels"])
            c.ensures("rels_uri.dir_rels_filename", _eq(o.value, want))
        if not (isinstance(exp["idx"], str) and exp["idx"] == "unknown"):
            o = get("idx")
            if o:
                if exp["idx"] is None:
                    c.ensures("idx.none_without_digits", o.value is None)
                else:
                    c.ensures("idx.digits_after_letters", o.value is not None and o.value == exp["idx"])

    return body


for _d in range(0, MAXD + 1):
    for _s in SHAPES:
        if _d in (0, 2) or _s in ("stem<n>.ext", "noext"):
            _make_members(_d, _s)


@contract("C19", "C19.opc.packuri.PackURI.package_pseudo_name")
def _root(c):
    """the package pseudo-name '/': baseURI '/', filename '', ext '', idx None, membername '', rels_uri '/_rels/.rels'."""
    from pptx.opc.packuri import PackURI

    u = c.call(PackURI, SStr(["/"]))
    if u.raised:
        c.fails("new", "raised %s" % u.exc)
        return
    u = u.value
    for name, want in (("baseURI", "/"), ("filename", ""), ("ext", ""), ("membername", ""), ("rels_uri", "/_rels/.rels")):
        o = c.getattr(u, name)
        c.ensures("%s" % name, (not o.raised) and _eq(o.value, want) is True)
    o = c.getattr(u, "idx")
    c.ensures("idx", (not o.raised) and o.value is None)


@contract("C19", "C19.opc.packuri.PackURI.__new__.rejects_relative")
def _rejects(c):
    """a name that does not start with '/' is rejected (ValueError; IndexError for the empty string)."""
    from pptx.opc.packuri import PackURI

    zs = c.input("s", z3.String("s"))
    s = SStr([Atom("s", zs=zs)])
    out = c.call(PackURI, s)
    if out.raised:
        c.ensures("raises.iff_no_leading_slash", z3.And(issubclass(out.exc.exc_cls, (ValueError, IndexError)), z3.Not(z3.PrefixOf(z3.StringVal("/"), zs))))
    else:
        c.ensures("post.accepted_starts_with_slash", z3.PrefixOf(z3.StringVal("/"), zs))


def _replay_roundtrip(model, rec):
    from pptx.opc.packuri import PackURI

    pd = [model[k] for k in sorted(k for k in model if k.startswith("P_d")) if isinstance(model.get(k), str)]
    qd = [model[k] for k in sorted(k for k in model if k.startswith("Q_d")) if isinstance(model.get(k), str)]
    if all(isinstance(model.get(k), str) for k in ("Q_stem", "Q_ext")) and isinstance(model.get("Q_n"), int):
        base = "/" + "/".join(pd) if pd else "/"
        q = "/" + "/".join(qd + ["%s%d.%s" % (model["Q_stem"], model["Q_n"], model["Q_ext"])])
        try:
            rel = PackURI(q).relative_ref(base)
            back = PackURI.from_rel_ref(base, rel)
            if back != q:
                return {"confirmed": True, "witness_class": "relative-ref-roundtrip", "input": {"base": base, "Q": q},
                        "detail": "base %r, Q %r: relative_ref gives %r which resolves to %r" % (base, q, rel, back)}
        except Exception as e:
            return {"confirmed": True, "witness_class": "relative-ref-raises", "detail": "base %r, Q %r raised %r" % (base, q, e)}
    return _replay_members(model, rec)


def _make_roundtrip(dp, dq):
    @contract("C19", "C19.lemma.L19[dirP=%d,dirQ=%d]" % (dp, dq), replay=_replay_roundtrip, timeout_ms=20000, max_paths=400)
    def body(c):
        """L19: from_rel_ref(dir(P), Q.relative_ref(dir(P))) == Q for all part names P (directory depth dp) and Q
        (directory depth dq) with symbolic segments -- every case of common prefix is a path."""
        from pptx.opc.packuri import PackURI

        pd = [_seg(c, "P_d%d" % i) for i in range(dp)]
        q, qdirs, qfn, qexp = _partname(c, dq, "stem<n>.ext", "Q")
        base_pieces = []
        for d in pd:
            base_pieces += ["/", d]
        base = _mkstr(base_pieces) if pd else "/"
        qu = c.call(PackURI, q)
        if qu.raised:
            c.fails("Q.accepted", "raised %s" % qu.exc)
            return
        rel = c.call(PackURI.relative_ref, qu.value, base)
        if rel.raised:
            c.fails("relative_ref.never_raises", "raised %s" % rel.exc)
            return
        back = c.call(PackURI.from_rel_ref, base, rel.value)
        if back.raised:
            c.fails("from_rel_ref.never_raises", "raised %s" % back.exc)
            return
        c.ensures("roundtrip", _eq(back.value, q), rel=repr(rel.value))
        r = _as_sstr(rel.value)
        c.ensures("relative_ref.is_relative", not (r.parts and isinstance(r.parts[0], str) and r.parts[0].startswith("/")))

    return body


for _dp in range(0, MAXD + 1):
    for _dq in range(0, MAXD + 1):
        _make_roundtrip(_dp, _dq)


def _rfc3986(base, ref):
    segs = [] if ref.startswith("/") else [s for s in base.split("/") if s]
    for s in ref.split("/"):
        if s in ("", "."):
            continue
        if s == "..":
            if segs:
                segs.pop()
            continue
        segs.append(s)
    return "/" + "/".join(segs)


def _make_dotseg(depth, ref, want_fn):
    def _replay(model, rec):
        from pptx.opc.packuri import PackURI

        dirs = [str(model.get("b_d%d" % i) or "d%d" % i) for i in range(depth)]
        t = str(model.get("target") or "t")
        base = "/" + "/".join(dirs)
        r = ref[:-1] + t if ref.endswith("t") else t + "/."
        try:
            got = PackURI.from_rel_ref(base, r)
        except Exception as e:
            return {"confirmed": True, "witness_class": "from-rel-ref", "detail": "from_rel_ref(%r, %r) raised %r" % (base, r, e)}
        if got != _rfc3986(base, r):
            return {"confirmed": True, "witness_class": "from-rel-ref", "detail": "from_rel_ref(%r, %r) = %r, RFC 3986 path resolution gives %r" % (base, r, str(got), _rfc3986(base, r))}
        return {"confirmed": False, "detail": "from_rel_ref(%r, %r) = %r as RFC 3986 gives" % (base, r, str(got))}

    @contract("C19", "C19.opc.packuri.PackURI.from_rel_ref[depth=%d,%s]" % (depth, ref), replay=_replay)
    def body(c):
        """references containing '.', '..' or a root-absolute path resolve as RFC 3986 path resolution does."""
        from pptx.opc.packuri import PackURI

        dirs = [_seg(c, "b_d%d" % i) for i in range(depth)]
        t = _seg(c, "target")
        bp = []
        for d in dirs:
            bp += ["/", d]
        base = _mkstr(bp) if dirs else "/"
        relp = {"./t": ["./", t], "../t": ["../", t], "/abs/t": ["/abs/", t], "a/../t": ["a/../", t], "../../t": ["../../", t], "t/.": [t, "/."], ".//t": [".//", t],
                "/abs/../t": ["/abs/../", t], "/abs/./t": ["/abs/./", t], "/abs//t": ["/abs//", t], "/../t": ["/../", t]}[ref]
        out = c.call(PackURI.from_rel_ref, base, _mkstr(relp))
        if out.raised:
            c.fails("never_raises", "raised %s" % out.exc)
            return
        want = want_fn(dirs, t)
        c.ensures("resolves", _eq(out.value, want))

    return body


def _join(segs):
    p = []
    for s in segs:
        p += ["/", s]
    return _mkstr(p) if p else "/"


for _d in range(0, 4):
    _make_dotseg(_d, "./t", lambda dirs, t: _join(dirs + [t]))
    _make_dotseg(_d, "../t", lambda dirs, t: _join(dirs[:-1] + [t]))
    _make_dotseg(_d, "/abs/t", lambda dirs, t: _mkstr(["/abs/", t]))
    _make_dotseg(_d, "a/../t", lambda dirs, t: _join(dirs + [t]))
    _make_dotseg(_d, "../../t", lambda dirs, t: _join(dirs[:-2] + [t]) if len(dirs) >= 2 else _join([t]))
    _make_dotseg(_d, "t/.", lambda dirs, t: _join(dirs + [t]))
    _make_dotseg(_d, ".//t", lambda dirs, t: _join(dirs + [t]))
    # a root-absolute reference is normalised like any other
    _make_dotseg(_d, "/abs/../t", lambda dirs, t: _join([t]))
    _make_dotseg(_d, "/abs/./t", lambda dirs, t: _mkstr(["/abs/", t]))
    _make_dotseg(_d, "/abs//t", lambda dirs, t: _mkstr(["/abs/", t]))
    _make_dotseg(_d, "/../t", lambda dirs, t: _join([t]))


# --------------------------------------------------------------------------------------------
# BOUNDED native probe of the assumed posixpath contracts and of PackURI itself


def _posixpath_probe(tier="quick", seed=0):
    import itertools
    import time as _t

    from pptx.opc.packuri import PackURI

    t0 = _t.time()
    alphabet = ["slide", "slide12", "a.b", "x.tar.gz", "noext", "UPPER.XML", "[Content_Types].xml", "_rels", "7z", "image001.png", "slide0.xml", "media01.mp4", "Slide10a2.xml"]
    maxd = 3 if tier == "quick" else 4
    names = []
    for d in range(1, maxd + 1):
        for combo in itertools.product(alphabet, repeat=d):
            names.append("/" + "/".join(combo))
        if len(names) > (6000 if tier == "quick" else 40000):
            break
    bad = None
    evals = 0

    def resolve(base, ref):
        segs = [] if ref.startswith("/") else [s for s in base.split("/") if s]
        for s in ref.split("/"):
            if s in ("", "."):
                continue
            if s == "..":
                if segs:
                    segs.pop()
                continue
            segs.append(s)
        return "/" + "/".join(segs)

    for n in names:
        u = PackURI(n)
        evals += 1
        dir_, _, fn = n.rpartition("/")
        dir_ = dir_ or "/"
        stem, dot, ext = fn.rpartition(".")
        if not dot or not stem:
            stem, ext = fn, ""
        import re

        m = re.match(r"([a-zA-Z]+)([0-9][0-9]*)?", stem)
        idx = int(m.group(2)) if m and m.group(2) else None
        exp = dict(baseURI=dir_, filename=fn, ext=ext, membername=n[1:], rels_uri=(dir_.rstrip("/") + "/_rels/" + fn + ".rels"), idx=idx)
        for k, v in exp.items():
            if getattr(u, k) != v:
                bad = bad or "PackURI(%r).%s = %r, OPC definition gives %r" % (n, k, getattr(u, k), v)
    sample = names[:: max(1, len(names) // (60 if tier == "quick" else 250))]
    for p in sample:
        base = PackURI(p).baseURI
        for q in sample:
            evals += 1
            rel = PackURI(q).relative_ref(base)
            if PackURI.from_rel_ref(base, rel) != q:
                bad = bad or "P=%r Q=%r: relative_ref %r resolves to %r" % (p, q, rel, PackURI.from_rel_ref(base, rel))
            for ref in ("./" + q[1:], "../x", "/abs/x", "a/../b", ".//c", "/abs/../x", "/abs/./x", "/abs//x", "/../x", "/a/b/../../x/./y", q + "/../z"):
                if PackURI.from_rel_ref(base, ref) != resolve(base, ref):
                    bad = bad or "from_rel_ref(%r, %r) = %r, RFC 3986 gives %r" % (base, ref, PackURI.from_rel_ref(base, ref), resolve(base, ref))
    for s in ("", "ppt/slides/slide1.xml", "x", "\\ppt\\slides\\slide1.xml", "\\", " /ppt/x.xml", "./ppt/x.xml", "ppt\\x.xml", "\\/x"):
        try:
            PackURI(s)
            bad = bad or "PackURI(%r) accepted" % s
        except (ValueError, IndexError):
            pass
    # a part name is taken as given: characters that mean something elsewhere (back-slash, blank, percent, upper case, dots, unicode,
    # a trailing dot, doubled extension) are part of the name
    for n in ("/ppt/media/a\\b.bin", "/ppt/My Slide 1.xml", "/ppt/%20x.xml", "/PPT/Slides/SLIDE1.XML", "/ppt/a..b/c.d.e", "/ppt/\u00e9t\u00e9.xml", "/ppt/x.", "/ppt/.hidden",
              "/ppt/slides/slide1.xml.rels.xml", "/a b/c d.e f", "/ppt/x;y=z.xml", "/ppt/~x.xml", "/ppt/x+y.xml"):
        evals += 1
        try:
            u = PackURI(n)
        except Exception as e:
            bad = bad or "PackURI(%r) raised %r" % (n, e)
            continue
        dir_, _, fn = n.rpartition("/")
        if str(u) != n or u.membername != n[1:] or u.filename != fn or u.baseURI != (dir_ or "/") or u.rels_uri != (dir_.rstrip("/") + "/_rels/" + fn + ".rels"):
            bad = bad or "PackURI(%r): str %r, membername %r, filename %r, baseURI %r, rels_uri %r" % (n, str(u), u.membername, u.filename, u.baseURI, u.rels_uri)
    # names with characters a URI would escape: relative_ref writes the name as it is and from_rel_ref reads it as it is, so the pair
    # stays inverse (the reference is what ends up in a relationship's Target; the member keeps the name)
    for p_, q_ in (("/ppt/slides/slide1.xml", "/ppt/media/company logo.png"), ("/ppt/slides/my slide.xml", "/ppt/media/100%.png"), ("/ppt/slides/slide1.xml", "/ppt/media/\u00e9t\u00e9 #1.png"),
                   ("/a b/c.xml", "/a b/d e/f?g.bin"), ("/ppt/slides/slide1.xml", "/ppt/media/intro.mp4 copy")):
        evals += 1
        base_ = PackURI(p_).baseURI
        rel_ = PackURI(q_).relative_ref(base_)
        if PackURI.from_rel_ref(base_, rel_) != q_ or rel_ != __import__("posixpath").relpath(q_, base_):
            bad = bad or "P=%r Q=%r: relative_ref gives %r, which resolves to %r" % (p_, q_, rel_, str(PackURI.from_rel_ref(base_, rel_)))
    # the same on a real package, where names change while it is open: every relationship's reference resolves to the name its target has
    # NOW -- before the slide parts are renamed (first access to .slides), after it, and after a save in between
    try:
        import io as _io

        from pptx import Presentation as _Prs

        from .c06 import _awkward_deck

        deck_ = _awkward_deck()
    except Exception:
        deck_ = None
    if deck_ is not None:
        for save_first in (False, True):
            prs_ = _Prs(_io.BytesIO(deck_))
            stages = [("as opened", lambda: None), ("after a save", lambda: prs_.save(_io.BytesIO())) if save_first else ("as opened again", lambda: None),
                      ("after the slide parts were renamed", lambda: list(prs_.slides)), ("after another save", lambda: prs_.save(_io.BytesIO()))]
            for label_, act_ in stages:
                act_()
                pkg_ = prs_.part.package
                for src_ in [pkg_] + list(pkg_.iter_parts()):
                    base_ = "/" if src_ is pkg_ else src_.partname.baseURI
                    for rel_ in (src_._rels if hasattr(src_, "_rels") else src_.rels).values():
                        if rel_.is_external:
                            continue
                        evals += 1
                        if PackURI.from_rel_ref(base_, rel_.target_ref) != rel_.target_part.partname:
                            bad = bad or "deck with slide parts named 7, 3, 9, %s%s: relationship %s of %s has reference %r, its target is named %s" % (
                                label_, " (saved once before)" if save_first else "", rel_.rId, getattr(src_, "partname", "/"), rel_.target_ref, rel_.target_part.partname)
    # ... and what is written for a relationship is that reference, character for character: a saved package whose parts have names a URI
    # would escape resolves every internal Target (joined onto the source's directory, nothing decoded) to a member
    try:
        import io as _io2
        import posixpath as _pp
        import struct as _st
        import zipfile as _zf
        import zlib as _zl

        from lxml import etree as _et
        from pptx import Presentation as _Prs2

        def _png2(k):
            raw = b"".join(b"\x00" + bytes((k, 2, 3)) * 2 for _ in range(2))
            ch = lambda t, d: _st.pack(">I", len(d)) + t + d + _st.pack(">I", _zl.crc32(t + d) & 0xFFFFFFFF)
            return b"\x89PNG\r\n\x1a\n" + ch(b"IHDR", _st.pack(">IIBBBBB", 2, 2, 8, 2, 0, 0, 0)) + ch(b"IDAT", _zl.compress(raw)) + ch(b"IEND", b"")

        prs3 = _Prs2()
        odd_names = ["/ppt/media/team%20photo.png", "/ppt/media/company logo [1].png", "/ppt/media/\u00e9t\u00e9 100%.png", "/ppt/media/a+b,c;d=e@2x.png"]
        for k_, nm_ in enumerate(odd_names):
            sl3 = prs3.slides.add_slide(prs3.slide_layouts[6])
            pic3 = sl3.shapes.add_picture(_io2.BytesIO(_png2(k_)), 0, 0)
            sl3.part.related_part(pic3._pic.blip_rId).partname = PackURI(nm_)
        b3 = _io2.BytesIO()
        prs3.save(b3)
        z3_ = _zf.ZipFile(_io2.BytesIO(b3.getvalue()))
        members_ = set(z3_.namelist())
        for n_ in sorted(members_):
            if not n_.endswith(".rels"):
                continue
            d_, f_ = _pp.split(n_)
            base_ = "/" + _pp.dirname(d_) if f_ != ".rels" else "/"
            for e_ in _et.fromstring(z3_.read(n_)):
                if e_.get("TargetMode") == "External":
                    continue
                evals += 1
                t_ = e_.get("Target")
                resolved = _pp.normpath(_pp.join(base_, t_))
                if resolved[1:] not in members_:
                    bad = bad or "saved package: %s of %s has Target %r, which resolves to %r -- not a member (members named like %s)" % (e_.get("Id"), n_, t_, resolved, sorted(m_ for m_ in members_ if "media" in m_)[:2])
        reopened = _Prs2(_io2.BytesIO(b3.getvalue()))
        got_names = sorted(str(p_.partname) for p_ in reopened.part.package.iter_parts() if "/media/" in str(p_.partname))
        if got_names != sorted(odd_names):
            bad = bad or "re-opened package has media parts %s, saved were %s" % (got_names, sorted(odd_names))
    except Exception as e:
        bad = bad or "package with parts named like user files: %r" % (e,)
    ob = {"name": "C19.posixpath_probe", "base": "C19.posixpath_probe", "kind": "bounded", "status": "refuted" if bad else "discharged", "backend": "native", "time": 0, "path": 0}
    if bad:
        ob["replay"] = {"confirmed": True, "witness_class": "packuri-native", "detail": bad}
        ob["model"] = None
    return {"contract": "C19.posixpath_probe", "prop": "C19", "status": "ok", "obligations": [ob], "paths": 0, "assumed": [], "functions": {}, "notes": [],
            "solver_s": 0.0, "wall_s": _t.time() - t0,
            "bounded": {"name": "C19.posixpath_probe", "bound": "all names over a 9-segment alphabet up to depth %d (%d names) for the members; %d x %d pairs for the round trip and dot-segment references"
                        % (maxd, len(names), len(sample), len(sample)), "evaluations": evals, "samples": names[:3] + names[-2:], "counted_as_proved": False}}


JOBS = {"C19.posixpath_probe": _posixpath_probe}

"""Ghosts shared by the OPC contracts (C16, C01, C02): part names, package readers, relationship elements."""
from __future__ import annotations

import z3

from pyvc.engine import Atom, GhostFn, SObj, SSeq, SStr, Unsupported, case_fn
from pyvc.gsets import GDict

LOWER = case_fn("lower")
EXT = z3.Function("EXT_OF", z3.StringSort(), z3.StringSort())  # PackURI.ext (C19 contract)
RELS_URI = z3.Function("RELS_URI_OF", z3.StringSort(), z3.StringSort())  # PackURI.rels_uri (C19 contract)
BASE_URI = z3.Function("BASE_URI_OF", z3.StringSort(), z3.StringSort())
MEMBER = z3.Function("MEMBERNAME_OF", z3.StringSort(), z3.StringSort())

OPTIONS = {"<option>case_functions": True}


class GName:
    """A part name (PackURI) seen through the facts the package code reads; identity = its text `zs`."""

    __pyvc_symbolic__ = True

    def __init__(self, zs, name="partname"):
        self.zs = zs
        self.name = name
        self.gkey = zs

    def sym_pytype(self):
        from pptx.opc.packuri import PackURI

        return PackURI

    def sstr(self):
        return SStr([Atom(self.name, zs=self.zs)])

    def sym_str(self, it):
        return self.sstr()

    def sym_truth(self, it):
        return True

    def sym_eq(self, it, other):
        if isinstance(other, GName):
            return self.zs == other.zs
        if isinstance(other, str):
            return self.zs == z3.StringVal(other)
        if isinstance(other, SStr):
            z = other.z3()
            if z is not None:
                return self.zs == z
        raise Unsupported("comparison of a part name with %r" % (other,))

    def sym_getattr(self, it, name):
        if name == "lower":
            return GhostFn(lambda i2, a, k: SStr([Atom("lower(%s)" % self.name, zs=LOWER(self.zs))]), "str.lower")
        if name == "ext":
            it.path.assumed.add("PackURI.ext / rels_uri / baseURI / membername are functions of the part name (C19 contracts)")
            return SStr([Atom("ext(%s)" % self.name, zs=EXT(self.zs))])
        if name == "rels_uri":
            return GName(RELS_URI(self.zs), "rels_uri(%s)" % self.name)
        if name == "baseURI":
            return SStr([Atom("baseURI(%s)" % self.name, zs=BASE_URI(self.zs))])
        if name == "membername":
            return SStr([Atom("membername(%s)" % self.name, zs=MEMBER(self.zs))])
        raise Unsupported("part name ghost: attribute %s" % name)


def name_key(x):
    from pyvc.gsets import str_key

    if isinstance(x, GName):
        return x.zs
    return str_key(x)


def ci_dict(name, symbolic=True):
    """a real CaseInsensitiveDict whose storage is a ghost dict (its three methods run from source)."""
    from pptx.opc.shared import CaseInsensitiveDict

    g = GDict.symbolic(name, key_of=name_key) if symbolic else GDict(name, key_of=name_key)
    return SObj(CaseInsensitiveDict, name, __payload__=g), g


class GReader:
    """Physical package: PRESENT(name) and BLOB(name) -- what zipfile / the directory holds."""

    __pyvc_symbolic__ = True

    def __init__(self, tag="pkg"):
        self.PRESENT = z3.Function("PRESENT_" + tag, z3.StringSort(), z3.BoolSort())
        self.BLOB = z3.Function("BLOB_" + tag, z3.StringSort(), z3.IntSort())  # blob identity

    def sym_contains(self, it, item):
        return self.PRESENT(name_key(item))

    def sym_getitem(self, it, key):
        k = name_key(key)
        if not it.path.branch(self.PRESENT(k)):
            raise __import__("pyvc.engine", fromlist=["PyRaise"]).PyRaise(KeyError, ("no member in package",))
        return SObj(None, "blob", blob_id=self.BLOB(k))

"""C03 -- every XML part written is valid PresentationML / DrawingML, after any operations.  DESIGN.md 5/C03.

Decomposition of `valid(part)`:
  order / multiplicity of children after every generated mutator          -> C10 (per declaration, proved)
  lexical space of every attribute written through a declared attribute    -> C11 (per simple type, proved)
  caller strings cannot create markup                                      -> C05
Here:
  * template constructors (new_*): the real constructor is executed symbolically; every path yields one template whose
    holes are integer renderings; the path's z3 model gives concrete arguments with which the REAL constructor is run and
    its result validated against the ISO/IEC 29500 schemas (lxml XMLSchema on the real XSD files) inside a host document;
    each hole is located in that instance and the domain of its argument is proved (z3) to lie inside the XSD simple type of
    the attribute it sits in.  Skeleton validity (ground) + hole typing (all values) = validity for all arguments.
  * bounded: random operation histories over every kind of shape / text / table / chart formatting call, every part
    validated after every step; rejected calls leave the parts valid."""
from __future__ import annotations

import copy
import io
import os
import time as _t
import zipfile

import z3

from pyvc.engine import Atom, FmtInt, SObj, SStr
from pyvc.verify import contract

META = {
    "residual": [
        "validity of the starting deck (default template, corpus decks) is a precondition; markup-compatibility preprocessing (mc:Ignorable, mc:AlternateContent) is done by the "
        "checker before validation and is trusted",
        "lxml/libxml2 XMLSchema is the validity oracle for ground instances",
        "hand-written composite mutators are covered by C10 (those that go through declared members) and by the bounded histories; they have no all-inputs contract of their own here",
        "argument domains of the constructors (coordinates: ST_Coordinate range; extents: 0..27273042316900; ids 1..2^31-1) are stated assumptions: python-pptx does not range-check lengths",
    ],
    "trusted_base": ["libxml2 XMLSchema validation", "the XSD files under spec/ISO-IEC-29500-4/xsd", "pyvc.xsd type resolution", "z3 linear integer arithmetic"],
}

MC = "http://schemas.openxmlformats.org/markup-compatibility/2006"
_NS2XSD = {
    "http://schemas.openxmlformats.org/presentationml/2006/main": "pml.xsd",
    "http://schemas.openxmlformats.org/drawingml/2006/chart": "dml-chart.xsd",
    "http://schemas.openxmlformats.org/drawingml/2006/main": "dml-main.xsd",
    "http://schemas.openxmlformats.org/officeDocument/2006/extended-properties": "shared-documentPropertiesExtended.xsd",
}
_SCH = {}


def _xsd_dir():
    return os.path.join(os.environ.get("PPTX_REPO", "/repo"), "spec", "ISO-IEC-29500-4", "xsd")


def _schema(fname):
    from lxml import etree

    if fname not in _SCH:
        _SCH[fname] = etree.XMLSchema(etree.parse(os.path.join(_xsd_dir(), fname)))
    return _SCH[fname]


def mce(root):
    """markup-compatibility preprocessing: drop ignorable namespaces, take mc:Fallback of mc:AlternateContent"""
    from lxml import etree

    root = copy.deepcopy(root)
    ign = set()
    for e in root.iter():
        if not isinstance(e.tag, str):
            continue
        v = e.get("{%s}Ignorable" % MC)
        if v:
            for p in v.split():
                if p in e.nsmap:
                    ign.add(e.nsmap[p])
    for e in list(root.iter()):
        if isinstance(e.tag, str) and e.tag == "{%s}AlternateContent" % MC:
            fb = e.find("{%s}Fallback" % MC)
            par = e.getparent()
            i = par.index(e)
            kids = list(fb) if fb is not None else []
            par.remove(e)
            for k in reversed(kids):
                par.insert(i, k)
    for e in list(root.iter()):
        if not isinstance(e.tag, str):
            continue
        ns = etree.QName(e).namespace
        if ns in ign and e.getparent() is not None:
            e.getparent().remove(e)
            continue
        for a in list(e.attrib):
            if a.startswith("{"):
                an = a[1:].split("}")[0]
                if an in ign or an == MC:
                    del e.attrib[a]
    return root


def validate_root(root, limit=3):
    """[] if the element tree (a whole part) is schema-valid, else up to `limit` messages (None: all)"""
    from lxml import etree

    f = _NS2XSD.get(etree.QName(root).namespace)
    if f is None:
        return []
    s = _schema(f)
    r = mce(root)
    if s.validate(r):
        return []
    return ["%s (line %s)" % (str(e.message)[:220], e.line) for e in s.error_log][:limit]


def validate_package_bytes(data):
    from lxml import etree

    out = []
    z = zipfile.ZipFile(io.BytesIO(data))
    for n in z.namelist():
        if not n.endswith(".xml") or n.startswith("["):
            continue
        try:
            root = etree.fromstring(z.read(n))
        except Exception as e:
            out.append((n, ["not well-formed: %s" % e]))
            continue
        v = validate_root(root)
        if v:
            out.append((n, v))
    return out


def validate_prs(prs):
    out = []
    for p in prs.part.package.iter_parts():
        el = getattr(p, "_element", None)
        if el is None:
            continue
        v = validate_root(el)
        if v:
            out.append((str(p.partname), v))
    return out


# ---------------------------------------------------------------------------------------------------------
# template constructors

COORD = (-27273042329600, 27273042316900)
EXTENT = (0, 27273042316900)
DOMAINS = {
    "x": COORD, "y": COORD, "left": COORD, "top": COORD, "begin_x": COORD, "begin_y": COORD, "end_x": COORD, "end_y": COORD,
    "cx": EXTENT, "cy": EXTENT, "width": EXTENT, "height": EXTENT, "imgW": (0, 2147483647), "imgH": (0, 2147483647),
    "id_": (1, 2147483647), "id": (1, 2147483647), "shape_id": (1, 2147483647), "idx": (0, 4294967295),
}


class _TemplateReached(Exception):
    pass


class _Discard(Exception):
    """the history left the documented domain: stop it without a verdict"""


def _host_for(el):
    """wrap a shape element into a minimal slide so that it can be validated as a document"""
    from pptx.oxml import parse_xml
    from pptx.oxml.ns import nsdecls

    sld = parse_xml('<p:sld %s><p:cSld><p:spTree><p:nvGrpSpPr><p:cNvPr id="2147483646" name=""/><p:cNvGrpSpPr/><p:nvPr/></p:nvGrpSpPr><p:grpSpPr/>'
                    "</p:spTree></p:cSld></p:sld>" % nsdecls("p", "a", "r"))
    sld.cSld.spTree.append(el)
    return sld


def _ctor_targets():
    import pptx.oxml.shapes.autoshape as au
    import pptx.oxml.shapes.connector as cx
    import pptx.oxml.shapes.graphfrm as gf
    import pptx.oxml.shapes.groupshape as gs
    import pptx.oxml.shapes.picture as pic

    return [
        (pic.CT_Picture, "new_pic"), (pic.CT_Picture, "new_ph_pic"), (pic.CT_Picture, "new_video_pic"),
        (au.CT_Shape, "new_autoshape_sp"), (au.CT_Shape, "new_textbox_sp"), (au.CT_Shape, "new_freeform_sp"), (au.CT_Shape, "new_placeholder_sp"),
        (cx.CT_Connector, "new_cxnSp"), (gs.CT_GroupShape, "new_grpSp"),
        (gf.CT_GraphicalObjectFrame, "new_chart_graphicFrame"), (gf.CT_GraphicalObjectFrame, "new_table_graphicFrame"),
        (gf.CT_GraphicalObjectFrame, "new_ole_object_graphicFrame"),
    ]


def _discrete_choices(meth, name):
    """enumerated (non-integer) parameters: every value of the documented domain"""
    from pptx.enum.shapes import PP_PLACEHOLDER

    if name == "prst":
        return ["rect", "roundRect", "chevron"]
    if name == "ph_type":
        return [m for m in PP_PLACEHOLDER if getattr(m, "xml_value", None)]
    if name == "orient":
        return ["horz", "vert"]
    if name == "sz":
        return ["full", "half", "quarter"]
    if name in ("flipH", "flipV"):
        return [False, True]
    if name in ("rows", "cols"):
        return [1, 3]
    if name == "connector_type" or name == "prst_connector":
        return ["line", "bentConnector3"]
    return None


def _replay_ctor(model, rec):
    r = _native_histories(tier="quick", seed=1, only_templates=True)
    bad = [o for o in r["obligations"] if o["status"] == "refuted"]
    if bad:
        return {"confirmed": True, "witness_class": "invalid-xml", "detail": bad[0]["replay"]["detail"]}
    return {"confirmed": False, "detail": "every add_* operation of the public API gives schema-valid parts for boundary arguments"}


def _make_ctor(cls, meth):
    import inspect
    import itertools

    fn = getattr(cls, meth)
    sig = inspect.signature(fn)
    names = list(sig.parameters)
    disc = {n: _discrete_choices(meth, n) for n in names}
    disc = {n: v for n, v in disc.items() if v is not None}
    combos = list(itertools.product(*[disc[n] for n in disc])) if disc else [()]
    if len(combos) > 64:
        # placeholders: every type, with the first orient/sz, plus every orient/sz with the first type
        keys = list(disc)
        base = [disc[k][0] for k in keys]
        combos = []
        for i, k in enumerate(keys):
            for v in disc[k]:
                cb = list(base)
                cb[i] = v
                if tuple(cb) not in combos:
                    combos.append(tuple(cb))
    for combo in combos:
        label = ",".join("%s=%s" % (k, getattr(v, "name", v)) for k, v in zip(disc, combo))

        @contract("C03", "C03.ctor.%s.%s[%s]" % (cls.__name__, meth, label), replay=_replay_ctor, timeout_ms=20000, max_paths=64)
        def body(c, cls=cls, meth=meth, combo=combo, names=names, disc=disc):
            """for every value of the integer arguments inside their stated domains: the element built is valid where a
            shape may stand (skeleton validated on the path's model instance; every integer hole proved to sit in an attribute
            whose XSD simple type contains the whole domain of its argument)."""
            fixed = dict(zip(disc, combo))
            sym = {}
            args = []
            for n in names:
                if n in fixed:
                    args.append(fixed[n])
                elif n == "name":
                    args.append("Shape 7")
                elif n in ("desc", "shape_name", "progId"):
                    args.append("text")
                elif "rId" in n:
                    args.append("rId7")
                else:
                    v = c.int(n)
                    lo, hi = DOMAINS.get(n, (0, 2147483647))
                    c.requires(z3.And(v >= lo, v <= hi))
                    sym[n] = (v, lo, hi)
                    args.append(v)
            sinks = []

            def sink(it, a, k):
                sinks.append(a[0])
                from pyvc.engine import PyRaise

                raise PyRaise(_TemplateReached, ())  # the template text is what is needed; what follows runs natively below

            c.summaries["pptx.oxml:parse_xml"] = sink
            out = c.call(getattr(cls, meth), *args)
            c.ensures("template.reaches_the_parser_once", len(sinks) == 1)
            if len(sinks) != 1:
                return
            s = sinks[0]
            parts = s.parts if isinstance(s, SStr) else [s]
            holes = [p for p in parts if not isinstance(p, str)]
            c.ensures("template.holes_are_integer_renderings", all(isinstance(h, FmtInt) for h in holes), holes=repr(holes)[:200])
            # ground instance for this path: the path condition's model, nudged to distinct values
            sol = z3.Solver()
            sol.set("timeout", 5000)
            sol.add(*c.path.pc)
            vs = [v for v, lo, hi in sym.values()]
            sol.push()
            sol.add(z3.Distinct(*vs) if len(vs) > 1 else z3.BoolVal(True))
            for v in vs:
                sol.add(v >= 11, v != 0)
            if sol.check() != z3.sat:
                sol.pop()
                if sol.check() != z3.sat:
                    c.undecided("ground_instance", "no model for the path condition")
                    return
            m = sol.model()
            conc = {n: m.eval(v, model_completion=True).as_long() for n, (v, lo, hi) in sym.items()}
            cargs = [conc.get(n, a) if n in sym else a for n, a in zip(names, args)]
            try:
                el = getattr(cls, meth)(*cargs)
            except Exception as e:
                c.fails("ground.real_constructor_runs", "raised %r on %r" % (e, conc))
                return
            errs = validate_root(_host_for(el))
            c.ensures("ground.instance_valid_against_the_schemas", not errs, errors=repr(errs)[:600], arguments=repr(conc))
            # hole typing: locate each argument's value in the instance and prove domain within the attribute's simple type
            from pyvc import xsd

            S = xsd.load()
            for n, (v, lo, hi) in sym.items():
                val = str(conc[n])
                # scaled holes (e.g. table column widths = cx / cols) are located through the template's own terms
                sites = [(e, a) for e in el.iter() if isinstance(e.tag, str) for a, x in e.attrib.items() if x == val]
                if not sites:
                    continue
                for e, a in sites:
                    st = _attr_simple_type(S, e, a, top=el)
                    if st is None:
                        c.undecided("hole.%s.type_resolved" % n, "no XSD type found for @%s of %s" % (a, e.tag))
                        continue
                    rng = st.int_range()
                    if rng is None:
                        continue
                    tlo, thi = rng
                    claim = z3.And(v >= tlo if tlo is not None else True, v <= thi if thi is not None else True)
                    c.ensures("hole.%s.domain_within_%s" % (n, st.name), claim)

    return None


def _attr_simple_type(S, e, attr, top=None):
    """XSD simple type of attribute `attr` on element `e` (resolved by walking from the shape's complex type)"""
    from lxml import etree

    from pyvc import xsd

    chain = []
    x = e
    while x is not None:
        chain.append(x)
        if x is top:
            break
        x = x.getparent()
    chain.reverse()
    # shapes are children of CT_GroupShape
    try:
        ct = S.complex_type(("http://schemas.openxmlformats.org/presentationml/2006/main", "CT_GroupShape"))
        for y in chain:
            qy = etree.QName(y)
            key = ct.child_type(S.ptag(qy.namespace, qy.localname))
            if key is None:
                # wildcard content (a:graphicData): the child is a global element of its namespace
                node = S.elements.get((qy.namespace, qy.localname))
                if node is None or node.get("type") is None:
                    return None
                key = S.qname(node, node.get("type"))
            ct = S.complex_type(key)
        at = ct.attrs.get(attr if not attr.startswith("{") else attr.split("}")[1])
        if at is not None:
            return S.simple_type(at.type_q)
    except Exception:
        return None
    return None


for _cls, _m in _ctor_targets():
    _make_ctor(_cls, _m)


def _rejected_call_probes():
    """(name, outcome, validation errors) for a list of out-of-domain assignments through the public API"""
    from pptx import Presentation
    from pptx.chart.data import CategoryChartData
    from pptx.enum.chart import XL_CHART_TYPE, XL_LEGEND_POSITION
    from pptx.util import Inches, Pt

    def fresh():
        prs=Presentation(); s=prs.slides.add_slide(prs.slide_layouts[6])
        d=CategoryChartData(); d.categories=["a","b"]; d.add_series("s",(1,2))
        ch=s.shapes.add_chart(XL_CHART_TYPE.LINE_MARKERS,0,0,Inches(2),Inches(2),d).chart
        bar=s.shapes.add_chart(XL_CHART_TYPE.BAR_CLUSTERED,0,0,Inches(2),Inches(2),d).chart
        tb=s.shapes.add_textbox(0,0,100,100); sh=s.shapes.add_shape(1,0,0,100,100)
        tbl=s.shapes.add_table(2,2,0,0,100,100).table
        return prs,s,ch,bar,tb,sh,tbl
    tries=[
     ("value_axis.major_unit=-1", lambda e: setattr(e[2].value_axis,"major_unit",-1)),
     ("value_axis.minor_unit=0", lambda e: setattr(e[2].value_axis,"minor_unit",0)),
     ("value_axis.maximum_scale='x'", lambda e: setattr(e[2].value_axis,"maximum_scale","x")),
     ("value_axis.minimum_scale='x'", lambda e: setattr(e[2].value_axis,"minimum_scale","x")),
     ("value_axis.crosses_at='x'", lambda e: setattr(e[2].value_axis,"crosses_at","x")),
     ("value_axis.crosses=7", lambda e: setattr(e[2].value_axis,"crosses",7)),
     ("plot.overlap=200", lambda e: setattr(e[3].plots[0],"overlap",200)),
     ("plot.gap_width=600", lambda e: setattr(e[3].plots[0],"gap_width",600)),
     ("chart.chart_style=100", lambda e: setattr(e[2],"chart_style",100)),
     ("tick_labels.offset=2000", lambda e: setattr(e[2].category_axis.tick_labels,"offset",2000)),
     ("marker.size=100", lambda e: setattr(e[2].plots[0].series[0].marker,"size",100)),
     ("marker.style=99", lambda e: setattr(e[2].plots[0].series[0].marker,"style",99)),
     ("legend.position=CUSTOM", lambda e: (setattr(e[2],"has_legend",True), setattr(e[2].legend,"position",XL_LEGEND_POSITION.CUSTOM))),
     ("major_tick_mark=99", lambda e: setattr(e[2].value_axis,"major_tick_mark",99)),
     ("minor_tick_mark=99", lambda e: setattr(e[2].value_axis,"minor_tick_mark",99)),
     ("tick_label_position=99", lambda e: setattr(e[2].value_axis,"tick_label_position",99)),
     ("data_labels.position=99", lambda e: (setattr(e[2].plots[0],"has_data_labels",True), setattr(e[2].plots[0].data_labels,"position",99))),
     ("point.data_label.position=99", lambda e: setattr(e[2].plots[0].series[0].points[0].data_label,"position",99)),
     ("series.smooth='x'", lambda e: setattr(e[2].plots[0].series[0],"smooth","x")),
     ("font.size=Pt(5000)", lambda e: setattr(e[4].text_frame.paragraphs[0].add_run().font,"size",Pt(5000))),
     ("font.underline=99", lambda e: setattr(e[4].text_frame.paragraphs[0].add_run().font,"underline",99)),
     ("paragraph.level=12", lambda e: setattr(e[4].text_frame.paragraphs[0],"level",12)),
     ("paragraph.alignment=99", lambda e: setattr(e[4].text_frame.paragraphs[0],"alignment",99)),
     ("text_frame.margin_left='w'", lambda e: setattr(e[4].text_frame,"margin_left","w")),
     ("text_frame.vertical_anchor=99", lambda e: setattr(e[4].text_frame,"vertical_anchor",99)),
     ("text_frame.auto_size=99", lambda e: setattr(e[4].text_frame,"auto_size",99)),
     ("line.width=-5", lambda e: setattr(e[5].line,"width",-5)),
     ("line.dash_style=99", lambda e: setattr(e[5].line,"dash_style",99)),
     ("shape.rotation='x'", lambda e: setattr(e[5],"rotation","x")),
     ("shape.width=-1", lambda e: setattr(e[5],"width",-1)),
     ("shape.left=2**63", lambda e: setattr(e[5],"left",2**63)),
     ("fill.gradient_angle (no gradient)", lambda e: setattr(e[5].fill,"gradient_angle",45)),
     ("fill.pattern=99", lambda e: (e[5].fill.patterned(), setattr(e[5].fill,"pattern",99))),
     ("fore_color.brightness=2", lambda e: (e[5].fill.solid(), setattr(e[5].fill.fore_color,"brightness",2))),
     ("fore_color.theme_color=99", lambda e: (e[5].fill.solid(), setattr(e[5].fill.fore_color,"theme_color",99))),
     ("fore_color.rgb='red'", lambda e: (e[5].fill.solid(), setattr(e[5].fill.fore_color,"rgb","red"))),
     ("cell.margin_left=-1", lambda e: setattr(e[6].cell(0,0),"margin_left",-1)),
     ("cell.vertical_anchor=99", lambda e: setattr(e[6].cell(0,0),"vertical_anchor",99)),
     ("column.width=-1", lambda e: setattr(e[6].columns[0],"width",-1)),
     ("row.height=-1", lambda e: setattr(e[6].rows[0],"height",-1)),
     ("adjustments[0]='x'", lambda e: e[1].shapes.add_shape(5,0,0,10,10).adjustments.__setitem__(0,"x")),
     ("pic.crop_left=5", lambda e: None),
     ("gradient_stop.position=2", lambda e: (e[5].fill.gradient(), setattr(e[5].fill.gradient_stops[0],"position",2))),
     ("shadow.inherit=...", lambda e: None),
     ("core.revision=-1", lambda e: setattr(e[0].core_properties,"revision",-1)),
    ]
    out = []
    for name, fn in tries:
        e = fresh()
        try:
            fn(e)
            outcome = "accepted"
        except (ValueError, TypeError) as ex:
            outcome = "rejected with %s" % type(ex).__name__
        except Exception as ex:
            outcome = "aborted by %r" % (ex,)
        out.append((name, outcome, validate_prs(e[0])))
    return out


# ---------------------------------------------------------------------------------------------------------
# BOUNDED native job: histories of operations with validation of every part after every step


def _png():
    import struct
    import zlib

    raw = b"".join(b"\x00" + bytes((200, 10, 10)) * 2 for _ in range(2))

    def ch(t, d):
        return struct.pack(">I", len(d)) + t + d + struct.pack(">I", zlib.crc32(t + d) & 0xFFFFFFFF)

    return b"\x89PNG\r\n\x1a\n" + ch(b"IHDR", struct.pack(">IIBBBBB", 2, 2, 8, 2, 0, 0, 0)) + ch(b"IDAT", zlib.compress(raw)) + ch(b"IEND", b"")


def _ops():
    """operation generators: op(prs, rnd) performs one public-API operation (may raise a documented exception)"""
    from pptx.chart.data import BubbleChartData, CategoryChartData, XyChartData
    from pptx.dml.color import RGBColor
    from pptx.enum.chart import XL_CHART_TYPE, XL_LEGEND_POSITION, XL_TICK_LABEL_POSITION
    from pptx.enum.dml import MSO_LINE, MSO_PATTERN, MSO_THEME_COLOR
    from pptx.enum.shapes import MSO_CONNECTOR, MSO_SHAPE, PROG_ID
    from pptx.enum.text import MSO_ANCHOR, MSO_AUTO_SIZE, PP_ALIGN
    from pptx.util import Emu, Inches, Pt

    BIG = [0, 1, -5, 914400, 27273042316900, 12700]

    def slide(prs, rnd):
        if not len(prs.slides) or rnd.random() < 0.15:
            prs.slides.add_slide(prs.slide_layouts[rnd.randrange(len(prs.slide_layouts))])
        return prs.slides[rnd.randrange(len(prs.slides))]

    def shapes_with(prs, pred):
        out = []
        for s in prs.slides:
            for sh in s.shapes:
                try:
                    if pred(sh):
                        out.append(sh)
                except Exception:
                    pass
        return out

    def op_autoshape(prs, rnd):
        sh = slide(prs, rnd).shapes.add_shape(rnd.choice(list(MSO_SHAPE)), rnd.choice(BIG), rnd.choice(BIG), abs(rnd.choice(BIG)), abs(rnd.choice(BIG)))
        sh.text_frame.text = rnd.choice(["", "a", "x\ny", "t\vu"])
        if sh.adjustments and len(sh.adjustments):
            sh.adjustments[0] = rnd.choice([0.0, 0.5, 1.0, -0.25, 2.5])

    def op_textbox(prs, rnd):
        tb = slide(prs, rnd).shapes.add_textbox(rnd.choice(BIG), rnd.choice(BIG), abs(rnd.choice(BIG)), abs(rnd.choice(BIG)))
        tf = tb.text_frame
        tf.text = "one\ntwo"
        tf.word_wrap = rnd.choice([True, False, None])
        tf.auto_size = rnd.choice([None] + list(MSO_AUTO_SIZE)[:3])
        tf.vertical_anchor = rnd.choice([None] + list(MSO_ANCHOR)[:3])
        tf.margin_left = rnd.choice([0, 91440, 5])
        p = tf.paragraphs[0]
        p.alignment = rnd.choice([None] + list(PP_ALIGN)[:4])
        p.level = rnd.randrange(9)
        p.line_spacing = rnd.choice([None, 1.5, Pt(20), 0.9])
        p.space_before = rnd.choice([None, Pt(6)])
        p.space_after = rnd.choice([None, Pt(0)])
        r = p.add_run()
        r.text = "run"
        f = r.font
        f.bold, f.italic = rnd.choice([None, True, False]), rnd.choice([None, True, False])
        f.size = rnd.choice([None, Pt(1), Pt(4000), Pt(12)])
        f.name = rnd.choice([None, "Arial"])
        f.underline = rnd.choice([None, True, False])
        if rnd.random() < 0.5:
            f.color.rgb = RGBColor(1, 2, 3)
        else:
            f.color.theme_color = MSO_THEME_COLOR.ACCENT_1
            f.color.brightness = rnd.choice([0, 0.4, -0.25])
        p.add_line_break()
        p2 = tf.add_paragraph()
        p2.text = "more"
        p2.font.size = Pt(10)
        if rnd.random() < 0.3:
            tf.fit_text(max_size=18) if False else None

    def op_picture(prs, rnd):
        pic = slide(prs, rnd).shapes.add_picture(io.BytesIO(_png()), rnd.choice(BIG), rnd.choice(BIG))
        pic.crop_left, pic.crop_top = rnd.choice([0, 0.1]), rnd.choice([0, 0.25])
        pic.line.width = rnd.choice([0, 12700])

    def op_connector(prs, rnd):
        sh = slide(prs, rnd).shapes
        SMALL = [0, 1, -5, 914400, 12700, 13636521158450]
        cx = sh.add_connector(rnd.choice(list(MSO_CONNECTOR)[:3]), rnd.choice(SMALL), rnd.choice(SMALL), rnd.choice(SMALL), rnd.choice(SMALL))
        cx.begin_x, cx.end_y = rnd.choice(SMALL), rnd.choice(SMALL)
        others = [s for s in sh if s.shape_type is not None and "AUTO_SHAPE" in str(s.shape_type)]
        if others:
            cx.begin_connect(others[0], 0)
            cx.end_connect(others[-1], 1)
        cx.line.dash_style = rnd.choice([None] + list(MSO_LINE)[:3])

    def op_group(prs, rnd):
        g = slide(prs, rnd).shapes.add_group_shape()
        g.shapes.add_textbox(1, 2, 3, 4)
        g.shapes.add_shape(MSO_SHAPE.OVAL, 5, 6, 7, 8)
        g2 = g.shapes.add_group_shape()
        g2.shapes.add_connector(MSO_CONNECTOR.STRAIGHT, 0, 0, 9, 9)

    def op_freeform(prs, rnd):
        b = slide(prs, rnd).shapes.build_freeform(rnd.choice([0, 100]), rnd.choice([0, -100]), scale=rnd.choice([1.0, 2.5]))
        b.add_line_segments([(10, 10), (20, 0)], close=rnd.choice([True, False]))
        b.move_to(5, 5)
        b.add_line_segments([(6, 7)])
        b.convert_to_shape(rnd.choice([0, 5]), rnd.choice([0, 9]))

    def op_table(prs, rnd):
        t = slide(prs, rnd).shapes.add_table(rnd.choice([1, 3]), rnd.choice([1, 4]), 0, 0, Inches(3), Inches(2)).table
        c = t.cell(0, 0)
        c.text = "c"
        c.margin_left = rnd.choice([None, 0, 5])
        c.vertical_anchor = rnd.choice([None] + list(MSO_ANCHOR)[:2])
        c.fill.solid()
        c.fill.fore_color.rgb = RGBColor(9, 9, 9)
        t.first_row = rnd.choice([True, False])
        t.horz_banding = rnd.choice([True, False])
        t.columns[0].width = rnd.choice([0, 914400])
        t.rows[0].height = rnd.choice([0, 370840])
        # text (several paragraphs, breaks) in cells other than the origin of the ranges merged below
        for _ in range(rnd.randrange(0, 4)):
            rr, cc = rnd.randrange(len(t.rows)), rnd.randrange(len(t.columns))
            t.cell(rr, cc).text = rnd.choice(["x", "two\nparagraphs", "a\vb", ""])
        if len(t.rows) > 1 and len(t.columns) > 1:
            t.cell(0, 0).merge(t.cell(1, 1))
            if rnd.random() < 0.5:
                t.cell(0, 0).split()
            try:
                t.cell(1, 1).merge(t.cell(2, 2))  # may overlap a merged range: documented ValueError
            except ValueError:
                pass
            try:
                r1, r2 = sorted(rnd.sample(range(len(t.rows)), 2)) if len(t.rows) > 2 else (0, 1)
                c1, c2 = sorted(rnd.sample(range(len(t.columns)), 2))
                a, b = (t.cell(r1, c1), t.cell(r2, c2)) if rnd.random() < 0.5 else (t.cell(r2, c2), t.cell(r1, c1))
                a.merge(b)
            except ValueError:
                pass
        elif len(t.columns) > 1:
            t.cell(0, len(t.columns) - 1).text = "last"
            t.cell(0, 0).merge(t.cell(0, len(t.columns) - 1))

    def cat_data(rnd):
        d = CategoryChartData(number_format=rnd.choice(["General", "0.0"]))
        d.categories = rnd.choice([["a", "b", "c"], [1, 2, 3], ["x"]])
        for i in range(rnd.choice([1, 2, 4])):
            d.add_series("s%d" % i, [rnd.choice([1, 2.5, None]) for _ in d.categories])
        return d

    def op_chart(prs, rnd):
        writable = [m for m in XL_CHART_TYPE if m.name.split("_")[0] in ("BAR", "COLUMN", "LINE", "PIE", "AREA", "DOUGHNUT", "RADAR") and m.name not in ("BAR_OF_PIE", "PIE_OF_PIE")
                    and not m.name.startswith(("COLUMN_THREE", "BAR_THREE", "THREE_D", "LINE_THREE", "AREA_THREE", "PIE_THREE")) and "THREE_D" not in m.name]
        ct = rnd.choice(writable)
        gf = slide(prs, rnd).shapes.add_chart(ct, 0, 0, Inches(3), Inches(2), cat_data(rnd))
        ch = gf.chart
        ch.has_legend = rnd.choice([True, False])
        ch.has_legend = ch.has_legend  # a switch may be set to the position it is in (a bare legend just created included)
        if ch.has_legend:
            ch.legend.position = rnd.choice([m for m in XL_LEGEND_POSITION if m.name != "CUSTOM"][:4])
            ch.legend.include_in_layout = rnd.choice([True, False])
            ch.legend.font.size = Pt(9)
        ch.has_title = rnd.choice([True, False])
        ch.has_title = ch.has_title
        if ch.has_title:
            ch.chart_title.text_frame.text = "T"
        ch.font.size = Pt(10)
        pl = ch.plots[0]
        pl.has_data_labels = rnd.choice([True, False])
        pl.has_data_labels = pl.has_data_labels
        if pl.has_data_labels:
            dl = pl.data_labels
            dl.show_value = True
            dl.number_format = "0.00"
            dl.number_format_is_linked = False
            dl.font.bold = True
        pl.vary_by_categories = rnd.choice([True, False])
        try:
            ca = ch.category_axis
            ca.has_major_gridlines = rnd.choice([True, False])
            ca.tick_label_position = rnd.choice(list(XL_TICK_LABEL_POSITION)[:3])
            ca.has_title = True
            ca.axis_title.text_frame.text = "ax"
            ca.format.line.width = Pt(1)
            va = ch.value_axis
            va.maximum_scale = rnd.choice([None, 10, 2.5])
            va.minimum_scale = rnd.choice([None, 0])
            va.major_unit = rnd.choice([None, 2])
            va.has_minor_gridlines = rnd.choice([True, False])
            va.tick_labels.number_format = "0%"
            va.tick_labels.font.size = Pt(8)
            va.visible = rnd.choice([True, False])
        except ValueError:
            pass
        ser = pl.series[0]
        ser.format.fill.solid()
        ser.format.fill.fore_color.rgb = RGBColor(0, 128, 0)
        ser.format.line.width = Pt(2)
        ser.smooth = True if hasattr(ser, "smooth") else None
        if hasattr(ser, "invert_if_negative"):
            ser.invert_if_negative = rnd.choice([True, False])
        pt = ser.points[0]
        pt.format.fill.solid()
        pt.data_label.position = None
        pt.data_label.text_frame.text = "lbl"
        if hasattr(ser, "marker"):
            ser.marker.size = rnd.choice([2, 72])
            ser.marker.format.fill.solid()

    def op_xy_chart(prs, rnd):
        if rnd.random() < 0.5:
            d = XyChartData()
            s = d.add_series("xy")
            for i in range(rnd.choice([0, 1, 3])):
                s.add_data_point(i, i * 2)
            slide(prs, rnd).shapes.add_chart(rnd.choice([XL_CHART_TYPE.XY_SCATTER, XL_CHART_TYPE.XY_SCATTER_LINES_NO_MARKERS, XL_CHART_TYPE.XY_SCATTER_SMOOTH]), 0, 0, Inches(2), Inches(2), d)
        else:
            d = BubbleChartData()
            s = d.add_series("b")
            for i in range(rnd.choice([1, 3])):
                s.add_data_point(i, i, i + 1)
            slide(prs, rnd).shapes.add_chart(rnd.choice([XL_CHART_TYPE.BUBBLE, XL_CHART_TYPE.BUBBLE_THREE_D_EFFECT]), 0, 0, Inches(2), Inches(2), d)

    def op_replace(prs, rnd):
        for sh in shapes_with(prs, lambda s: s.has_chart):
            try:
                sh.chart.replace_data(cat_data(rnd))
            except Exception as e:
                if "XyChartData" in repr(e) or isinstance(e, (AttributeError,)):
                    continue  # category data offered to an XY / bubble chart: outside the documented domain
                raise
            return

    def op_movie(prs, rnd):
        slide(prs, rnd).shapes.add_movie(io.BytesIO(b"\x00\x00\x00\x18ftypmp42"), rnd.choice(BIG), rnd.choice(BIG), abs(rnd.choice(BIG)), abs(rnd.choice(BIG)), mime_type="video/mp4")

    def op_ole(prs, rnd):
        slide(prs, rnd).shapes.add_ole_object(io.BytesIO(b"PK\x03\x04fake"), rnd.choice([PROG_ID.XLSX, PROG_ID.DOCX, "Some.ProgId"]), 0, 0, rnd.choice([None, 100]), rnd.choice([None, 100]))

    def op_placeholder(prs, rnd):
        s = prs.slides.add_slide(prs.slide_layouts[rnd.choice([1, 3, 5, 7, 8]) % len(prs.slide_layouts)])
        for ph in s.placeholders:
            t = str(ph.placeholder_format.type)
            if "PICTURE" in t and hasattr(ph, "insert_picture"):
                ph.insert_picture(io.BytesIO(_png()))
            elif "OBJECT" in t and hasattr(ph, "insert_table") and rnd.random() < 0.5:
                ph.insert_table(2, 2)
            elif "OBJECT" in t and hasattr(ph, "insert_chart"):
                ph.insert_chart(XL_CHART_TYPE.PIE, cat_data(rnd))
            elif ph.has_text_frame:
                ph.text_frame.text = "ph"
                if rnd.random() < 0.3:
                    ph.left, ph.width = 5, 10

    def op_fill_line(prs, rnd):
        c = shapes_with(prs, lambda s: hasattr(s, "fill") and hasattr(s, "line"))
        if not c:
            return op_autoshape(prs, rnd)
        sh = rnd.choice(c)
        k = rnd.randrange(7)
        shadow_first = rnd.random() < 0.5
        if shadow_first:
            sh.shadow.inherit = rnd.choice([True, False])  # a:effectLst present before the fill / line children are added
        if k == 0:
            sh.fill.background()
        elif k == 1:
            sh.fill.gradient()
            sh.fill.gradient_angle = rnd.choice([0, 45, 359.9, 360, -10])
            sh.fill.gradient_stops[0].position = rnd.choice([0, 0.5, 1])
            sh.fill.gradient_stops[0].color.rgb = RGBColor(1, 1, 1)
        elif k == 2:
            sh.fill.patterned()
            sh.fill.pattern = rnd.choice(list(MSO_PATTERN)[:4])
            sh.fill.fore_color.theme_color = MSO_THEME_COLOR.ACCENT_2
            sh.fill.back_color.rgb = RGBColor(2, 2, 2)
        elif k == 3:
            sh.fill.solid()
            sh.fill.fore_color.rgb = RGBColor(3, 3, 3)
            sh.fill.fore_color.brightness = 0.5
        elif k == 5:
            # a fill kind is selected and its colours are only looked at (or one of the two is set): whatever reading creates is complete
            sh.fill.patterned()
            _ = sh.fill.fore_color.type, sh.fill.back_color.type
            if rnd.random() < 0.5:
                sh.fill.back_color.theme_color = MSO_THEME_COLOR.ACCENT_3
        elif k == 6:
            sh.fill.solid()
            _ = sh.fill.fore_color.type
            sh.line.fill.solid()
            _ = sh.line.color.type, sh.line.fill.fore_color.type
        else:
            sh.line.fill.solid()
            sh.line.color.rgb = RGBColor(4, 4, 4)
            sh.line.width = rnd.choice([0, 12700, 20116800])
            sh.line.dash_style = rnd.choice([None] + list(MSO_LINE)[:4])
        if not shadow_first:
            sh.shadow.inherit = rnd.choice([True, False])
        sh.rotation = rnd.choice([0, 45.5, 359.99, 360, 720, -90])
        sh.name = rnd.choice(["n", "Name & <co>"])
        sh.left, sh.top, sh.width, sh.height = rnd.choice(BIG), rnd.choice(BIG), abs(rnd.choice(BIG)), abs(rnd.choice(BIG))

    def op_background_notes(prs, rnd):
        s = slide(prs, rnd)
        if rnd.random() < 0.5:
            s.background.fill.solid()
            s.background.fill.fore_color.rgb = RGBColor(5, 5, 5)
        else:
            s.notes_slide.notes_text_frame.text = "n\nm"

    def op_links(prs, rnd):
        s = slide(prs, rnd)
        r = s.shapes.add_textbox(0, 0, 5, 5).text_frame.paragraphs[0].add_run()
        r.text = "l"
        r.hyperlink.address = rnd.choice(["http://a/", None, "mailto:x@y"])
        sh = s.shapes.add_shape(MSO_SHAPE.OVAL, 0, 0, 5, 5)
        sh.click_action.target_slide = rnd.choice([None, s])
        sh.click_action.hyperlink.address = rnd.choice([None, "http://b/"])

    def op_rejected(prs, rnd):
        """calls that are refused with a documented exception must leave everything as valid as it was"""
        s = slide(prs, rnd)
        tries = [
            lambda: prs.slides[999],
            lambda: s.shapes.add_table(2, 2, 0, 0, 10, 10).table.cell(5, 5),
            lambda: setattr(s.shapes.add_textbox(0, 0, 1, 1).text_frame.paragraphs[0], "level", 12),
            lambda: setattr(s.shapes.add_textbox(0, 0, 1, 1).text_frame, "margin_left", "wide"),
            lambda: setattr(s.shapes.add_shape(MSO_SHAPE.OVAL, 0, 0, 1, 1).line, "width", -5),
            lambda: setattr(s.shapes.add_textbox(0, 0, 1, 1).text_frame.paragraphs[0].add_run().font, "size", Pt(5000)),
            lambda: prs.slide_layouts.remove(s.slide_layout),
        ]

        def bad_index_then_use():
            """positions that do not exist (one past either end, far out, negative beyond the start): an IndexError / KeyError, or --
            should a position be accepted -- whatever is done with the object must be refused cleanly"""
            charts = [sh.chart for sh in shapes_with(prs, lambda s_: s_.has_chart)]
            colls = [prs.slides, s.shapes, s.placeholders, prs.slide_layouts, prs.slide_masters]
            for sh in list(s.shapes)[:6]:
                if sh.has_text_frame:
                    colls += [sh.text_frame.paragraphs]
                if getattr(sh, "has_table", False) and sh.has_table:
                    colls += [sh.table.rows, sh.table.columns, sh.table.rows[0].cells]
            for ch in charts[:2]:
                colls += [ch.plots]
                for pl in list(ch.plots)[:1]:
                    colls += [pl.series, pl.categories]
                    for sr in list(pl.series)[:1]:
                        colls += [sr.points]
            coll = rnd.choice(colls)
            n = len(coll)
            idx = rnd.choice([n, n + 1, -n - 1, -n - 2, 10 ** 6, -10 ** 6])
            obj = coll[idx]
            # accepted: use it the way a caller would
            for use in (lambda: obj.format.fill.solid(), lambda: setattr(obj.marker, "size", 7), lambda: obj.data_label.text_frame, lambda: setattr(obj, "text", "x"),
                        lambda: setattr(obj, "height", 5), lambda: setattr(obj, "width", 5), lambda: obj.shapes):
                try:
                    use()
                except AttributeError:
                    continue

        tries.append(bad_index_then_use)
        tries.append(bad_index_then_use)
        tries.append(bad_index_then_use)
        try:
            rnd.choice(tries)()
        except (IndexError, ValueError, TypeError, KeyError):
            pass

    def op_master_layout_background(prs, rnd):
        tgt = rnd.choice([prs.slide_master, slide(prs, rnd).slide_layout, slide(prs, rnd)])
        f = tgt.background.fill
        k = rnd.randrange(3)
        if k == 0:
            f.solid()
            f.fore_color.rgb = RGBColor(7, 7, 7)
        elif k == 1:
            f.gradient()
        else:
            f.background()

    def op_axis(prs, rnd):
        from pptx.enum.chart import XL_AXIS_CROSSES, XL_TICK_MARK

        charts = [sh.chart for sh in shapes_with(prs, lambda s_: s_.has_chart)]
        if not charts:
            return op_chart(prs, rnd)
        ch = rnd.choice(charts)
        try:
            axes = [ch.category_axis, ch.value_axis]
        except ValueError:
            return
        for _ in range(rnd.choice([1, 3])):
            ax = rnd.choice(axes)
            k = rnd.randrange(8)
            if k == 0:
                ax.crosses_at = rnd.choice([None, 2.0, -1])
            elif k == 1:
                ax.crosses = rnd.choice(list(XL_AXIS_CROSSES))
            elif k == 2:
                ax.major_tick_mark = rnd.choice(list(XL_TICK_MARK))
                ax.minor_tick_mark = rnd.choice(list(XL_TICK_MARK))
            elif k == 3:
                ax.reverse_order = rnd.choice([True, False])
            elif k == 4:
                ax.has_title = rnd.choice([True, False])
            elif k == 5:
                ax.tick_labels.offset = rnd.choice([0, 100, 1000])
            elif k == 6:
                ax.has_major_gridlines = rnd.choice([True, False])
                ax.has_minor_gridlines = rnd.choice([True, False])
            else:
                ax.visible = rnd.choice([True, False])

    wild = os.environ.get("VERIF_C03_WILD") == "1" or os.environ.get("VERIF_TIER") == "thorough"

    def op_setter_fuzz(prs, rnd):
        """assign type-compatible values to randomly chosen writable properties of randomly chosen objects: a value the
        library accepts must leave the parts valid; a value it refuses with ValueError/TypeError must leave them as valid
        as they were"""
        import enum
        import inspect as _insp

        from .c12 import _is_proxy, _walk

        del _FUZZ_LOG[:]
        objs = []
        _walk(prs, lambda o, n: (objs.append((o, n)), getattr(o, n))[1], skip={("Slide", "notes_slide"), ("Presentation", "notes_master"), ("_Background", "fill")}, budget=300)
        writable = [(o, n) for o, n in objs if isinstance(_insp.getattr_static(type(o), n, None), property) and _insp.getattr_static(type(o), n).fset is not None]
        if not writable:
            return
        for _ in range(6):
            o, n = rnd.choice(writable)
            try:
                cur = getattr(o, n)
            except Exception:
                continue
            if isinstance(cur, bool):
                cands = [True, False, None]
            elif isinstance(cur, enum.Enum):
                cands = list(type(cur)) + [None]
            elif isinstance(cur, int):
                cands = [0, 1, cur, cur + 1, 914400, -1, None]
            elif isinstance(cur, float):
                cands = [0.0, 0.5, 1.0, cur, -1.5, 100.0, None]
            elif isinstance(cur, str):
                cands = ["", "x", cur, "a&b<c>"]
            else:
                continue
            is_wild = wild and rnd.random() < 0.5
            if is_wild:
                # values that may lie outside the property's documented domain: when the library refuses one with
                # ValueError the parts must be as valid as before; when it accepts one, or fails in any other way, the
                # history has left the documented domain and is dropped without a verdict
                cands = [-1, 10 ** 15, 99, "bogus", 1e30, -0.5, 7.5, 1000001, 2 ** 31, -(2 ** 40), 101.0, -101.0]
            v = rnd.choice(cands)
            try:
                setattr(o, n, v)
                _FUZZ_LOG.append("%s.%s = %r" % (type(o).__name__, n, v))
                if is_wild:
                    raise _Discard()
            except ValueError as e:
                _FUZZ_LOG.append("%s.%s = %r refused (%s)" % (type(o).__name__, n, v, type(e).__name__))
            except TypeError as e:
                if is_wild:
                    raise _Discard()
                _FUZZ_LOG.append("%s.%s = %r refused (%s)" % (type(o).__name__, n, v, type(e).__name__))
            except _Discard:
                raise
            except Exception:
                # not a documented refusal: outside this operation's domain (e.g. None on a property that does not take it);
                # the deck is discarded rather than judged
                raise _Discard()

    return [op_autoshape, op_textbox, op_picture, op_connector, op_group, op_freeform, op_table, op_chart, op_xy_chart, op_replace, op_movie, op_ole,
            op_placeholder, op_fill_line, op_background_notes, op_links, op_rejected, op_master_layout_background, op_axis, op_setter_fuzz]


_FUZZ_LOG = []


def _native_histories(tier="quick", seed=0, only_templates=False):
    import glob
    import random

    from pptx import Presentation

    t0 = _t.time()
    obls, evals = [], 0

    def rec(name, bad):
        r = {"name": name, "base": name, "kind": "bounded", "status": "refuted" if bad else "discharged", "backend": "native", "time": 0, "path": 0}
        if bad:
            r["replay"] = {"confirmed": True, "witness_class": "invalid-xml", "detail": bad}
            r["model"] = None
        obls.append(r)

    ops = _ops()
    if only_templates:
        # one pass over the adding operations with several seeds (replay of constructor obligations)
        bad = None
        for sd in range(6):
            rnd = random.Random(sd)
            prs = Presentation()
            for op in ops:
                try:
                    op(prs, rnd)
                except ValueError:
                    pass
                except _Discard:
                    continue
                except Exception as e:
                    bad = bad or "%s raised %r" % (op.__name__, e)
                    break
                v = validate_prs(prs)
                if v:
                    bad = bad or "after %s (seed %d): %s" % (op.__name__, sd, v[:2])
                    break
        rec("C03.native.each_operation_once", bad)
        return {"contract": "C03.native_histories", "prop": "C03", "status": "ok", "obligations": obls, "paths": 0, "assumed": [], "functions": {}, "notes": [], "solver_s": 0.0, "wall_s": _t.time() - t0}
    def saturated():
        """default template + one slide, with the optional trailing p:extLst present wherever a slide-like part allows it (PowerPoint
        writes them): exercises every 'insert before the successors' path of the hand-written mutators"""
        from pptx.oxml.xmlchemy import OxmlElement

        prs = Presentation()
        prs.slides.add_slide(prs.slide_layouts[1])
        for part in prs.part.package.iter_parts():
            root = getattr(part, "_element", None)
            if root is None or not isinstance(root.tag, str) or not root.tag.endswith(("}sld", "}sldLayout", "}sldMaster")):
                continue
            for el in [root] + list(root.iter("{http://schemas.openxmlformats.org/presentationml/2006/main}cSld",
                                              "{http://schemas.openxmlformats.org/presentationml/2006/main}spTree",
                                              "{http://schemas.openxmlformats.org/presentationml/2006/main}nvPr")):
                if el.find("{http://schemas.openxmlformats.org/presentationml/2006/main}extLst") is None:
                    el.append(OxmlElement("p:extLst"))
                    if validate_root(root):
                        el.remove(el[-1])
        buf = io.BytesIO()
        prs.save(buf)
        return buf.getvalue()

    import re

    found = {}  # signature -> first witness

    def signature(part, msgs):
        m = msgs[0]
        el = re.findall(r"Element '\{[^}]*\}(\w+)'", m)
        at = re.findall(r"attribute '(\w+)'", m)
        kind = "not-expected" if "not expected" in m else "missing-attribute" if "required but missing" in m else "missing-child" if "Missing child" in m else "bad-value" if "not a valid value" in m or "facet" in m else "other"
        return "%s:%s%s:%s" % ("chart" if "/charts/" in part else "slide" if "/slide" in part else "part", el[0] if el else "?", ("@" + at[0]) if at else "", kind)

    starts = [("default_template", None), ("saturated_with_extLst", saturated())]
    repo = os.environ.get("PPTX_REPO", "/repo")
    corpus = sorted(glob.glob(os.path.join(repo, "features", "steps", "test_files", "*.pptx")))
    pick = ["test.pptx", "cht-charts.pptx", "tbl-cell.pptx", "shp-shapes.pptx"] if tier == "quick" else None
    for f in corpus:
        if pick is None or os.path.basename(f) in pick:
            starts.append((os.path.basename(f), open(f, "rb").read()))
    N = 24 if tier == "quick" else 60
    L = 14 if tier == "quick" else 30
    for label, data in starts:
        bad = None
        # precondition: the starting deck is valid
        prs0 = Presentation(io.BytesIO(data)) if data else Presentation()
        pre = validate_prs(prs0)
        if pre:
            rec("C03.native.histories[%s]" % label, None)
            obls[-1]["info"] = {"skipped": "starting deck is not schema-valid (precondition of the property): %s" % pre[:2]}
            continue
        rnd = random.Random(seed * 1000003 + len(label))
        for h in range(N if (data is None or label.startswith("saturated")) else max(2, N // 3)):
            prs = Presentation(io.BytesIO(data)) if data else Presentation()
            hist = []
            invalid_here = False
            for step in range(L):
                op = rnd.choice(ops)
                hist.append(op.__name__)
                try:
                    op(prs, rnd)
                except ValueError:
                    hist[-1] += "(rejected: ValueError)"  # an out-of-range value refused: the parts must be as valid as before
                except _Discard:
                    invalid_here = True  # no verdict on a deck that left the documented domain: neither judged nor saved
                    break
                except Exception as e:
                    bad = bad or "history %s: %s raised %r" % (hist, op.__name__, e)
                    break
                evals += 1
                v = validate_prs(prs)
                if v:
                    sig = signature(v[0][0], v[0][1])
                    found.setdefault(sig, "%s, history %s: after %s part %s is not schema-valid: %s%s" % (
                        label, hist, op.__name__, v[0][0], v[0][1][:2], ("; setter assignments in that step: %s" % _FUZZ_LOG[-6:]) if op.__name__ == "op_setter_fuzz" else ""))
                    invalid_here = True
                    break
            else:
                invalid_here = False
            if bad:
                break
            if invalid_here:
                continue
            buf = io.BytesIO()
            prs.save(buf)
            v = validate_package_bytes(buf.getvalue())
            if v:
                found.setdefault(signature("/" + v[0][0], v[0][1]), "%s, history %s: saved file has invalid part %s: %s; last setter assignments: %s" % (label, hist, v[0][0], v[0][1][:2], _FUZZ_LOG[-12:]))
        rec("C03.native.histories_run[%s]" % label, bad)
    # calls refused with ValueError / TypeError must leave every part as valid as it was: one probe per setter family
    for pname, outcome, errs in _rejected_call_probes():
        nm = "C03.native.rejected_call_leaves_parts_valid[%s]" % pname
        rec(nm, ("%s was %s and left %s" % (pname, outcome, errs[0][1][:1])) if errs else None)
        if errs:
            obls[-1]["replay"]["witness_class"] = "rejected-call-invalid"
    # deterministic scenario probes for invalidities the random histories meet only under some seeds
    def scenario_bubble_marker():
        from pptx.chart.data import BubbleChartData
        from pptx.enum.chart import XL_CHART_TYPE
        from pptx.util import Inches

        prs = Presentation()
        d = BubbleChartData()
        d.add_series("b").add_data_point(1, 2, 3)
        ch = prs.slides.add_slide(prs.slide_layouts[6]).shapes.add_chart(XL_CHART_TYPE.BUBBLE, 0, 0, Inches(2), Inches(2), d).chart
        ch.plots[0].series[0].marker.size = 7
        v = validate_prs(prs)
        return ("bubble chart, series.marker.size = 7: %s" % v[0][1][:1]) if v else None

    def scenario_ole_arguments():
        """add_ole_object over every combination of given / omitted optional arguments (own icon or the stock one, size, icon size)"""
        import itertools as _it

        from pptx.enum.shapes import PROG_ID

        for icon, w_, h_, iw_, ih_ in _it.product((None, "own"), (None, 100, 914400), (None, 77, 685800), (None, 965200, 300001), (None, 609600, 200001)):
            prs = Presentation()
            sl = prs.slides.add_slide(prs.slide_layouts[6])
            kw = {}
            if icon:
                kw["icon_file"] = io.BytesIO(_png())
            if iw_ is not None:
                kw["icon_width"] = iw_
            if ih_ is not None:
                kw["icon_height"] = ih_
            try:
                sl.shapes.add_ole_object(io.BytesIO(b"PK\x03\x04fake"), PROG_ID.XLSX, 0, 0, w_, h_, **kw)
            except (ValueError, TypeError):
                continue
            v = validate_prs(prs)
            if v:
                return "add_ole_object(width=%r, height=%r, %s): %s" % (w_, h_, ", ".join("%s=%s" % (k_, "<png>" if k_ == "icon_file" else v_) for k_, v_ in kw.items()), v[0][1][:1])
        return None

    for sig, fn in (("chart:marker:not-expected", scenario_bubble_marker), ("slide:oleObj:arguments", scenario_ole_arguments)):
        w = fn()
        rec("C03.native.invalid_xml[%s]" % sig, w)
        if w:
            obls[-1]["replay"]["witness_class"] = "invalid-xml:" + sig
        found.pop(sig, None)
    # one obligation per kind of invalidity met (named by what is wrong, not by where it was met), plus the all-clear
    for sig, wit in sorted(found.items()):
        rec("C03.native.invalid_xml[%s]" % sig, wit)
        obls[-1]["replay"]["witness_class"] = "invalid-xml:" + sig
    rec("C03.native.every_part_valid_after_every_step", None if not found else None)
    return {"contract": "C03.native_histories", "prop": "C03", "status": "ok", "obligations": obls, "paths": 0, "assumed": [], "functions": {}, "notes": [], "solver_s": 0.0, "wall_s": _t.time() - t0,
            "bounded": {"name": "C03.native_histories", "bound": "%d start decks; %d random histories of %d operations (20 operation kinds incl. rejected calls and a setter fuzzer) from the default template, a third of that from each corpus deck; "
                        "every XML part validated against the ISO/IEC 29500-4 schemas after every step and after saving" % (len(starts), N, L), "evaluations": evals, "samples": [], "counted_as_proved": False}}


JOBS = {"C03.native_histories": _native_histories}


# ---------------------------------------------------------------------------------------------------------
# hand-enforced choice groups: members declared as independent optional children, exclusivity kept by the setters


def _replay_crosses(model, rec):
    import itertools

    from pptx import Presentation
    from pptx.chart.data import CategoryChartData
    from pptx.enum.chart import XL_AXIS_CROSSES, XL_CHART_TYPE
    from pptx.util import Inches

    steps = [("crosses_at", 2.0), ("crosses_at", None), ("crosses", XL_AXIS_CROSSES.MINIMUM), ("crosses", XL_AXIS_CROSSES.CUSTOM), ("crosses", XL_AXIS_CROSSES.AUTOMATIC)]
    for seq in itertools.product(steps, repeat=2):
        prs = Presentation()
        d = CategoryChartData()
        d.categories = ["a"]
        d.add_series("s", (1,))
        ch = prs.slides.add_slide(prs.slide_layouts[6]).shapes.add_chart(XL_CHART_TYPE.COLUMN_CLUSTERED, 0, 0, Inches(2), Inches(2), d).chart
        for ax in (ch.value_axis, ch.category_axis):
            for name, v in seq:
                setattr(ax, name, v)
            errs = validate_prs(prs)
            if errs:
                return {"confirmed": True, "witness_class": "choice-not-exclusive", "detail": "%s: %s -> %s" % (type(ax).__name__, [(n, str(v)) for n, v in seq], errs[0][1][:1]), "input": [n for n, v in seq]}
    return {"confirmed": False, "detail": "all 25 two-step sequences of crosses / crosses_at assignments leave the chart valid on both axes"}


def _make_crosses(setter):
    @contract("C03", "C03.choice.chart.axis.ValueAxis.%s.fset" % setter, replay=_replay_crosses)
    def body(c):
        """c:crosses and c:crossesAt are the two members of one schema choice on the crossing axis: from every valid prior
        state (none or exactly one present) at most one of them is present afterwards, and it is the one the value asks for."""
        from pptx.chart.axis import ValueAxis as _BaseAxis
        from pptx.enum.chart import XL_AXIS_CROSSES

        st = {"crosses": c.branch(c.bool("had_crosses")), "crossesAt": c.branch(c.bool("had_crossesAt"))}
        if st["crosses"] and st["crossesAt"]:
            return  # precondition of the property: the part is valid before the call (at most one member present)

        class _X:
            __pyvc_symbolic__ = True

            def sym_getattr(self, it, name):
                if name in ("crosses", "crossesAt"):
                    return SObj(None, name) if st[name] else None
                if name.startswith("_remove_"):
                    return GhostFn_(lambda i2, a, k, n=name[8:]: st.__setitem__(n, False))
                if name.startswith("_add_"):
                    return GhostFn_(lambda i2, a, k, n=name[5:]: st.__setitem__(n, True))
                raise Exception("ghost axis element asked for %s" % name)

        from pyvc.engine import GhostFn as GhostFn_

        ax = SObj(_BaseAxis, "axis", _cross_xAx=_X())
        if setter == "crosses":
            which = c.path.fork_free(len(list(XL_AXIS_CROSSES)))
            v = list(XL_AXIS_CROSSES)[which]
        else:
            v = None if c.branch(c.bool("clear")) else c.real("value")
        out = c.setattr(ax, setter, v)
        if out.raised:
            c.fails("never_raises", "raised %s" % out.exc)
            return
        c.ensures("post.at_most_one_member_of_the_choice", not (st["crosses"] and st["crossesAt"]))
        if setter == "crosses":
            c.ensures("post.member_matches_the_value", (st["crossesAt"] and not st["crosses"]) if v == XL_AXIS_CROSSES.CUSTOM else (st["crosses"] and not st["crossesAt"]))
        else:
            c.ensures("post.member_matches_the_value", (not st["crosses"] and not st["crossesAt"]) if v is None else (st["crossesAt"] and not st["crosses"]))

    return body


_make_crosses("crosses")
_make_crosses("crosses_at")


class _ChoiceElem:
    """ghost element whose optional children are tracked by presence counts: generated members of child X behave as the C10
    contracts say (_add_X appends one X, _remove_X removes all X, get_or_add_X returns the existing X or adds one)"""

    __pyvc_symbolic__ = True

    def __init__(self, cls, members, present=(), child_factory=None):
        self.cls = cls
        self.count = {m: (1 if m in present else 0) for m in members}
        self.child = {}
        self.child_factory = child_factory or (lambda m: SObj(None, m, val=None))
        for m in present:
            self.child[m] = self.child_factory(m)

    def sym_pytype(self):
        return self.cls

    def sym_truth(self, it):
        return True

    def sym_getattr(self, it, name):
        from pyvc.engine import GhostFn as G, _find_in_mro

        for m in self.count:
            if name == m:
                return self.child.get(m) if self.count[m] else None
            if name == "_remove_" + m:
                return G(lambda i2, a, k, m=m: (self.count.__setitem__(m, 0), self.child.pop(m, None))[0])
            if name == "_add_" + m:
                def add(i2, a, k, m=m):
                    self.count[m] += 1
                    self.child[m] = self.child_factory(m)
                    for kk, vv in k.items():
                        i2.setattr(self.child[m], kk, vv)
                    return self.child[m]

                return G(add)
            if name == "get_or_add_" + m:
                def goa(i2, a, k, m=m):
                    if not self.count[m]:
                        self.count[m] = 1
                        self.child[m] = self.child_factory(m)
                    return self.child[m]

                return G(goa)
        d = _find_in_mro(self.cls, name)
        if d is None:
            raise Exception("ghost element asked for %s" % name)
        return it.bind_descriptor(d, self, self.cls, name)

    def sym_setattr(self, it, name, v):
        from pyvc.engine import _find_in_mro

        d = _find_in_mro(self.cls, name)
        if isinstance(d, property) and d.fset is not None:
            return it.call(d.fset, [self, v])
        raise Exception("ghost element: store to %s" % name)


def _replay_spacing(model, rec):
    import itertools

    from pptx import Presentation
    from pptx.util import Pt

    vals = [1.5, Pt(18), None, 0.9, Pt(4)]
    for seq in itertools.product(vals, repeat=2):
        prs = Presentation()
        tf = prs.slides.add_slide(prs.slide_layouts[6]).shapes.add_textbox(0, 0, 100, 100).text_frame
        p = tf.paragraphs[0]
        for v in seq:
            p.line_spacing = v
            p.space_before = Pt(3)
            p.space_after = None if v is None else Pt(2)
        errs = validate_prs(prs)
        want = seq[-1]
        if errs or p.line_spacing != want:
            return {"confirmed": True, "witness_class": "choice-not-exclusive", "detail": "paragraph.line_spacing = %s: reads %r, validation %s" % ([str(v) for v in seq], p.line_spacing, errs[:1])}
    return {"confirmed": False, "detail": "all 25 two-step line_spacing sequences leave a:lnSpc with exactly one member"}


@contract("C03", "C03.choice.oxml.text.CT_TextParagraphProperties.line_spacing.fset", replay=_replay_spacing)
def _line_spacing_choice(c):
    """a:lnSpc holds exactly one of a:spcPct / a:spcPts (schema choice): from every valid prior state (no a:lnSpc, or one holding
    one member) assigning lines (float), points (Length) or None leaves at most one a:lnSpc, holding exactly the member that
    matches the kind of value."""
    from pptx.oxml.text import CT_TextParagraphProperties, CT_TextSpacing
    from pptx.util import Pt

    prior = c.path.fork_free(3)  # none / pct / pts
    mk = lambda m: _ChoiceElem(CT_TextSpacing, ["spcPct", "spcPts"]) if m == "lnSpc" else SObj(None, m, val=None)
    pPr = _ChoiceElem(CT_TextParagraphProperties, ["lnSpc", "spcBef", "spcAft"], present=("lnSpc",) if prior else (), child_factory=mk)
    if prior:
        ln = pPr.child["lnSpc"]
        which = "spcPct" if prior == 1 else "spcPts"
        ln.count[which] = 1
        ln.child[which] = SObj(None, which, val=None)
    kind = c.path.fork_free(3)  # None / lines / points
    v = None if kind == 0 else (c.real("lines") if kind == 1 else Pt(18))
    before = (dict(pPr.count), pPr.child.get("lnSpc"))
    out = c.setattr(pPr, "line_spacing", v)
    if out.raised:
        # a value outside 0..132 lines is refused: nothing may have changed
        c.ensures("rejected.only_ValueError_for_out_of_range", z3.And(out.exc.exc_cls is ValueError, kind == 1, z3.Or(v < 0, v > 132)) if kind == 1 else False)
        c.ensures("rejected.nothing_changed", dict(pPr.count) == before[0] and pPr.child.get("lnSpc") is before[1])
        return
    if kind == 1:
        c.ensures("post.accepted_only_in_range", z3.And(v >= 0, v <= 132))
    if kind == 0:
        c.ensures("post.no_lnSpc_for_None", pPr.count["lnSpc"] == 0)
        return
    c.ensures("post.exactly_one_lnSpc", pPr.count["lnSpc"] == 1)
    ln = pPr.child.get("lnSpc")
    ok = isinstance(ln, _ChoiceElem)
    c.ensures("post.lnSpc_is_a_spacing_element", ok)
    if ok:
        want, other = ("spcPct", "spcPts") if kind == 1 else ("spcPts", "spcPct")
        c.ensures("post.exactly_the_member_matching_the_value", ln.count[want] == 1 and ln.count[other] == 0)

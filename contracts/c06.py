"""C06 -- shape ids, slide ids, relationship ids and part names are unique and stable.  DESIGN.md 5/C06.

Every allocator is executed symbolically from its real source against an *unbounded, universally
quantified* population of existing ids / keys / names (gaps, huge values, non-numeric @id values
included); the obligations are freshness, range, "never raises" and, for the turbo cache, the
data-structure invariant  TURBO: cached is None or cached >= every numeric id in the part."""
from __future__ import annotations

import z3

from pyvc.engine import Atom, FmtInt, GhostFn, SObj, SSeq, SStr, invariant_loop
from pyvc.verify import contract

META = {
    "residual": [
        "aliasing of several Slide proxies of one slide (each has its own turbo cache) -- documented caveat of the library",
        "pigeonhole facts (a collection of L keys cannot contain L+1 distinct candidates) enter as stated assumptions; they only "
        "serve the 'never falls through' clauses, freshness does not depend on them",
        "xpath('//@id') etc. are taken as 'the sequence of those attribute values in the part' (assumed lxml contract)",
    ],
    "trusted_base": ["z3 quantifier instantiation (unsat answers)", "lxml xpath contracts", "Python built-ins max/sorted/len/enumerate/next (Appendix B)"],
}

MAXID = 2147483647


def _xpath(expected, result):
    """ghost for BaseOxmlElement.xpath: the assumed contract belongs to one whitelisted expression; any other
    expression has no contract (the function is then outside the subset and its bounded stand-in runs)."""
    from pyvc.engine import Unsupported

    def h(it, a, k):
        if a and a[0] == expected:
            it.path.assumed.add("xpath(%r) returns the values of exactly those attributes, in document order" % expected)
            return result
        raise Unsupported("xpath expression %r has no assumed contract (contract written for %r)" % (a[0] if a else None, expected))

    return GhostFn(h, "xpath")


# --------------------------------------------------------------------------------------------
# slide ids


def _replay_next_id(model, rec):
    from pptx.oxml import parse_xml
    from pptx.oxml.ns import nsdecls

    cands = []
    n = model.get("n_ids")
    if isinstance(n, int) and 0 <= n <= 6:
        ids = [model.get("id%d" % i) for i in range(n)]
        if all(isinstance(x, int) and x >= 0 for x in ids) and len(set(ids)) == len(ids):
            cands.append(ids)
    cands += [[256, 2147483648], [2147483647], [256, 257, 2147483647], [2147483648], [256, 2147483647], [4294967295, 256, 257]]
    for ids in cands:
        xml = "<p:sldIdLst %s>%s</p:sldIdLst>" % (nsdecls("p", "r"), "".join('<p:sldId id="%d" r:id="rId%d"/>' % (v, i + 1) for i, v in enumerate(ids)))
        lst = parse_xml(xml)
        try:
            nxt = lst._next_id
        except Exception as e:
            return {"confirmed": True, "witness_class": "next-id-raises", "detail": "sldIdLst ids %s: _next_id raised %r" % (ids, e), "input": ids}
        if nxt in ids or not (256 <= nxt <= MAXID):
            return {"confirmed": True, "witness_class": "next-id-not-fresh", "detail": "sldIdLst ids %s: _next_id returned %s" % (ids, nxt), "input": ids}
    return {"confirmed": False, "detail": "candidates %s all give a fresh in-range id" % cands}


@contract("C06", "C06.oxml.presentation.CT_SlideIdList._next_id.fget", replay=_replay_next_id, timeout_ms=60000)
def _next_slide_id(c):
    """new slide id is in 256..2147483647, differs from every existing id, and the allocator never raises --
    for every population of distinct xsd:unsignedInt ids (values above the slide-id range included)."""
    from pptx.oxml.presentation import CT_SlideIdList

    n = c.int("n_ids")
    ID = z3.Function("ID", z3.IntSort(), z3.IntSort())
    for q in range(6):
        c.input("id%d" % q, ID(z3.IntVal(q)))
    i, k = z3.Ints("qi qk")
    c.requires(n >= 0)
    # documented domain: the slide-id space is not exhausted (fewer than 2147483392 slides)
    c.requires(n < MAXID - 255)
    c.requires(z3.ForAll([i], z3.Implies(z3.And(0 <= i, i < n), ID(i) >= 0)))
    c.requires(z3.ForAll([i, k], z3.Implies(z3.And(0 <= i, i < k, k < n), ID(i) != ID(k))))
    ids = SSeq(n, lambda j: SStr([FmtInt(ID(j))]), name="sldId/@id")
    lst = SObj(CT_SlideIdList, "sldIdLst", xpath=_xpath("./p:sldId/@id", ids))
    out = c.run(CT_SlideIdList._next_id.fget, lst)
    if out.raised:
        c.fails("never_raises", "_next_id raised %s" % out.exc)
        return
    r = out.value
    for srt in c.path.ghost.get("sorted", []):
        # proof hint (proved first): the sorted view of distinct ids is strictly increasing
        a, b = z3.Ints("ha hb")
        c.lemma("sorted_ids_strictly_increasing", z3.ForAll([a, b], z3.Implies(z3.And(0 <= a, a < b, b < srt.L), srt.S(a) < srt.S(b))))
    c.ensures("post.in_range", z3.And(r >= 256, r <= MAXID))
    c.ensures("post.fresh", z3.ForAll([i], z3.Implies(z3.And(0 <= i, i < n), ID(i) != r)))


# --------------------------------------------------------------------------------------------
# shape ids


def _id_population(c):
    """The multiset behind xpath('//@id'): n attribute values, IDS(i) a z3 string (any text)."""
    n = c.int("n_ids")
    IDS = z3.Function("IDS", z3.IntSort(), z3.StringSort())
    c.requires(n >= 0)
    for q in range(4):
        c.input("ids%d" % q, IDS(z3.IntVal(q)))
    seq = SSeq(n, lambda j: SStr([Atom("id[%s]" % j, zs=IDS(j))]), name="//@id")
    return n, IDS, seq


def _numeric(IDS, i):
    from pyvc import zstr

    return z3.InRe(IDS(i), zstr.isdigit_re())


def _replay_shape_ids(kind):
    def replay(model, rec):
        from pptx.oxml import parse_xml
        from pptx.oxml.ns import nsdecls

        cands = []
        n = model.get("n_ids")
        if isinstance(n, int) and 0 <= n <= 4:
            ids = [model.get("ids%d" % i) for i in range(n)]
            if all(isinstance(x, str) for x in ids):
                cands.append(ids)
        cands += [["1", "²"], ["1", "2", "4"], ["1", "x", "7"], ["1"], ["1", "2147483647"], ["1", "٣"], ["1", "3", "3"]]
        # ids that sit on other elements than p:cNvPr (XML ids have document scope: a:cNvPr of a locked canvas, p:cTn ...)
        xml = ('<p:spTree %s><p:nvGrpSpPr><p:cNvPr id="1" name=""/><p:cNvGrpSpPr/><p:nvPr/></p:nvGrpSpPr><p:grpSpPr/>'
               '<p:sp><p:nvSpPr><p:cNvPr id="2" name="s"/><p:cNvSpPr/><p:nvPr/></p:nvSpPr><p:spPr/></p:sp>'
               '<p:graphicFrame><p:nvGraphicFramePr><p:cNvPr id="3" name="g"/><p:cNvGraphicFramePr/><p:nvPr/></p:nvGraphicFramePr>'
               '<p:xfrm/><a:graphic><a:graphicData uri="x"><a:cNvPr id="4" name="inner"/><a:cNvPr id="9" name="inner2"/></a:graphicData></a:graphic></p:graphicFrame>'
               '</p:spTree>' % nsdecls("p", "a"))
        spTree = parse_xml(xml)
        got = spTree.max_shape_id if kind == "max" else spTree._next_shape_id
        if (kind == "max" and got != 9) or (kind == "next" and got in (1, 2, 3, 4, 9)):
            return {"confirmed": True, "witness_class": "id-scope", "detail": "part with ids 1,2,3 on p:cNvPr and 4,9 on a:cNvPr: %s = %r" % ("max_shape_id" if kind == "max" else "_next_shape_id", got)}
        for ids in cands:
            sps = "".join('<p:sp><p:nvSpPr><p:cNvPr id="%s" name="s"/><p:cNvSpPr/><p:nvPr/></p:nvSpPr><p:spPr/></p:sp>' % v.replace('"', "")
                          for v in ids[1:])
            first = ids[0].replace('"', "") if ids else "1"
            xml = ('<p:spTree %s><p:nvGrpSpPr><p:cNvPr id="%s" name=""/><p:cNvGrpSpPr/><p:nvPr/></p:nvGrpSpPr><p:grpSpPr/>%s</p:spTree>'
                   % (nsdecls("p", "a"), first, sps))
            try:
                spTree = parse_xml(xml)
            except Exception:
                continue
            try:
                got = spTree.max_shape_id if kind == "max" else spTree._next_shape_id
            except Exception as e:
                return {"confirmed": True, "witness_class": "id-not-int", "detail": "ids %r: %s raised %r" % (ids, "max_shape_id" if kind == "max" else "_next_shape_id", e), "input": ids}
            nums = [int(v) for v in ids if v.isdecimal()]
            if kind == "max" and got != (max(nums) if nums else 0):
                return {"confirmed": True, "witness_class": "max-wrong", "detail": "ids %r: max_shape_id = %r" % (ids, got), "input": ids}
            if kind == "next" and (got is None or got in nums or got < 1):
                return {"confirmed": True, "witness_class": "next-not-fresh", "detail": "ids %r: _next_shape_id = %r" % (ids, got), "input": ids}
        return {"confirmed": False, "detail": "candidate id populations %r behave" % cands}

    return replay


@contract("C06", "C06.oxml.shapes.groupshape.CT_GroupShape.max_shape_id.fget", replay=_replay_shape_ids("max"), timeout_ms=60000)
def _max_shape_id(c):
    """max_shape_id >= every numeric @id of the part, is one of them (0 if none) and never raises,
    whatever text the @id attributes hold."""
    from pptx.oxml.shapes.groupshape import CT_GroupShape

    n, IDS, seq = _id_population(c)
    e = SObj(CT_GroupShape, "spTree", xpath=_xpath("//@id", seq))
    out = c.run(CT_GroupShape.max_shape_id.fget, e)
    if out.raised:
        c.fails("never_raises", "max_shape_id raised %s" % out.exc)
        return
    r = out.value
    c.ensures("post.nonneg", r >= 0)
    u = c.path.ghost["filtered"][-1]  # the list of int(@id) for the decimal @id values, as the real comprehension built it
    j = z3.Int("mj")
    c.ensures("post.bounds_every_numeric_id", z3.ForAll([j], z3.Implies(z3.And(0 <= j, j < u.n, u.cond(j)), u.elt(j) <= r)))
    c.ensures("post.is_an_id_or_zero", z3.Or(r == 0, u.exists_eq(r)))


@contract("C06", "C06.oxml.shapes.groupshape.CT_GroupShape._next_shape_id.fget", replay=_replay_shape_ids("next"), timeout_ms=150000)
def _next_shape_id_elm(c):
    """element-level allocator (groups, freeforms): result >= 1, differs from every numeric @id, never
    raises and never falls through (pigeonhole stated as an assumption)."""
    from pptx.oxml.shapes.groupshape import CT_GroupShape

    n, IDS, seq = _id_population(c)
    e = SObj(CT_GroupShape, "spTree", xpath=_xpath("//@id", seq))
    qn = "pptx.oxml.shapes.groupshape:CT_GroupShape._next_shape_id"
    used = {}

    def inv(env, k):
        # every candidate tried so far is in use
        m = z3.Int("inv_m")
        u = env["used_ids"]
        used["u"] = u
        return z3.ForAll([m], z3.Implies(z3.And(1 <= m, m < 1 + k), u.exists_eq(m)))

    c.loop_specs[(qn, 0)] = invariant_loop("C06.oxml.shapes.groupshape.CT_GroupShape._next_shape_id.loop0", [], inv)
    out = c.run(CT_GroupShape._next_shape_id.fget, e)
    if out.raised:
        c.fails("never_raises", "_next_shape_id raised %s" % out.exc)
        return
    r = out.value
    if r is None:
        # loop exhausted: every m in 1..L+1 is in use although only L numeric ids exist
        u = used.get("u")
        L = getattr(u, "length_term", None)
        if u is not None and L is not None:
            m = z3.Int("ph_m")
            c.assume(z3.Exists([m], z3.And(1 <= m, m <= L + 1, z3.Not(u.exists_eq(m)))),
                     "pigeonhole: a list of L numbers cannot contain every one of the L+1 numbers 1..L+1")
        c.ensures("post.never_falls_through", False)
        return
    c.ensures("post.positive", r >= 1)
    u = used.get("u")
    c.ensures("post.fresh", z3.Not(u.exists_eq(r)))


# -- collection-level allocator and the turbo cache ------------------------------------------------


def _used_state(c):
    """Abstract view of the part: USED(m) <=> some decimal @id equals m; M = its max (0 if none) --
    exactly what the proved contract of CT_GroupShape.max_shape_id delivers."""
    USED = z3.Function("USED", z3.IntSort(), z3.BoolSort())
    M = c.int("max_shape_id")
    m = z3.Int("um")
    c.requires(z3.ForAll([m], z3.Implies(USED(m), z3.And(m >= 0, m <= M))))
    c.requires(z3.Or(M == 0, USED(M)))
    return USED, M


def _turbo(USED, cached):
    m = z3.Int("tm")
    return z3.And(cached >= 0, z3.ForAll([m], z3.Implies(USED(m), m <= cached)))


def _replay_turbo(model, rec):
    from pyvc import native

    # F6 scenario and neighbours: turbo on, interleave cache-path and element-path additions
    import itertools

    ops = {"shape": lambda sh: sh.add_shape(1, 0, 0, 10, 10).shape_id, "group": lambda sh: sh.add_group_shape().shape_id,
           "textbox": lambda sh: sh.add_textbox(0, 0, 10, 10).shape_id,
           "freeform": lambda sh: sh.build_freeform(0, 0).add_line_segments([(1, 1), (2, 0)]).convert_to_shape().shape_id,
           "connector": lambda sh: sh.add_connector(1, 0, 0, 5, 5).shape_id}
    for seq in itertools.product(ops, repeat=3):
        slide = native.blank_slide()
        sh = slide.shapes
        sh.turbo_add_enabled = True
        ids = [ops[o](sh) for o in seq]
        all_ids = [int(v) for v in slide.shapes._spTree.xpath("//@id") if v.isdecimal()]
        if len(set(all_ids)) != len(all_ids):
            return {"confirmed": True, "witness_class": "turbo-duplicate-id", "detail": "turbo_add_enabled=True; add %s -> ids %s (duplicates in part: %s)" % (list(seq), ids, sorted(all_ids)), "input": list(seq)}
    # turbo switched on again after ids were handed out through another proxy of the same tree
    for again in (True, False):
        slide = native.blank_slide()
        sh = slide.shapes
        sh.turbo_add_enabled = True
        sh.add_shape(1, 0, 0, 10, 10)
        g = sh.add_group_shape()
        g.shapes.add_shape(1, 0, 0, 10, 10)
        g.shapes.add_textbox(0, 0, 10, 10)
        if not again:
            sh.turbo_add_enabled = False
        sh.turbo_add_enabled = True
        sh.add_shape(1, 0, 0, 10, 10)
        sh.add_connector(1, 0, 0, 5, 5)
        all_ids = [int(v) for v in slide.shapes._spTree.xpath("//@id") if v.isdecimal()]
        if len(set(all_ids)) != len(all_ids):
            return {"confirmed": True, "witness_class": "turbo-duplicate-id", "detail": "turbo on; additions through a group's shapes; turbo %s; two more additions -> ids in part %s"
                    % ("switched on again" if again else "off and on again", all_ids)}
    return {"confirmed": False, "detail": "all 125 three-step addition sequences under turbo give distinct ids"}


@contract("C06", "C06.shapes.shapetree._BaseShapes._next_shape_id.fget", replay=_replay_turbo)
def _next_shape_id_coll(c):
    """collection-level allocator: fresh, positive; under turbo the cache becomes the id handed out, so TURBO
    (cached >= every id in the part) still holds once that id is in the part."""
    from pptx.shapes.shapetree import _BaseShapes

    USED, M = _used_state(c)
    spTree = SObj(None, "spTree", max_shape_id=M)
    turbo = c.bool("turbo")
    cached = c.int("cached")
    if c.branch(turbo):
        c.requires(_turbo(USED, cached))
        shapes = SObj(_BaseShapes, "shapes", _spTree=spTree, _cached_max_shape_id=cached)
    else:
        shapes = SObj(_BaseShapes, "shapes", _spTree=spTree, _cached_max_shape_id=None)
    out = c.run(_BaseShapes._next_shape_id.fget, shapes)
    if out.raised:
        c.fails("never_raises", "raised %s" % out.exc)
        return
    r = out.value
    c.ensures("post.fresh", z3.Not(USED(r)))
    c.ensures("post.positive", r >= 1)
    after = shapes.fields["_cached_max_shape_id"]
    if after is not None:
        m = z3.Int("pm")
        c.ensures("inv.TURBO_preserved", z3.And(after >= 0, z3.ForAll([m], z3.Implies(z3.Or(USED(m), m == r), m <= after))))
    else:
        c.ensures("frame.cache_stays_off", shapes.fields["_cached_max_shape_id"] is None)


@contract("C06", "C06.shapes.shapetree._BaseShapes.turbo_add_enabled.fset", replay=_replay_turbo)
def _turbo_setter(c):
    """switching turbo on establishes TURBO whatever the cache held before (it may be stale: ids are also handed out by other proxies of
    the same tree, e.g. a group's shapes); switching it off clears the cache."""
    from pptx.shapes.shapetree import _BaseShapes

    USED, M = _used_state(c)
    spTree = SObj(None, "spTree", max_shape_id=M)
    was_on = c.bool("was_on")
    stale = c.int("stale_cache")
    shapes = SObj(_BaseShapes, "shapes", _spTree=spTree, _cached_max_shape_id=(stale if c.branch(was_on) else None))
    on = c.bool("value")
    v = True if c.branch(on) else False
    out = c.run(_BaseShapes.turbo_add_enabled.fset, shapes, v)
    if out.raised:
        c.fails("never_raises", "raised %s" % out.exc)
        return
    after = shapes.fields["_cached_max_shape_id"]
    if v:
        c.ensures("post.TURBO_established", after is not None and _turbo(USED, after))
    else:
        c.ensures("post.cache_cleared", after is None)


def _element_alloc(c, USED):
    """Proved contract of CT_GroupShape._next_shape_id (above), as a summary over USED."""
    n = c.path.fresh("elm_id", z3.IntSort())
    m = z3.Int("em")
    c.path.assume(z3.And(n >= 1, z3.Not(USED(n)), z3.ForAll([m], z3.Implies(z3.And(1 <= m, m < n), USED(m)))))
    return n


@contract("C06", "C06.shapes.shapetree._BaseGroupShapes.add_group_shape.TURBO", replay=_replay_turbo)
def _turbo_group(c):
    """TURBO must be preserved by every method that puts an id into the part; add_group_shape takes its id
    from the element-level allocator, not from the cache."""
    from pptx.shapes.shapetree import _BaseGroupShapes

    USED, M = _used_state(c)
    cached = c.int("cached")
    c.requires(_turbo(USED, cached))
    new = {}

    def add_grpSp(it, a, k):
        new["id"] = _element_alloc(c, USED)
        return SObj(None, "grpSp", shape_id=new["id"])

    elm = SObj(None, "spTree", add_grpSp=GhostFn(add_grpSp), max_shape_id=M)
    shapes = SObj(_BaseGroupShapes, "shapes", _element=elm, _spTree=elm, _grpSp=elm, _cached_max_shape_id=cached,
                  _shape_factory=GhostFn(lambda it, a, k: a[0]))
    out = c.run(_BaseGroupShapes.add_group_shape, shapes)
    if out.raised:
        c.fails("never_raises", "raised %s" % out.exc)
        return
    after = shapes.fields["_cached_max_shape_id"]
    m = z3.Int("gm")
    c.ensures("inv.TURBO_preserved", z3.And(after >= 0, z3.ForAll([m], z3.Implies(z3.Or(USED(m), m == new["id"]), m <= after))))


@contract("C06", "C06.shapes.freeform.FreeformBuilder._add_freeform_sp.TURBO", replay=_replay_turbo)
def _turbo_freeform(c):
    """same obligation for the freeform path (spTree.add_freeform_sp allocates at element level)."""
    from pptx.shapes.freeform import FreeformBuilder
    from pptx.shapes.shapetree import _BaseGroupShapes

    USED, M = _used_state(c)
    cached = c.int("cached")
    c.requires(_turbo(USED, cached))
    new = {}

    def add_freeform_sp(it, a, k):
        new["id"] = _element_alloc(c, USED)
        return SObj(None, "sp", shape_id=new["id"])

    elm = SObj(None, "spTree", add_freeform_sp=GhostFn(add_freeform_sp), max_shape_id=M)
    shapes = SObj(_BaseGroupShapes, "shapes", _element=elm, _spTree=elm, _cached_max_shape_id=cached)
    b = SObj(FreeformBuilder, "builder", _shapes=shapes, _left=c.int("l"), _top=c.int("t"), _width=c.int("w"), _height=c.int("h"))
    out = c.run(FreeformBuilder._add_freeform_sp, b, c.int("ox"), c.int("oy"))
    if out.raised:
        c.fails("never_raises", "raised %s" % out.exc)
        return
    after = shapes.fields["_cached_max_shape_id"]
    m = z3.Int("fm")
    c.ensures("inv.TURBO_preserved", z3.And(after >= 0, z3.ForAll([m], z3.Implies(z3.Or(USED(m), m == new["id"]), m <= after))))


# --------------------------------------------------------------------------------------------
# relationship ids and part names


class _GhostKeys:
    """Abstract dict of relationships: HAS(n) <=> key 'rId<n>' is present; L = number of keys."""

    __pyvc_symbolic__ = True

    def __init__(self, c, prefix="rId"):
        self.HAS = z3.Function("HAS", z3.IntSort(), z3.BoolSort())
        self.L = c.int("n_rels")
        self.prefix = prefix
        c.requires(self.L >= 0)

    def sym_len(self, it):
        return self.L

    def sym_truth(self, it):
        return self.L > 0

    def sym_contains(self, it, item):
        if isinstance(item, SStr) and len(item.parts) == 2 and item.parts[0] == self.prefix and isinstance(item.parts[1], FmtInt):
            return self.HAS(item.parts[1].term)
        raise Exception("ghost key set asked for %r" % (item,))


def _replay_rids(model, rec):
    from pptx.opc.package import _Relationships

    import itertools

    cands = [[], ["rId1"], ["rId2"], ["rId1", "rId3"], ["rId1", "rId2", "rId3"], ["rId3", "foo", "rId1"], ["rId10", "rId2"]]
    # every subset of rId1..rId6 (gaps anywhere below the highest id)
    for r in range(1, 6):
        cands += [["rId%d" % i for i in combo] for combo in itertools.combinations(range(1, 7), r)]
    for keys in cands:
        rels = _Relationships("/ppt")
        for k in keys:
            rels._rels[k] = object()
        try:
            got = rels._next_rId
        except Exception as e:
            return {"confirmed": True, "witness_class": "rid-raises", "detail": "keys %s: _next_rId raised %r" % (keys, e)}
        if got in keys or not got.startswith("rId") or not got[3:].isdigit() or int(got[3:]) < 1:
            return {"confirmed": True, "witness_class": "rid-not-fresh", "detail": "keys %s: _next_rId = %r" % (keys, got)}
    return {"confirmed": False, "detail": "%d candidate key sets (every subset of rId1..rId6 of size 1-5) give fresh rIds" % len(cands)}


@contract("C06", "C06.opc.package._Relationships._next_rId.fget", replay=_replay_rids)
def _next_rid(c):
    """next rId is 'rId<n>' with n >= 1 and not a key of the collection; the trailing raise is unreachable
    (pigeonhole stated as an assumption)."""
    from pptx.opc.package import _Relationships

    keys = _GhostKeys(c)
    rels = SObj(_Relationships, "rels", _rels=keys)
    qn = "pptx.opc.package:_Relationships._next_rId"

    def inv(env, k):
        m = z3.Int("rm")
        return z3.ForAll([m], z3.Implies(z3.And(keys.L + 1 - k < m, m <= keys.L + 1), keys.HAS(m)))

    c.loop_specs[(qn, 0)] = invariant_loop("C06.opc.package._Relationships._next_rId.loop0", [], inv)
    m = z3.Int("pm2")
    c.assume(z3.Exists([m], z3.And(1 <= m, m <= keys.L + 1, z3.Not(keys.HAS(m)))),
             "pigeonhole: a dict of L keys cannot contain all of the L+1 keys rId1..rId(L+1)")
    out = c.run(_Relationships._next_rId.fget, rels)
    if out.raised:
        c.fails("never_raises", "_next_rId raised %s" % out.exc)
        return
    r = out.value
    ok_shape = isinstance(r, SStr) and len(r.parts) == 2 and r.parts[0] == "rId" and isinstance(r.parts[1], FmtInt)
    c.ensures("post.shape_rId_n", ok_shape)
    if ok_shape:
        nn = r.parts[1].term
        c.ensures("post.fresh", z3.Not(keys.HAS(nn)))
        c.ensures("post.positive", nn >= 1)


def _replay_partnames(model, rec):
    from pptx import Presentation

    prs = Presentation()
    pkg = prs.part.package
    names = {str(p.partname) for p in pkg.iter_parts()}
    for tmpl in ("/ppt/slides/slide%d.xml", "/ppt/media/image%d.png", "/ppt/charts/chart%d.xml", "/ppt/slideLayouts/slideLayout%d.xml"):
        got = str(pkg.next_partname(tmpl))
        if got in names:
            return {"confirmed": True, "witness_class": "partname-not-fresh", "detail": "next_partname(%r) = %r which exists" % (tmpl, got)}
    return {"confirmed": False, "detail": "default package: fresh part names for 4 templates"}


def _make_next_partname(tmpl):
    @contract("C06", "C06.opc.package.OpcPackage.next_partname[%s]" % tmpl, replay=_replay_partnames, timeout_ms=60000)
    def body(c):
        """next_partname(tmpl) is tmpl % n with n >= 1 and is not the name of any reachable part, for every
        population of part names."""
        from pptx.opc.package import OpcPackage

        n = c.int("n_parts")
        c.requires(n >= 0)
        PN = z3.Function("PN", z3.IntSort(), z3.StringSort())
        for q in range(3):
            c.input("pn%d" % q, PN(z3.IntVal(q)))
        parts = SSeq(n, lambda j: SObj(None, "part", partname=SStr([Atom("partname[%s]" % j, zs=PN(j))])), name="iter_parts")
        pkg = SObj(OpcPackage, "package", iter_parts=GhostFn(lambda it, a, k: parts))
        qn = "pptx.opc.package:OpcPackage.next_partname"
        holder = {}

        def inv(env, k):
            m = z3.Int("nm")
            s = env["partnames"]
            holder["s"] = s
            L = getattr(s, "length_term", None)
            lit_a, lit_b = tmpl.split("%d")
            return z3.ForAll([m], z3.Implies(z3.And(L + 1 - k < m, m <= L + 1),
                                            s.exists_eq(z3.Concat(z3.StringVal(lit_a), z3.IntToStr(m), z3.StringVal(lit_b)))))

        c.loop_specs[(qn, 0)] = invariant_loop("C06.opc.package.OpcPackage.next_partname.loop0", [], inv)
        out = c.run(OpcPackage.next_partname, pkg, tmpl)
        if out.raised:
            s = holder.get("s")
            if s is not None and getattr(s, "length_term", None) is not None and out.exc.exc_cls is Exception:
                m = z3.Int("pm3")
                lit_a, lit_b = tmpl.split("%d")
                c.assume(z3.Exists([m], z3.And(1 <= m, m <= s.length_term + 1,
                                               z3.Not(s.exists_eq(z3.Concat(z3.StringVal(lit_a), z3.IntToStr(m), z3.StringVal(lit_b)))))),
                         "pigeonhole: a set of L names cannot contain all of the L+1 candidates tmpl%1..tmpl%(L+1)")
            c.fails("never_raises", "next_partname raised %s" % out.exc)
            return
        r = out.value
        z = r.z3() if isinstance(r, SStr) else None
        c.ensures("post.is_str", z is not None)
        if z is None:
            return
        j = z3.Int("pj")
        c.ensures("post.fresh", z3.ForAll([j], z3.Implies(z3.And(0 <= j, j < n), PN(j) != z)))
        lit_a, lit_b = tmpl.split("%d")
        ok_shape = isinstance(r, SStr) and len(r.parts) == 3 and r.parts[0] == lit_a and r.parts[2] == lit_b and isinstance(r.parts[1], FmtInt)
        c.ensures("post.shape", ok_shape)
        if ok_shape:
            c.ensures("post.positive_index", r.parts[1].term >= 1)

    return body


for _t in ("/ppt/slides/slide%d.xml", "/ppt/media/image%d.png", "/ppt/charts/chart%d.xml", "/ppt/embeddings/oleObject%d.bin"):
    _make_next_partname(_t)


# -- image / media part names -----------------------------------------------------------------------


class _GhostPartname:
    """partname of part j seen through the two facts the allocator reads: does it start with the media
    prefix, and what is its numeric index (C19 contract of PackURI.idx)."""

    __pyvc_symbolic__ = True

    def __init__(self, j, IS, HASIDX, IDX):
        self.j, self.IS, self.HASIDX, self.IDX = j, IS, HASIDX, IDX

    def sym_getattr(self, it, name):
        if name == "startswith":
            return GhostFn(lambda interp, a, k: self.IS(self.j))
        if name == "idx":
            if it.path.branch(self.HASIDX(self.j)):
                return self.IDX(self.j)
            return None
        raise Exception("ghost partname asked for %s" % name)


def _replay_media_names(kind):
    def replay(model, rec):
        from pptx import Presentation
        from pptx.opc.package import Part
        from pptx.opc.packuri import PackURI

        for names in ([], ["image1.png"], ["image2.png"], ["image1.png", "image3.png"], ["image1.png", "image1.jpg"], ["image0.png"],
                      ["image10.png", "image2.png"], ["imagex.png", "image1.png"]):
            prs = Presentation()
            pkg = prs.part.package
            for i, nm in enumerate(names):
                nm2 = nm if kind == "image" else nm.replace("image", "media")
                part = Part(PackURI("/ppt/media/" + nm2), "image/png", pkg, b"x")
                prs.part.relate_to(part, "http://x/rel%d" % i)
            existing = {str(p.partname) for p in pkg.iter_parts()}
            try:
                got = str(pkg.next_image_partname("png") if kind == "image" else pkg.next_media_partname("png"))
            except Exception as e:
                return {"confirmed": True, "witness_class": "partname-raises", "detail": "media names %s: raised %r" % (names, e)}
            if got in existing:
                return {"confirmed": True, "witness_class": "partname-not-fresh", "detail": "media names %s: got existing %s" % (names, got)}
        return {"confirmed": False, "detail": "candidate media name populations give fresh names"}

    return replay


def _make_media(kind):
    @contract("C06", "C06.package.Package.next_%s_partname" % kind, replay=_replay_media_names(kind), timeout_ms=60000)
    def body(c):
        """result is /ppt/media/<kind><k>.<ext> with k >= 1 different from the index of every existing part under
        that prefix (so the name is fresh whatever its extension)."""
        from pptx.package import Package

        n = c.int("n_parts")
        c.requires(n >= 0)
        IS = z3.Function("IS_MEDIA", z3.IntSort(), z3.BoolSort())
        HASIDX = z3.Function("HASIDX", z3.IntSort(), z3.BoolSort())
        IDX = z3.Function("IDX", z3.IntSort(), z3.IntSort())
        j = z3.Int("qj")
        c.requires(z3.ForAll([j], z3.Implies(z3.And(0 <= j, j < n, HASIDX(j)), IDX(j) >= 0)))
        if kind == "media":
            # stated domain assumption: every part under /ppt/media/media carries a number (python-pptx and PowerPoint
            # name them mediaN.ext); without it sorted() would compare None with int
            c.assume(z3.ForAll([j], z3.Implies(z3.And(0 <= j, j < n, IS(j)), HASIDX(j))),
                     "every part whose name starts with /ppt/media/media has a numeric index")
        parts = SSeq(n, lambda q: SObj(None, "part", partname=_GhostPartname(q, IS, HASIDX, IDX)), name="iter_parts")
        pkg = SObj(Package, "package", iter_parts=GhostFn(lambda it, a, k: parts))
        qn = "pptx.package:Package.next_%s_partname.<locals>" % kind
        srt = {}

        def inv(env, k):
            S = env["%s_idxs" % kind]
            srt["S"] = S
            q = z3.Int("iq")
            return z3.ForAll([q], z3.Implies(z3.And(0 <= q, q < k), S.get(q) <= q + 1))

        c.loop_specs[(qn, 0)] = invariant_loop("C06.package.Package.next_%s_partname.loop0" % kind, ["idx"] if False else [], inv)
        ext = SStr([Atom("ext", zs=c.input("ext", z3.String("ext")))])
        out = c.run(getattr(Package, "next_%s_partname" % kind), pkg, ext)
        if out.raised:
            c.fails("never_raises", "raised %s" % out.exc)
            return
        r = out.value
        ok_shape = isinstance(r, SStr) and len(r.parts) >= 2 and r.parts[0] == "/ppt/media/%s" % kind and isinstance(r.parts[1], FmtInt)
        c.ensures("post.shape", ok_shape)
        if not ok_shape:
            return
        k = r.parts[1].term
        c.ensures("post.index_positive", k >= 1)
        c.ensures("post.index_fresh", z3.ForAll([j], z3.Implies(z3.And(0 <= j, j < n, IS(j), HASIDX(j)), IDX(j) != k)))

    return body


_make_media("image")
_make_media("media")


@contract("C06", "C06.oxml.slide.CT_TimeNodeList._next_cTn_id.fget")
def _next_ctn(c):
    """next p:cTn id is greater than every existing one (the list sits inside a p:cTn, so one exists)."""
    from pptx.oxml.slide import CT_TimeNodeList

    n = c.int("n_ids")
    c.requires(n >= 1)
    ID = z3.Function("CTN", z3.IntSort(), z3.IntSort())
    ids = SSeq(n, lambda j: SStr([FmtInt(ID(j))]), name="cTn/@id")
    e = SObj(CT_TimeNodeList, "childTnLst", xpath=_xpath("/p:sld/p:timing//p:cTn/@id", ids))
    out = c.run(CT_TimeNodeList._next_cTn_id.fget, e)
    if out.raised:
        c.fails("never_raises", "raised %s" % out.exc)
        return
    j = z3.Int("cj")
    c.ensures("post.fresh", z3.ForAll([j], z3.Implies(z3.And(0 <= j, j < n), ID(j) < out.value)))


# -- placeholder names, slide part names --------------------------------------------------------------


class _GhostNames:
    """xpath('//p:cNvPr/@name'): the list of existing shape names, as a predicate over strings."""

    __pyvc_symbolic__ = True

    def __init__(self):
        self.HASNAME = z3.Function("HASNAME", z3.StringSort(), z3.BoolSort())

    def sym_contains(self, it, item):
        from pyvc.engine import _as_sstr

        z = _as_sstr(item).z3()
        if z is None:
            raise Exception("name without z3 form: %r" % (item,))
        return self.HASNAME(z)


@contract("C06", "C06.shapes.shapetree._BaseShapes._next_ph_name")
def _next_ph_name(c):
    """placeholder name returned is not among the existing shape names (partial correctness: termination of
    the `while True` search is not proved)."""
    from pyvc.engine import invariant_while
    from pptx.enum.shapes import PP_PLACEHOLDER
    from pptx.shapes.shapetree import _BaseShapes

    names = _GhostNames()
    spTree = SObj(None, "spTree", xpath=_xpath("//p:cNvPr/@name", names))
    shapes = SObj(_BaseShapes, "shapes", _spTree=spTree)
    vert = c.bool("vertical")
    orient = "vert" if c.branch(vert) else "horz"
    qn = "pptx.shapes.shapetree:_BaseShapes._next_ph_name"
    id0 = c.int("id")
    c.loop_specs[(qn, 0)] = invariant_while("C06.shapes.shapetree._BaseShapes._next_ph_name.loop0", ["numpart", "name"] if False else ["numpart"],
                                            lambda env: env["numpart"] >= id0 - 1)
    out = c.run(_BaseShapes._next_ph_name, shapes, PP_PLACEHOLDER.BODY, id0, orient)
    if out.raised:
        c.fails("never_raises", "raised %s" % out.exc)
        return
    from pyvc.engine import _as_sstr

    z = _as_sstr(out.value).z3()
    c.ensures("post.fresh_name", z is not None and z3.Not(names.HASNAME(z)))
    r = out.value
    ok = isinstance(r, SStr) and isinstance(r.parts[-1], FmtInt) and r.parts[0].startswith(("Vertical Text Placeholder " if orient == "vert" else "Text Placeholder "))
    c.ensures("post.shape_basename_number", ok)


class _GhostPart:
    __pyvc_symbolic__ = True

    def __init__(self, state, p):
        self.state, self.p = state, p

    def sym_setattr(self, it, name, v):
        if name != "partname":
            raise Exception("ghost part: unexpected store to %s" % name)
        ok = isinstance(v, SStr) and len(v.parts) == 3 and v.parts[0] == "/ppt/slides/slide" and v.parts[2] == ".xml" and isinstance(v.parts[1], FmtInt)
        if not ok:
            self.state["bad"] = repr(v)
            return
        self.state["NUM"] = z3.Store(self.state["NUM"], self.p, v.parts[1].term)


def _replay_rename(model, rec):
    import itertools

    from pptx import Presentation
    from pptx.opc.packuri import PackURI

    scrambles = [(7, 3, 9, 1)] + [p + (4,) for p in itertools.permutations((1, 2, 3))] + [(1, 2, 4, 5), (2, 3, 4, 5), (4, 1, 2, 3), (1, 3, 2, 9)]
    for nums in scrambles:
        prs = Presentation()
        for _ in range(4):
            prs.slides.add_slide(prs.slide_layouts[6])
        parts = [prs.part.related_part(s.rId) for s in prs.slides._sldIdLst]
        for part, k in zip(parts, nums):
            part.partname = PackURI("/ppt/slides/slide%d.xml" % k)
        prs.part.rename_slide_parts([s.rId for s in prs.slides._sldIdLst])
        got = [str(p.partname) for p in parts]
        want = ["/ppt/slides/slide%d.xml" % (i + 1) for i in range(4)]
        if got != want:
            return {"confirmed": True, "witness_class": "slide-part-names", "detail": "slide parts named %s are renamed to %s" % (list(nums), got), "input": list(nums)}
    return {"confirmed": False, "detail": "%d scrambled namings (incl. slides already in place) are renamed to slide1..slide4" % len(scrambles)}


@contract("C06", "C06.parts.presentation.PresentationPart.rename_slide_parts", replay=_replay_rename, timeout_ms=60000)
def _rename_slide_parts(c):
    """after renaming, the slide part related by the i-th rId is /ppt/slides/slide<i+1>.xml and no other part was
    renamed -- for any number of slides whose relationships lead to distinct parts."""
    from pptx.parts.presentation import PresentationPart

    n = c.int("n_slides")
    c.requires(n >= 0)
    P = z3.Function("PART_OF", z3.IntSort(), z3.IntSort())  # position in rIds -> part identity
    i, k = z3.Ints("ri rk")
    c.requires(z3.ForAll([i, k], z3.Implies(z3.And(0 <= i, i < k, k < n), P(i) != P(k))))
    NUM0 = z3.Array("NUM0", z3.IntSort(), z3.IntSort())
    state = {"NUM": NUM0}
    RID = z3.Function("RID", z3.IntSort(), z3.IntSort())  # rIds[i] as an abstract key
    c.requires(z3.ForAll([i, k], z3.Implies(z3.And(0 <= i, i < k, k < n), RID(i) != RID(k))))
    PART_BY_RID = z3.Function("PART_BY_RID", z3.IntSort(), z3.IntSort())
    c.requires(z3.ForAll([i], z3.Implies(z3.And(0 <= i, i < n), PART_BY_RID(RID(i)) == P(i))))
    rIds = SSeq(n, lambda j: RID(j), name="rIds")
    prs = SObj(PresentationPart, "presentation_part", related_part=GhostFn(lambda it, a, kw: _GhostPart(state, PART_BY_RID(a[0]))))
    qn = "pptx.parts.presentation:PresentationPart.rename_slide_parts"

    def inv(env, kk):
        q = z3.Int("iq")
        NUM = state["NUM"]
        return z3.And(z3.ForAll([i], z3.Implies(z3.And(0 <= i, i < kk), NUM[P(i)] == i + 1)),
                      z3.ForAll([q], z3.Implies(z3.ForAll([i], z3.Implies(z3.And(0 <= i, i < kk), P(i) != q)), NUM[q] == NUM0[q])))

    def on_havoc(path):
        state["NUM"] = z3.Array("NUM_h%d" % len(path.taken), z3.IntSort(), z3.IntSort())

    c.loop_specs[(qn, 0)] = invariant_loop("C06.parts.presentation.PresentationPart.rename_slide_parts.loop0", [], inv, on_havoc=on_havoc)
    out = c.run(PresentationPart.rename_slide_parts, prs, rIds)
    if out.raised:
        c.fails("never_raises", "raised %s" % out.exc)
        return
    c.ensures("post.names_are_slide_numbers", "bad" not in state)
    NUM = state["NUM"]
    c.ensures("post.slide_i_named_i_plus_1", z3.ForAll([i], z3.Implies(z3.And(0 <= i, i < n), NUM[P(i)] == i + 1)))
    q = z3.Int("fq")
    c.ensures("frame.other_parts_keep_their_names", z3.ForAll([q], z3.Implies(z3.ForAll([i], z3.Implies(z3.And(0 <= i, i < n), P(i) != q)), NUM[q] == NUM0[q])))
    c.ensures("post.slide_names_unique", z3.ForAll([i, k], z3.Implies(z3.And(0 <= i, i < k, k < n), NUM[P(i)] != NUM[P(k)])))


@contract("C06", "C06.parts.presentation.PresentationPart._next_slide_partname.fget")
def _next_slide_partname(c):
    """with slide parts named slide1..slideN (post of rename_slide_parts; N = number of sldId entries) the next
    slide part name slide<N+1> is not taken by any slide part."""
    from pptx.parts.presentation import PresentationPart

    N = c.int("n_sldId")
    c.requires(N >= 0)

    class _Lst:
        __pyvc_symbolic__ = True

        def sym_len(self, it):
            return N

    elm = SObj(None, "presentation", get_or_add_sldIdLst=GhostFn(lambda it, a, k: _Lst()))
    part = SObj(PresentationPart, "presentation_part", _element=elm)
    out = c.run(PresentationPart._next_slide_partname.fget, part)
    if out.raised:
        c.fails("never_raises", "raised %s" % out.exc)
        return
    r = out.value
    ok = isinstance(r, SStr) and len(r.parts) == 3 and r.parts[0] == "/ppt/slides/slide" and r.parts[2] == ".xml" and isinstance(r.parts[1], FmtInt)
    c.ensures("post.shape", ok)
    if ok:
        k = r.parts[1].term
        m = z3.Int("sm")
        c.ensures("post.fresh_among_slide1_to_N", z3.ForAll([m], z3.Implies(z3.And(1 <= m, m <= N), m != k)))


# -- a second allocation on the same package: hidden state must not short-cut the scan ------------------------------------


def _replay_partnames_twice(model, rec):
    """deck whose notes-slide / chart part numbering has gaps; two more additions of each kind"""
    import io
    import re
    import zipfile

    from pptx import Presentation
    from pptx.chart.data import CategoryChartData
    from pptx.enum.chart import XL_CHART_TYPE

    prs = Presentation()
    cd = CategoryChartData()
    cd.categories = ["a"]
    cd.add_series("s", (1,))
    for i in range(3):
        s = prs.slides.add_slide(prs.slide_layouts[6])
        s.notes_slide.notes_text_frame.text = "n%d" % i
        s.shapes.add_chart(XL_CHART_TYPE.PIE, 0, 0, 100, 100, cd)
    buf = io.BytesIO()
    prs.save(buf)
    src = zipfile.ZipFile(io.BytesIO(buf.getvalue()))
    out = io.BytesIO()
    ren = {"notesSlide2.xml": "notesSlide5.xml", "chart2.xml": "chart5.xml"}
    with zipfile.ZipFile(out, "w") as z:
        for n in src.namelist():
            d = src.read(n)
            n2 = n
            for a, b in ren.items():
                n2 = n2.replace(a, b)
                d = d.replace(a.encode(), b.encode())
            z.writestr(n2, d)
    p2 = Presentation(io.BytesIO(out.getvalue()))
    for k in range(2):
        s = p2.slides.add_slide(p2.slide_layouts[6])
        s.notes_slide.notes_text_frame.text = "new%d" % k
        s.shapes.add_chart(XL_CHART_TYPE.PIE, 0, 0, 100, 100, cd)
    names = [str(p.partname) for p in p2.part.package.iter_parts()]
    dup = sorted({n for n in names if names.count(n) > 1})
    if dup:
        return {"confirmed": True, "witness_class": "partname-collision", "detail": "deck with notesSlide1,3,5 / chart1,3,5: two more additions give duplicate part names %s" % dup}
    return {"confirmed": False, "detail": "two further additions on a deck with numbering gaps give distinct part names"}


@contract("C06", "C06.opc.package.OpcPackage.next_partname.second_call", replay=_replay_partnames_twice, timeout_ms=90000)
def _next_partname_twice(c):
    """a second allocation for the same template on the same package object, after the set of parts has changed arbitrarily
    (it now contains the first name): the name returned is again not the name of any part."""
    from pptx.opc.package import OpcPackage

    tmpl = "/ppt/charts/chart%d.xml"
    lit_a, lit_b = tmpl.split("%d")
    n1, n2 = c.int("n_parts_first"), c.int("n_parts_second")
    c.requires(z3.And(n1 >= 0, n2 >= 0))
    PN1 = z3.Function("PN_FIRST", z3.IntSort(), z3.StringSort())
    PN2 = z3.Function("PN_SECOND", z3.IntSort(), z3.StringSort())
    state = {"call": 0}

    def parts_of(PN, n, tag):
        return SSeq(n, lambda j: SObj(None, "part", partname=SStr([Atom("partname_%s[%s]" % (tag, j), zs=PN(j))])), name="iter_parts")

    def iter_parts(it, a, k):
        state["call"] += 1
        return parts_of(PN1, n1, "first") if state["call"] == 1 else parts_of(PN2, n2, "second")

    pkg = SObj(OpcPackage, "package", iter_parts=GhostFn(iter_parts, "iter_parts"))
    qn = "pptx.opc.package:OpcPackage.next_partname"
    holder = {}

    def inv(env, k):
        m = z3.Int("nm2")
        s = env["partnames"]
        holder["s"] = s
        L = getattr(s, "length_term", None)
        return z3.ForAll([m], z3.Implies(z3.And(L + 1 - k < m, m <= L + 1), s.exists_eq(z3.Concat(z3.StringVal(lit_a), z3.IntToStr(m), z3.StringVal(lit_b)))))

    def pigeonhole():
        s = holder.get("s")
        if s is not None and getattr(s, "length_term", None) is not None:
            m = z3.Int("pm4")
            c.assume(z3.Exists([m], z3.And(1 <= m, m <= s.length_term + 1, z3.Not(s.exists_eq(z3.Concat(z3.StringVal(lit_a), z3.IntToStr(m), z3.StringVal(lit_b)))))),
                     "pigeonhole: a set of L names cannot contain all of the L+1 candidates")

    c.loop_specs[(qn, 0)] = invariant_loop("C06.opc.package.OpcPackage.next_partname.second_call.loop0", [], inv)
    out1 = c.run(OpcPackage.next_partname, pkg, tmpl)
    if out1.raised:
        pigeonhole()
        c.fails("first.never_raises", "raised %s" % out1.exc)
        return
    z1 = out1.value.z3() if isinstance(out1.value, SStr) else None
    if z1 is None:
        c.fails("first.is_str", "first result has no string form")
        return
    j = z3.Int("pj2")
    # the second population is arbitrary except that it contains the name just handed out
    w = c.int("where_first_name_is")
    c.requires(z3.And(0 <= w, w < n2, PN2(w) == z1))
    out2 = c.run(OpcPackage.next_partname, pkg, tmpl)
    if out2.raised:
        pigeonhole()
        c.fails("second.never_raises", "raised %s" % out2.exc)
        return
    z2 = out2.value.z3() if isinstance(out2.value, SStr) else None
    c.ensures("second.is_str", z2 is not None)
    if z2 is None:
        return
    c.ensures("second.scanned_the_current_parts", state["call"] == 2)
    c.ensures("second.fresh_among_current_parts", z3.ForAll([j], z3.Implies(z3.And(0 <= j, j < n2), PN2(j) != z2)))


# ---------------------------------------------------------------------------------------------------------
# BOUNDED: histories of additions over decks with awkward id populations; uniqueness and stability observed after each step

_R_NS = "http://schemas.openxmlformats.org/officeDocument/2006/relationships"
_R_ATTRS = ("{%s}id" % _R_NS, "{%s}embed" % _R_NS, "{%s}link" % _R_NS, "{%s}pict" % _R_NS)


def _rel_target_key(rel):
    return ("ext", rel.target_ref) if rel.is_external else ("part", id(rel.target_part))


class _Tracker:
    """what was observable before a step, to be compared with what is observable after it"""

    def __init__(self, prs):
        self.prs = prs
        self.keep = []           # every element / part ever seen (kept alive so that identity is meaningful)
        self.shape_id = {}       # id(cNvPr element) -> its @id at first sight
        self.slide_id = {}       # id(slide part) -> slide id at first sight
        self.refs = {}           # (id(element), attr) -> (rId, target key) at last sight

    def _slide_parts(self):
        prs = self.prs
        parts = [(s.part, s) for s in prs.slides]
        for s in prs.slides:
            if s.has_notes_slide:
                parts.append((s.notes_slide.part, s.notes_slide))
        return parts

    def observe(self, first=False):
        """returns a description of the first thing that is wrong, else None; then records the new state"""
        prs = self.prs
        # -- slide ids
        sldIdLst = prs.slides._sldIdLst
        ids = [s.id for s in sldIdLst.sldId_lst]
        if len(set(ids)) != len(ids):
            return "slide ids are not unique: %s" % ids
        for sld in prs.slides:
            sid = sld.slide_id
            if not first and id(sld.part) not in self.slide_id and not (256 <= sid <= MAXID):
                return "new slide got id %r outside 256..2147483647" % sid
            old = self.slide_id.setdefault(id(sld.part), sid)
            self.keep.append(sld.part)
            if old != sid:
                return "slide id of an existing slide changed from %r to %r" % (old, sid)
            if prs.slides.get(sid) is None or prs.slides.get(sid).part is not sld.part:
                return "slides.get(%r) no longer designates the slide it did" % sid
        # -- slide part names: unique in the package, slide1..n in presentation order
        names = [str(p.partname) for p in prs.part.package.iter_parts()]
        dup = sorted(n for n in set(names) if names.count(n) > 1)
        if dup:
            return "part names are not unique: %s" % dup
        want = ["/ppt/slides/slide%d.xml" % (i + 1) for i in range(len(prs.slides))]
        got = [str(s.part.partname) for s in prs.slides]
        if got != want:
            return "slide parts are named %s, presentation order demands %s" % (got, want)
        # -- shape ids per slide-like part
        for part, obj in self._slide_parts():
            root = part._element
            self.keep.append(root)
            cnv = root.xpath("//p:cNvPr[not(ancestor::a:graphicData)]")  # the p:pic inside an embedded OLE object is not a shape of the slide
            before_vals = None
            new_here = []
            for el in cnv:
                self.keep.append(el)
                v = el.get("id")
                if id(el) in self.shape_id:
                    if self.shape_id[id(el)] != v:
                        return "%s: the id of an existing shape changed from %r to %r" % (part.partname, self.shape_id[id(el)], v)
                else:
                    self.shape_id[id(el)] = v
                    if not first:
                        new_here.append(el)
            if new_here:
                allvals = [el2.get("id") for el2 in cnv]  # the shape ids of the part (p:cTn/@id and the like are other id spaces)
                # the picture nested in an embedded object carries the constant id 0 (not a shape of the slide); any other value there
                # is in the part's id space like every p:cNvPr/@id
                allvals += [e_.get("id") for e_ in root.xpath("//a:graphicData//p:cNvPr") if e_.get("id") not in (None, "0")]
                for el in new_here:
                    v = el.get("id")
                    if not (v is not None and v.isdigit() and int(v) > 0):
                        return "%s: new shape got id %r (not a positive integer)" % (part.partname, v)
                    if allvals.count(v) > 1:
                        return "%s: new shape got id %s, which is used %d times in the part" % (part.partname, v, allvals.count(v))
            # lookups by id still designate the same element (for ids that are unique in the part)
        # -- relationship ids: per source unique by construction of the mapping; not reassigned while in use
        for part in list(prs.part.package.iter_parts()):
            root = getattr(part, "_element", None)
            if root is None:
                continue
            self.keep.append(root)
            for el in root.iter():
                if not isinstance(el.tag, str):
                    continue
                for at in _R_ATTRS:
                    rid = el.get(at)
                    if not rid:  # absent, or the empty r:id PowerPoint writes on a media hlinkClick
                        self.refs.pop((id(el), at), None)
                        continue
                    self.keep.append(el)
                    try:
                        key = _rel_target_key(part.rels[rid])
                    except KeyError:
                        return "%s: <%s %s=%r> refers to a relationship the part does not have" % (part.partname, el.tag.split("}")[1], at.split("}")[1], rid)
                    prev = self.refs.get((id(el), at))
                    if prev is not None and prev[0] == rid and prev[1] != key:
                        return "%s: %s of <%s> still in use but now designates another target (relationship id reassigned while in use)" % (
                            part.partname, rid, el.tag.split("}")[1])
                    self.refs[(id(el), at)] = (rid, key)
        return None


def _awkward_deck():
    """slide parts named 7, 3, 9; shape ids with gaps, a huge id, a non-numeric @id, duplicate names; slide ids near the top"""
    import io
    import re
    import zipfile

    from pptx import Presentation

    prs = Presentation()
    for i in range(3):
        s = prs.slides.add_slide(prs.slide_layouts[6])
        for j in range(3):
            s.shapes.add_textbox(0, 0, 10, 10).text_frame.text = "s%d_%d" % (i, j)
        g = s.shapes.add_group_shape()
        g.shapes.add_textbox(0, 0, 10, 10)
    sp = prs.slides[0].shapes
    cn = [x._element.xpath(".//p:cNvPr")[0] for x in sp]
    cn[0].set("id", "2147483000")
    cn[1].set("id", "17")
    cn[1].set("name", "TextBox 2")
    cn[2].set("name", "TextBox 2")
    prs.slides[1].shapes[0]._element.xpath(".//p:cNvPr")[0].set("id", "40")
    # notes slides numbered in creation order, not in slide order: notesSlide1 belongs to the third slide, notesSlide2 to the second
    prs.slides[2].notes_slide.notes_text_frame.text = "n3"
    prs.slides[1].notes_slide.notes_text_frame.text = "n2"
    ids = prs.slides._sldIdLst.sldId_lst
    ids[1].set("id", "2147483646")
    ids[2].set("id", "300")
    buf = io.BytesIO()
    prs.save(buf)
    ren = {"slide1.xml": "slide7.xml", "slide2.xml": "slide3.xml", "slide3.xml": "slide9.xml"}
    src = zipfile.ZipFile(io.BytesIO(buf.getvalue()))
    # whatever numbers the library gave the two notes slides, they become notesSlide1 and notesSlide2 (so the first slide, which has
    # no notes, is NOT the owner of notesSlide1): numbering in creation order, as PowerPoint does
    notes = sorted((n for n in src.namelist() if re.fullmatch(r"ppt/notesSlides/notesSlide\d+\.xml", n)), key=lambda n: int(re.findall(r"\d+", n)[-1]))
    nren = {n.split("/")[-1]: "notesSlide%d.xml" % (i + 1) for i, n in enumerate(notes)}
    out = io.BytesIO()
    with zipfile.ZipFile(out, "w") as z:
        for n in src.namelist():
            d = src.read(n)
            n2 = n
            m = re.fullmatch(r"ppt/slides/(_rels/)?(slide\d+\.xml)(\.rels)?", n)
            if m:
                n2 = "ppt/slides/%s%s%s" % (m.group(1) or "", "TMP" + ren[m.group(2)], m.group(3) or "")
            m = re.fullmatch(r"ppt/notesSlides/(_rels/)?(notesSlide\d+\.xml)(\.rels)?", n)
            if m:
                n2 = "ppt/notesSlides/%s%s%s" % (m.group(1) or "", "TMP" + nren[m.group(2)], m.group(3) or "")
            d = re.sub(rb'(["/])((?:slide|notesSlide)\d+\.xml)"', lambda mm: mm.group(1) + b"TMP" + {**ren, **nren}.get(mm.group(2).decode(), mm.group(2).decode()).encode() + b'"', d)
            if n == "ppt/slides/slide3.xml":
                # a foreign attribute named id with a non-numeric value somewhere in the part
                d = d.replace(b"<p:cSld>", b'<p:cSld><!-- x -->', 1).replace(b"<a:bodyPr", b'<a:bodyPr id="abc"', 1)
            z.writestr(n2.replace("TMP", ""), d.replace(b"TMP", b""))
    return out.getvalue()


def _native_histories(tier="quick", seed=0):
    import glob
    import io
    import os
    import random
    import struct
    import time as _t
    import zlib

    from pptx import Presentation
    from pptx.chart.data import CategoryChartData
    from pptx.enum.chart import XL_CHART_TYPE
    from pptx.enum.shapes import MSO_CONNECTOR, MSO_SHAPE
    from pptx.util import Inches

    t0 = _t.time()
    obls, evals = [], [0]

    def png(color):
        raw = b"".join(b"\x00" + bytes(color) * 2 for _ in range(2))

        def ch(t, d):
            return struct.pack(">I", len(d)) + t + d + struct.pack(">I", zlib.crc32(t + d) & 0xFFFFFFFF)
        return b"\x89PNG\r\n\x1a\n" + ch(b"IHDR", struct.pack(">IIBBBBB", 2, 2, 8, 2, 0, 0, 0)) + ch(b"IDAT", zlib.compress(raw)) + ch(b"IEND", b"")

    def rec(name, bad):
        r = {"name": name, "base": name, "kind": "bounded", "status": "refuted" if bad else "discharged", "backend": "native", "time": 0, "path": 0}
        if bad:
            r["replay"] = {"confirmed": True, "witness_class": "history", "detail": bad}
            r["model"] = None
        obls.append(r)

    def a_slide(prs, rnd):
        if not len(prs.slides):
            prs.slides.add_slide(prs.slide_layouts[6])
        return prs.slides[rnd.randrange(len(prs.slides))]

    def shapes_of(prs, rnd):
        """a shape collection: the slide's, or that of a (possibly nested) group on it"""
        sh = a_slide(prs, rnd).shapes
        for _ in range(2):
            groups = [x for x in sh if x.shape_type is not None and "GROUP" in str(x.shape_type)]
            if groups and rnd.random() < 0.4:
                sh = rnd.choice(groups).shapes
        return sh

    def op_slide(prs, rnd):
        prs.slides.add_slide(prs.slide_layouts[rnd.randrange(len(prs.slide_layouts))])

    def op_shape(prs, rnd):
        sh = shapes_of(prs, rnd)
        k = rnd.randrange(5)
        if k == 0:
            sh.add_shape(MSO_SHAPE.RECTANGLE, 0, 0, 100, 100)
        elif k == 1:
            sh.add_textbox(0, 0, 100, 100)
        elif k == 2:
            sh.add_connector(MSO_CONNECTOR.STRAIGHT, 0, 0, 10, 10)
        elif k == 3:
            sh.add_group_shape().shapes.add_textbox(0, 0, 10, 10)
        else:
            # one builder, two shapes (the builder may be converted any number of times): each gets an id of its own
            fb = sh.build_freeform(0, 0).add_line_segments([(10, 10), (20, 0)])
            fb.convert_to_shape()
            fb.convert_to_shape(5, 5)

    def op_turbo(prs, rnd):
        sh = a_slide(prs, rnd).shapes
        sh.turbo_add_enabled = True
        for _ in range(3):
            sh.add_textbox(0, 0, 10, 10)
        sh.add_group_shape()
        # shapes whose markup nests further id-carrying elements (the icon picture of an embedded object, a movie's picture), then more
        sh.add_ole_object(io.BytesIO(b"PK\x03\x04fake"), "Some.ProgId", 0, 0, 100, 100)
        sh.add_textbox(0, 0, 10, 10)
        sh.add_connector(MSO_CONNECTOR.STRAIGHT, 0, 0, 10, 10)
        sh.turbo_add_enabled = False

    def op_graphic(prs, rnd):
        sh = a_slide(prs, rnd).shapes
        k = rnd.randrange(4)
        if k == 0:
            sh.add_table(2, 2, 0, 0, 1000, 1000)
        elif k == 1:
            d = CategoryChartData()
            d.categories = ["a", "b"]
            d.add_series("s", (1, 2))
            sh.add_chart(rnd.choice([XL_CHART_TYPE.COLUMN_CLUSTERED, XL_CHART_TYPE.PIE]), 0, 0, Inches(2), Inches(2), d)
        elif k == 2:
            sh.add_ole_object(io.BytesIO(b"PK\x03\x04fake"), "Some.ProgId", 0, 0, 100, 100)
        else:
            sh.add_movie(io.BytesIO(b"\x00\x00\x00\x18ftypmp42" + bytes([rnd.randrange(3)])), 0, 0, 100, 100, poster_frame_image=None, mime_type="video/mp4")

    def op_picture(prs, rnd):
        shapes_of(prs, rnd).add_picture(io.BytesIO(png(rnd.choice([(255, 0, 0), (0, 255, 0), (0, 0, 255)]))), 0, 0)

    def op_placeholder(prs, rnd):
        lays = [l for l in prs.slide_layouts if any("PICTURE" in str(ph.placeholder_format.type) for ph in l.placeholders)]
        if not lays:
            return
        s = prs.slides.add_slide(lays[0])
        for ph in s.placeholders:
            if "PICTURE" in str(ph.placeholder_format.type):
                ph.insert_picture(io.BytesIO(png((9, 9, rnd.randrange(3)))))
                break

    def op_notes(prs, rnd):
        a_slide(prs, rnd).notes_slide.notes_text_frame.text = "n"

    URLS = ["http://a/", "http://b/", "http://c/"]

    def runs_of(slide):
        out = []
        for shp in slide.shapes:
            if shp.has_text_frame:
                for p in shp.text_frame.paragraphs:
                    out.extend(p.runs)
        return out

    def op_link(prs, rnd):
        """hyperlinks on runs and shapes; the same URL on a part shares one relationship"""
        s = a_slide(prs, rnd)
        tb = s.shapes.add_textbox(0, 0, 10, 10)
        for _ in range(rnd.randrange(1, 3)):
            r = tb.text_frame.paragraphs[0].add_run()
            r.text = "link"
            r.hyperlink.address = rnd.choice(URLS)
        if rnd.random() < 0.5:
            s.shapes.add_shape(MSO_SHAPE.OVAL, 0, 0, 10, 10).click_action.hyperlink.address = rnd.choice(URLS)

    def op_relink(prs, rnd):
        """re-point or clear the hyperlink of an existing run / shape, then add something that needs a new relationship"""
        s = a_slide(prs, rnd)
        linked = [r for r in runs_of(s) if r.hyperlink.address is not None]
        if linked:
            rnd.choice(linked).hyperlink.address = rnd.choice(URLS + [None, "http://new%d/" % rnd.randrange(99)])
        acts = [x for x in s.shapes if "GROUP" not in str(x.shape_type) and hasattr(type(x), "click_action") and x.click_action.hyperlink.address is not None]
        if acts and rnd.random() < 0.5:
            rnd.choice(acts).click_action.hyperlink.address = rnd.choice(URLS + [None])
        if rnd.random() < 0.7:
            s.shapes.add_picture(io.BytesIO(png((rnd.randrange(250), 1, 2))), 0, 0)

    def op_jump(prs, rnd):
        s = a_slide(prs, rnd)
        sh = s.shapes.add_shape(MSO_SHAPE.OVAL, 0, 0, 10, 10)
        sh.click_action.target_slide = a_slide(prs, rnd)
        if rnd.random() < 0.4:
            sh.click_action.target_slide = rnd.choice([None, a_slide(prs, rnd)])

    def op_reopen(prs, rnd):
        raise _Reopen()

    class _Reopen(Exception):
        pass

    ops = [op_slide, op_shape, op_shape, op_turbo, op_graphic, op_picture, op_placeholder, op_notes, op_link, op_link, op_relink, op_relink, op_jump]

    repo = os.environ.get("PPTX_REPO", "/repo")
    starts = [("default_template", None), ("awkward_ids_and_names", _awkward_deck())]
    for f in sorted(glob.glob(os.path.join(repo, "features", "steps", "test_files", "*.pptx"))):
        if os.path.basename(f) in (("shp-shapes.pptx", "test.pptx") if tier == "quick" else ("shp-shapes.pptx", "test.pptx", "shp-groupshape.pptx", "sld-slides.pptx", "act-props.pptx", "cht-charts.pptx")):
            starts.append((os.path.basename(f), open(f, "rb").read()))
    N = 30 if tier == "quick" else 400
    L = 10 if tier == "quick" else 16
    for label, start in starts:
        rnd = random.Random(seed * 104729 + len(label))
        bad = None
        for h in range(N if start is None or label.startswith("awkward") else max(3, N // 5)):
            prs = Presentation(io.BytesIO(start)) if start else Presentation()
            try:
                _ = len(prs.slides)
                tr = _Tracker(prs)
                pre = tr.observe(first=True)
            except Exception as e:
                pre = "cannot be observed: %r" % (e,)
            if pre:
                # the starting deck itself is outside the property's premise (e.g. duplicate slide ids): not judged
                break
            hist = []
            for step in range(L):
                op = rnd.choice(ops)
                hist.append(op.__name__)
                try:
                    op(prs, rnd)
                except Exception as e:
                    bad = bad or "%s, history %s: %s raised %r" % (label, hist, op.__name__, e)
                    break
                evals[0] += 1
                try:
                    w = tr.observe()
                except Exception as e:
                    w = "observation raised %r" % (e,)
                if w:
                    bad = bad or "%s, history %s: %s" % (label, hist, w)
                    break
            if bad:
                break
        rec("C06.native.histories[%s]" % label, bad)
    # time-node ids: a slide that already carries an animation tree (ids anywhere in it, nested, non-contiguous), then movies are added
    from pptx.oxml import parse_xml
    from pptx.oxml.ns import nsdecls

    bad = None
    trees = [
        '<p:timing %s><p:tnLst><p:par><p:cTn id="1" dur="indefinite" restart="never" nodeType="tmRoot"><p:childTnLst><p:seq concurrent="1" nextAc="seek"><p:cTn id="2" dur="indefinite" '
        'nodeType="mainSeq"><p:childTnLst><p:par><p:cTn id="3" fill="hold"><p:childTnLst><p:par><p:cTn id="4" fill="hold"><p:childTnLst><p:par><p:cTn id="5" presetID="1" presetClass="entr" '
        'presetSubtype="0" fill="hold" nodeType="clickEffect"><p:childTnLst><p:set><p:cBhvr><p:cTn id="6" dur="1" fill="hold"/><p:tgtEl><p:spTgt spid="2"/></p:tgtEl></p:cBhvr></p:set>'
        '</p:childTnLst></p:cTn></p:par></p:childTnLst></p:cTn></p:par></p:childTnLst></p:cTn></p:par></p:childTnLst></p:cTn></p:seq></p:childTnLst></p:cTn></p:par></p:tnLst></p:timing>',
        '<p:timing %s><p:tnLst><p:par><p:cTn id="9" dur="indefinite" restart="never" nodeType="tmRoot"><p:childTnLst><p:seq><p:cTn id="40" dur="indefinite" nodeType="mainSeq">'
        '<p:childTnLst><p:par><p:cTn id="2" fill="hold"/></p:par></p:childTnLst></p:cTn></p:seq></p:childTnLst></p:cTn></p:par></p:tnLst></p:timing>',
    ]
    for ti, tree in enumerate(trees):
        prs = Presentation()
        sl = prs.slides.add_slide(prs.slide_layouts[6])
        sl.shapes.add_textbox(0, 0, 10, 10)
        sl._element.append(parse_xml(tree % nsdecls("p")))
        for k in range(3):
            evals[0] += 1
            try:
                sl.shapes.add_movie(io.BytesIO(b"\x00\x00\x00\x18ftypmp42" + bytes([k])), 0, 0, 100, 100, poster_frame_image=None, mime_type="video/mp4")
            except Exception as e:
                bad = bad or "slide with animation tree #%d: add_movie raised %r" % (ti, e)
                break
            ids = [int(x) for x in sl._element.xpath("//p:cTn/@id")]
            if len(set(ids)) != len(ids):
                bad = bad or "slide with animation tree #%d: after %d movie(s) the time-node ids are %s" % (ti, k + 1, ids)
    rec("C06.native.time_node_ids_unique_on_slides_with_animations", bad)
    return {"contract": "C06.native_histories", "prop": "C06", "status": "ok", "obligations": obls, "paths": 0, "assumed": [], "functions": {},
            "notes": [], "solver_s": 0.0, "wall_s": _t.time() - t0,
            "bounded": {"name": "C06.native_histories", "bound": "random histories of %d additions (13 operation kinds incl. nested groups, turbo mode, shared and re-pointed hyperlinks) "
                        "from the default template, a deck with slide parts 7/3/9, huge / non-numeric / gapped ids and duplicate names, and corpus decks; observed after every step" % L,
                        "evaluations": evals[0], "samples": [], "counted_as_proved": False}}


JOBS = {"C06.native_histories": _native_histories}

"""C12 -- inspecting a presentation does not change it.  DESIGN.md 5/C12.

Frame contracts: every public read accessor of the object model (properties, lazy properties, __iter__/__len__/__getitem__)
carries the clause the property grants it -- `pure`, or at most `adds-empty-container` -- unless its own docstring documents
that it creates content.  The clause is discharged by effect inference over the real source (pyvc.effects), function by
function with callees taken at their inferred effect; receivers are typed from a table OBSERVED on the corpus decks on every
run.  The bounded job invokes every accessor on every object of the corpus decks and diffs all parts (canonicalised by
dropping empty attribute-less elements), which also covers accessors the inference cannot resolve."""
from __future__ import annotations

import glob
import hashlib
import inspect
import io
import os
import time as _t

META = {
    "residual": [
        "receiver types come from observation of the corpus decks (60 PowerPoint-authored decks of the repository + one generated deck): a member whose value "
        "was never observed leaves the accessor unresolved (bounded check only); a value of a class never observed at that place is not covered",
        "lxml members are classified by a fixed reader/writer table; C-level lxml code is trusted",
        "PackageWriter / part.blob serialisation is pure by the C01 writer contracts (no store into parts) -- saving any number of times is covered by the bounded job",
        "known findings: accessors that create non-empty content without saying so in their docstring (known_findings.json)",
    ],
    "trusted_base": ["pyvc.effects (AST effect inference)", "lxml reader/writer table", "observed type table", "lxml c14n for the run-time diff"],
}

_DOC_WORDS = ("destructive", "is created", "are created", "one is created", "creates", "adds a", "adds an", "if not present", "if one is not", "is added", "will remove", "causes")
# accessors the property statement itself lists as documented creators (properties.jsonl C12 anchors)
_PROPERTY_EXCEPTIONS = {("Slide", "notes_slide"), ("_Background", "fill"), ("Font", "color"), ("Chart", "chart_title"), ("Presentation", "notes_master"),
                        ("Package", "core_properties"), ("Presentation", "slides"), ("Presentation", "core_properties")}


def _corpus(tier):
    repo = os.environ.get("PPTX_REPO", "/repo")
    files = sorted(glob.glob(os.path.join(repo, "features", "steps", "test_files", "*.pptx")))
    if tier == "quick":
        keep = ("test.pptx", "cht-datalabels.pptx", "cht-axis-props.pptx", "cht-point-props.pptx", "cht-legend-props.pptx", "tbl-cell.pptx", "txt-font-props.pptx",
                "shp-shapes.pptx", "shp-picture.pptx", "sld-notes.pptx", "dml-fill.pptx", "dml-line.pptx", "ph-populated-placeholders.pptx", "shp-groupshape.pptx",
                "prs-slide-masters.pptx")
        files = [f for f in files if os.path.basename(f) in keep]
    return files


def _generated_deck():
    """one deck with every kind of shape python-pptx makes (bytes)"""
    import struct
    import zlib

    from pptx import Presentation
    from pptx.chart.data import CategoryChartData, XyChartData
    from pptx.enum.chart import XL_CHART_TYPE
    from pptx.enum.shapes import MSO_CONNECTOR, MSO_SHAPE
    from pptx.util import Inches

    def png():
        raw = b"".join(b"\x00" + bytes((200, 10, 10)) * 2 for _ in range(2))

        def ch(t, d):
            return struct.pack(">I", len(d)) + t + d + struct.pack(">I", zlib.crc32(t + d) & 0xFFFFFFFF)

        return b"\x89PNG\r\n\x1a\n" + ch(b"IHDR", struct.pack(">IIBBBBB", 2, 2, 8, 2, 0, 0, 0)) + ch(b"IDAT", zlib.compress(raw)) + ch(b"IEND", b"")

    prs = Presentation()
    s = prs.slides.add_slide(prs.slide_layouts[1])
    s.shapes.title.text = "Title"
    s.placeholders[1].text_frame.text = "body\nsecond"
    sh = s.shapes
    a = sh.add_shape(MSO_SHAPE.ROUNDED_RECTANGLE, 0, 0, Inches(1), Inches(1))
    a.text_frame.text = "auto"
    a.text_frame.paragraphs[0].runs[0].font.bold = True
    a.fill.solid()
    a.line.width = 12700
    # guide lists as other producers leave them: a guide the preset does not define, a partial list, guides in another order, no a:avLst
    from lxml import etree as _et

    A = "http://schemas.openxmlformats.org/drawingml/2006/main"
    for shp_type, guides in ((MSO_SHAPE.CHEVRON, [("adj", 25000), ("adj2", 16667)]), (MSO_SHAPE.ARC, [("adj2", 31000)]),
                             (MSO_SHAPE.BLOCK_ARC, [("adj3", 11111), ("adj1", 9000000), ("adj2", 22222)]), (MSO_SHAPE.RECTANGLE, [("hf", 50000)]), (MSO_SHAPE.DONUT, None)):
        shp = sh.add_shape(shp_type, 0, 0, Inches(1), Inches(1))
        geom = shp._element.spPr.find("{%s}prstGeom" % A)
        av = geom.find("{%s}avLst" % A)
        if guides is None:
            geom.remove(av)
            continue
        for gd in list(av):
            av.remove(gd)
        for nm, val in guides:
            _et.SubElement(av, "{%s}gd" % A, name=nm, fmla="val %d" % val)
    sh.add_textbox(0, 0, 100, 100).text_frame.text = "tb"
    sh.add_picture(io.BytesIO(png()), 0, 0)
    sh.add_connector(MSO_CONNECTOR.ELBOW, 0, 0, 10, 10)
    g = sh.add_group_shape()
    g.shapes.add_textbox(0, 0, 10, 10)
    sh.build_freeform(0, 0).add_line_segments([(10, 10), (20, 0)]).convert_to_shape()
    t = sh.add_table(3, 3, 0, 0, Inches(3), Inches(2)).table
    t.cell(0, 0).merge(t.cell(1, 1))
    t.cell(2, 2).text = "c"
    cd = CategoryChartData()
    cd.categories = ["a", "b"]
    cd.add_series("s1", (1, 2))
    cd.add_series("s2", (3, None))
    for ct in (XL_CHART_TYPE.COLUMN_CLUSTERED, XL_CHART_TYPE.LINE_MARKERS, XL_CHART_TYPE.PIE, XL_CHART_TYPE.BAR_STACKED):
        sh.add_chart(ct, 0, 0, Inches(2), Inches(2), cd)
    xy = XyChartData()
    ser = xy.add_series("xy")
    ser.add_data_point(1, 2)
    ser.add_data_point(2, 3)
    sh.add_chart(XL_CHART_TYPE.XY_SCATTER, 0, 0, Inches(2), Inches(2), xy)
    sh.add_movie(io.BytesIO(b"\x00\x00\x00\x18ftypmp42"), 0, 0, 100, 100, mime_type="video/mp4")
    s.notes_slide.notes_text_frame.text = "note"
    r = sh.add_textbox(0, 0, 10, 10).text_frame.paragraphs[0].add_run()
    r.text = "link"
    r.hyperlink.address = "http://example.com/"
    s2 = prs.slides.add_slide(prs.slide_layouts[6])
    sh.add_shape(MSO_SHAPE.OVAL, 0, 0, 10, 10).click_action.target_slide = s2
    prs.core_properties.title = "t"
    # a second picture whose stored bytes are not of the declared type (JPEG bytes in image/png part, as some producers leave them):
    # the bytes are swapped in the saved zip, the declaration stays
    from PIL import Image as _PIL

    marker = io.BytesIO()
    _PIL.new("RGB", (3, 2), (1, 200, 3)).save(marker, "PNG")
    pic2 = sh.add_picture(io.BytesIO(marker.getvalue()), 0, 0)
    name2 = str(pic2.part.related_part(pic2._pic.blip_rId).partname)[1:]
    jpg = io.BytesIO()
    _PIL.new("RGB", (3, 2), (1, 200, 3)).save(jpg, "JPEG")
    buf = io.BytesIO()
    prs.save(buf)
    import zipfile

    out = io.BytesIO()
    with zipfile.ZipFile(io.BytesIO(buf.getvalue())) as zin, zipfile.ZipFile(out, "w", zipfile.ZIP_DEFLATED) as zout:
        rels1 = zin.read("ppt/charts/_rels/chart1.xml.rels")
        import re as _re

        shared_target = _re.search(rb'Target="([^"]*embeddings/[^"]*)"', rels1).group(1)
        for info in zin.infolist():
            data_ = jpg.getvalue() if info.filename == name2 else zin.read(info.filename)
            if info.filename == "ppt/charts/_rels/chart2.xml.rels":
                # two charts sharing one embedded workbook (legal OPC; left by producers that duplicate a chart)
                data_ = _re.sub(rb'Target="[^"]*embeddings/[^"]*"', b'Target="' + shared_target + b'"', data_)
            zout.writestr(info.filename, data_)
    return out.getvalue()


def _sources(tier):
    if tier in _SRC:
        return _SRC[tier]
    out = [("generated", _generated_deck())]
    try:
        from .c06 import _awkward_deck

        out.append(("slide_parts_named_7_3_9", _awkward_deck()))  # slide parts not numbered in presentation order (renamed on first access to .slides)
    except Exception:
        pass
    for f in _corpus(tier):
        out.append((os.path.basename(f), open(f, "rb").read()))
    _SRC[tier] = out
    return out


# ---------------------------------------------------------------------------------------------------------
# object model


def _is_elem_cls(t):
    return isinstance(t, type) and hasattr(t, "tag") and hasattr(t, "getparent")


def _is_proxy(o):
    t = type(o)
    m = getattr(t, "__module__", "") or ""
    if not m.startswith("pptx.") or isinstance(o, (type, str, int, float, bytes, tuple)):
        return False
    if t.__name__ == "ChartWorkbook" and m == "pptx.parts.chart":
        return True  # the documented way to the chart's embedded workbook: chart.part.chart_workbook(.xlsx_part)
    if m.startswith(("pptx.oxml", "pptx.opc", "pptx.enum", "pptx.parts", "pptx.util", "pptx.exc")) or m in ("pptx.package", "pptx.media"):
        return False
    return not hasattr(o, "tag")


def _accessors(t):
    from pptx.util import lazyproperty

    out = []
    for name in dir(t):
        if name.startswith("_") and name not in ("__iter__", "__len__"):
            continue
        d = inspect.getattr_static(t, name, None)
        if isinstance(d, (property, lazyproperty)):
            out.append(name)
    return out


_LOOKUP_NAME = re.compile(r"^(__getitem__|__contains__|__eq__|__ne__|index|get|count|(iter|is|has|find|get_by|part_related_by|related_part|target_ref)[a-z_]*)$") if (re := __import__("re")) else None


def _lookup_methods(t):
    """methods that only look something up, by their name: positional lookups, membership, searches, predicates"""
    import types

    out = []
    for name in dir(t):
        if not _LOOKUP_NAME.match(name):
            continue
        d = inspect.getattr_static(t, name, None)
        if isinstance(d, types.FunctionType) and (d.__module__ or "").startswith("pptx"):
            out.append(name)
    return out


def _documented_creating(cls, name):
    d = None
    for k in cls.__mro__:
        if name in k.__dict__:
            d = k.__dict__[name]
            break
    doc = getattr(d, "__doc__", None) or getattr(getattr(d, "fget", None), "__doc__", None) or getattr(getattr(d, "_fget", None), "__doc__", None) or ""
    doc = " ".join(doc.split()).lower()
    if any((k.__name__, name) in _PROPERTY_EXCEPTIONS for k in cls.__mro__):
        return True
    return any(w in doc for w in _DOC_WORDS)


def _canon(el):
    from lxml import etree

    e = etree.fromstring(etree.tostring(el))
    changed = True
    while changed:
        changed = False
        for x in list(e.iter()):
            if x is e:
                continue
            if len(x) == 0 and not x.attrib and not (x.text or "").strip():
                x.getparent().remove(x)
                changed = True
    return etree.tostring(e, method="c14n")


def _ct_entries(data):
    import zipfile

    from lxml import etree

    root = etree.fromstring(zipfile.ZipFile(io.BytesIO(data)).read("[Content_Types].xml"))
    return sorted((etree.QName(e).localname, e.get("Extension") or e.get("PartName"), e.get("ContentType")) for e in root)


def _fingerprint(prs):
    pkg = prs.part.package
    parts = {}
    for p in pkg.iter_parts():
        el = getattr(p, "_element", None)
        # the declared content type is part of what is saved ([Content_Types].xml); read without going through the caching property
        ct = getattr(p, "_content_type", None) or p.content_type
        parts[str(p.partname)] = hashlib.sha1(_canon(el) if el is not None else p.blob).hexdigest() + "|" + str(ct)
    rels = sorted((str(getattr(r._target, "partname", r._target)), r.reltype, r.rId) for r in pkg.iter_rels())
    return parts, rels


def _walk(prs, visit, skip=(), budget=4000):
    """breadth-limited walk of the proxy object graph; visit(obj, name) -> value is called for every accessor not in `skip`"""
    seen, todo, n = set(), [prs], 0
    keep = []  # keeps every visited proxy alive: ids of collected objects are reused, which would make the walk skip new ones
    while todo and n < budget:
        o = todo.pop()
        # proxies are made on the fly: identify an object by its class and the element / part it wraps
        ident = (type(o), id(getattr(o, "_element", None)) if getattr(o, "_element", None) is not None else id(o), getattr(o, "_idx", None))
        if ident in seen:
            continue
        seen.add(ident)
        keep.append(o)
        n += 1
        t = type(o)
        for name in _accessors(t):
            if (t.__name__, name) in skip or any((k.__name__, name) in skip for k in t.__mro__):
                continue
            try:
                v = visit(o, name)
            except Exception:
                continue
            if _is_proxy(v):
                todo.append(v)
            elif isinstance(v, (list, tuple)):
                todo.extend(x for x in v[:40] if _is_proxy(x))
        if t.__name__ == "Chart" and not (("Chart", "part.chart_workbook") in skip):
            try:
                todo.append(o.part.chart_workbook)
            except Exception:
                pass
        if (inspect.getattr_static(t, "__iter__", None) is not None or (inspect.getattr_static(t, "__getitem__", None) is not None and inspect.getattr_static(t, "__len__", None) is not None)) \
                and not (t.__name__, "__iter__") in skip:
            try:
                for i, x in enumerate(o):
                    if _is_proxy(x):
                        todo.append(x)
                    if i > 40:
                        break
            except Exception:
                pass
    return n


# ---------------------------------------------------------------------------------------------------------
# observation of receiver types (throw-away copies of the decks)

_OBS = {}


def _observe(tier):
    if tier in _OBS:
        return _OBS[tier]
    from pptx import Presentation

    obs = {}
    classes = {}

    def note(owner, name, v):
        key = (type(owner).__name__, name)
        if isinstance(v, (list, tuple)):
            obs.setdefault(key, set()).add(type(v))
            for x in v[:20]:
                obs.setdefault((key[0], name + "<item>"), set()).add(type(x))
        elif v is not None:
            obs.setdefault(key, set()).add(type(v))
            if hasattr(v, "__iter__") and not isinstance(v, (str, bytes, dict)) and not hasattr(v, "tag") and (type(v).__module__ or "").startswith("pptx"):
                try:
                    for i, x in enumerate(v):
                        obs.setdefault((type(v).__name__, "<iter>"), set()).add(type(x))
                        if i > 20:
                            break
                except Exception:
                    pass
        classes[type(owner).__name__] = type(owner)

    seen_elems = set()
    alive = []  # ids of collected objects are reused: keep every visited object alive

    def observe_obj(o, depth=0):
        """instance fields and (private and public) properties of proxies, parts and elements"""
        t = type(o)
        for k, v in list(getattr(o, "__dict__", {}).items()):
            note(o, k, v)
            follow(v, depth)
        for name in dir(t):
            if name.startswith("__"):
                continue
            d = inspect.getattr_static(t, name, None)
            if isinstance(d, property) or type(d).__name__ == "lazyproperty":
                try:
                    v = getattr(o, name)
                except Exception:
                    continue
                note(o, name, v)
                follow(v, depth)
        if hasattr(o, "tag") and hasattr(o, "getparent"):
            try:
                for ch in o:
                    obs.setdefault((t.__name__, "<iter>"), set()).add(type(ch))
                par = o.getparent()
                if par is not None:
                    obs.setdefault((t.__name__, "getparent()"), set()).add(type(par))
            except Exception:
                pass

    def follow(v, depth):
        vals = v if isinstance(v, (list, tuple)) else [v]
        for x in vals[:30]:
            m = getattr(type(x), "__module__", "") or ""
            if not m.startswith("pptx") or isinstance(x, (str, int, float, bytes, type)) or m.startswith("pptx.enum"):
                continue
            ident = (type(x), id(getattr(x, "_element", None)) if getattr(x, "_element", None) is not None and not hasattr(x, "tag") else id(x), getattr(x, "_idx", None))
            if ident in seen_elems or depth > 60:
                continue
            seen_elems.add(ident)
            alive.append(x)
            stack.append((x, depth + 1))

    for name, data in _sources(tier):
        prs = Presentation(io.BytesIO(data))
        stack = [(prs, 0)]
        alive.append(prs)
        count = 0
        while stack and count < 6000:
            o, d = stack.pop()
            count += 1
            observe_obj(o, d)
            t = type(o)
            if _is_proxy(o) and inspect.getattr_static(t, "__iter__", None) is not None:
                try:
                    for i, x in enumerate(o):
                        obs.setdefault((t.__name__, "<iter>"), set()).add(type(x))
                        follow(x, d)
                        if i > 30:
                            break
                except Exception:
                    pass
    _OBS[tier] = (obs, classes)
    return _OBS[tier]


# ---------------------------------------------------------------------------------------------------------
# the static obligations


def _proxy_classes():
    import importlib
    import pkgutil

    import pptx

    out = {}
    for m in pkgutil.walk_packages(pptx.__path__, "pptx."):
        if m.name.startswith(("pptx.oxml", "pptx.opc", "pptx.enum", "pptx.parts", "pptx.compat")) or m.name in ("pptx.util", "pptx.exc", "pptx.package", "pptx.media", "pptx.spec", "pptx.types", "pptx.api"):
            continue
        try:
            mod = importlib.import_module(m.name)
        except Exception:
            continue
        for n, c in vars(mod).items():
            if isinstance(c, type) and c.__module__ == mod.__name__ and not issubclass(c, (Exception, str, int, float, tuple)):
                out[(mod.__name__, n)] = c
    return out


def _static_frames(tier="quick", seed=0):
    from pyvc.effects import EMPTY, MUT, NAMES, PURE, UNK, Analysis, register_tags

    register_tags()
    t0 = _t.time()
    obs, _ = _observe(tier)
    ana = Analysis(obs, _is_elem_cls)
    obls, notes, unresolved = [], [], []
    functions = {}
    counts = {PURE: 0, EMPTY: 0, MUT: 0, UNK: 0}
    # an accessor is analysed for every concrete class that inherits it (receiver types differ), and reported once, under
    # the class that defines it: the clause fails if it fails for any of them
    agg = {}
    for (modname, cname), cls in sorted(_proxy_classes().items()):
        lookups = set(_lookup_methods(cls))
        for name in _accessors(cls) + sorted(lookups - set(_accessors(cls))):
            owner = next((k for k in cls.__mro__ if name in k.__dict__), None)
            if owner is None or not (owner.__module__ or "").startswith("pptx"):
                continue
            eff, why = ana.member_effect(cls, name, "call" if name.startswith("__") or name in lookups else "get")
            counts[eff] += 1
            key = (owner.__module__.replace("pptx.", ""), owner.__name__, name)
            functions["%s:%s.%s" % (owner.__module__, owner.__name__, name)] = 1
            a = agg.setdefault(key, {"effs": [], "documented": False, "owner": owner})
            a["effs"].append((eff, why, cname))
            a["documented"] = a["documented"] or _documented_creating(cls, name)
    for (omod, oname_, name), a in sorted(agg.items()):
        oname = "C12.frame.%s.%s.%s" % (omod, oname_, name)
        resolved = [(e, w, cn) for e, w, cn in a["effs"] if e != UNK]
        if not resolved:
            unresolved.append("%s (%s)" % (oname, a["effs"][0][1]))
            continue
        eff, why, cname = max(resolved, key=lambda t: t[0])
        documented = a["documented"]
        rec = {"name": oname, "base": oname, "kind": "post", "backend": "effect-inference", "time": 0, "path": 0,
               "claim": "effect(%s.%s) <= %s" % (oname_, name, "mutates (documented as creating content)" if documented else "adds-empty-container"),
               "info": {"inferred": NAMES[eff], "why": why, "analysed_for": sorted({cn for _, _, cn in a["effs"]})[:12],
                        "unresolved_for": sorted({cn for e, _, cn in a["effs"] if e == UNK})[:12]}}
        if eff in (PURE, EMPTY) or documented:
            rec["status"] = "discharged"
        else:
            rec["status"] = "refuted"
            rec["model"] = {"accessor": "%s.%s" % (oname_, name), "inferred": NAMES[eff], "chain": why, "receiver_class": cname}
            rr = _replay_accessor(oname_, name, tier, chain=why)
            rec["replay"] = rr
            if not rr.get("confirmed") and oname_.startswith("_") and " on 0 objects" in rr.get("detail", ""):
                # an internal helper class (underscore name) that no public traversal reaches: its members are not read
                # accessors of the object model; the public accessors delegating to it carry the obligation
                notes.append("%s.%s: internal class never reached through the public API, no obligation of its own (%s)" % (oname_, name, why))
                continue
        obls.append(rec)
    notes.append("inferred effects: %d pure, %d adds-empty-container, %d mutates, %d unresolved (unresolved accessors are covered by C12.native_traversal only)"
                 % (counts[PURE], counts[EMPTY], counts[MUT], counts[UNK]))
    return {"contract": "C12.static_frames", "prop": "C12", "status": "ok", "obligations": obls, "paths": len(obls), "assumed": ["observed receiver-type table (corpus decks)", "lxml reader/writer table"],
            "functions": functions, "notes": notes + ["unresolved: " + "; ".join(unresolved[:400])], "solver_s": 0.0, "wall_s": _t.time() - t0,
            "unresolved": unresolved}


def _replay_accessor(cname, name, tier, chain=None):
    """invoke that accessor alone on every object of that class in fresh copies of the decks; report a non-empty change.
    With `chain` (the inferred call chain ending in get_or_add_<child> of an element class) a witness is synthesised when the
    corpus has none: the child is removed first from every element of that class, then the accessor is read."""
    from pptx import Presentation

    r = _replay_accessor0(cname, name, tier, None)
    if r.get("confirmed") or not chain:
        return r
    import re

    m = re.findall(r"(CT_\w+)\.(get_or_add_\w+|get_or_change_to_\w+)\(\)", chain)
    for ecls, meth in m[::-1]:
        r2 = _replay_accessor0(cname, name, tier, (ecls, meth))
        if r2.get("confirmed"):
            return r2
    return r


def _strip_child(prs, ecls, meth):
    """remove from every element of class `ecls` the child that `meth` would get-or-add; returns number removed"""
    n = 0
    prop = meth.replace("get_or_add_", "").replace("get_or_change_to_", "")
    for p in prs.part.package.iter_parts():
        root = getattr(p, "_element", None)
        if root is None:
            continue
        for el in list(root.iter()):
            if type(el).__name__ != ecls:
                continue
            rm = getattr(el, "_remove_%s" % prop, None)
            try:
                if getattr(el, prop, None) is not None and rm is not None:
                    rm()
                    n += 1
                elif prop == "dPt_for_point":
                    for d in list(el.dPt_lst):
                        el.remove(d)
                        n += 1
            except Exception:
                pass
    return n


def _replay_accessor0(cname, name, tier, strip):
    from pptx import Presentation

    hits = 0
    seen_in = _SEEN_IN.get(tier, {}).get((cname, name))
    for dname, data in _sources(tier):
        if seen_in is not None and dname not in seen_in:
            continue
        prs = Presentation(io.BytesIO(data))
        targets = []

        def visit(o, n):
            if n == name and any(k.__name__ == cname for k in type(o).__mro__):
                targets.append(o)
                raise RuntimeError("skip")
            return getattr(o, n)

        candidates = _CANDIDATES.get(tier, set())
        _walk(prs, visit, skip={c for c in candidates if c != (cname, name)})
        if not targets:
            continue
        removed = _strip_child(prs, *strip) if strip else 0
        if strip and not removed:
            continue
        before = _fingerprint(prs)
        for o in targets:
            try:
                if name == "__iter__":
                    list(o)
                elif name == "__len__":
                    len(o)
                else:
                    getattr(o, name)
            except Exception:
                pass
            hits += 1
        after = _fingerprint(prs)
        if before != after:
            changed = [k for k in after[0] if before[0].get(k) != after[0][k]] or ["relationships"]
            pre = (" after removing the %s child from %d %s element(s)" % (strip[1].split("_", 3)[-1], removed, strip[0])) if strip else ""
            return {"confirmed": True, "witness_class": "accessor-mutates", "detail": "%s%s: reading %s.%s on %d object(s) changed %s" % (dname, pre, cname, name, len(targets), changed[:3]),
                    "input": [dname, cname, name]}
    return {"confirmed": False, "detail": "%s.%s invoked on %d objects of the corpus: no non-empty change" % (cname, name, hits)}


def _cheap(prs):
    tot = 0
    pkg = prs.part.package
    parts = list(pkg.iter_parts())
    for p in parts:
        el = getattr(p, "_element", None)
        if el is not None:
            for x in el.iter():
                tot += 1 + len(x.attrib) + (len(x.text) if x.text else 0)
    return tot, len(parts), sum(1 for _ in pkg.iter_rels()), tuple(getattr(p, "_content_type", None) for p in parts)


def _locate(data, skip):
    """name the first accessor that makes a non-empty change during the traversal (slow path, only after a failure)"""
    from pptx import Presentation

    prs = Presentation(io.BytesIO(data))
    _ = prs.slides
    state = {"fp": _fingerprint(prs), "who": None, "cheap": _cheap(prs)}

    def visit(o, n):
        v = getattr(o, n)
        if state["who"] is None:
            c2 = _cheap(prs)
            if c2 != state["cheap"]:
                state["cheap"] = c2
                f2 = _fingerprint(prs)
                if f2 != state["fp"]:
                    state["who"] = "%s.%s" % (type(o).__name__, n)
        return v

    _walk(prs, visit, skip=skip)
    return state["who"]


_GUARDS = {"chart_title": "has_title", "axis_title": "has_title", "legend": "has_legend", "text_frame": "has_text_frame", "data_labels": "has_data_labels",
           "major_gridlines": "has_major_gridlines", "minor_gridlines": "has_minor_gridlines", "chart": "has_chart", "table": "has_table"}
_CANDIDATES = {}
_SEEN_IN = {}
_SRC = {}


def _native_traversal(tier="quick", seed=0):
    """every accessor on every object of every corpus deck; then any number of saves; compare with a straight open+save"""
    from pptx import Presentation

    t0 = _t.time()
    obls = []
    evals = 0
    culprits = {}
    guarded, guarded_seen = {}, {}
    srcs = _sources(tier)
    # pass 1: which accessors change anything at all (including documented ones), per deck
    for dname, data in srcs:
        prs = Presentation(io.BytesIO(data))
        state = {"fp": None}

        def cheap(prs=prs):
            tot = 0
            pkg = prs.part.package
            parts = list(pkg.iter_parts())
            for p in parts:
                el = getattr(p, "_element", None)
                if el is not None:
                    for x in el.iter():
                        tot += 1 + len(x.attrib) + (len(x.text) if x.text else 0)
            return tot, len(parts), sum(1 for _ in pkg.iter_rels()), tuple(getattr(p, "_content_type", None) for p in parts)

        checked = {}

        def visit(o, n, checked=checked):
            key = next((k.__name__ for k in type(o).__mro__ if n in k.__dict__), type(o).__name__)
            g_ = _GUARDS.get(n)
            if g_ is not None and hasattr(type(o), g_) and guarded_seen.get((key, n), 0) < 3 and (key, n) not in guarded:
                # the documented way to look without creating: `if x.has_title: x.chart_title ...` -- when the guard says the thing is
                # there, reading it makes no non-empty change (whether or not the accessor is a documented creator otherwise)
                try:
                    there = getattr(o, g_) is True
                except Exception:
                    there = False
                if there:
                    guarded_seen[(key, n)] = guarded_seen.get((key, n), 0) + 1
                    a0, f0 = cheap(), _fingerprint(prs)
                    v = getattr(o, n)
                    if cheap() != a0 and _fingerprint(prs) != f0:
                        guarded[(key, n)] = "%s: %s.%s is True, yet reading %s.%s made a non-empty change" % (dname, type(o).__name__, g_, type(o).__name__, n)
                    return v
            if checked.get((key, n), 0) >= 3 or (key, n) in culprits and dname in culprits[(key, n)]:
                return getattr(o, n)
            checked[(key, n)] = checked.get((key, n), 0) + 1
            a = cheap()
            v = getattr(o, n)
            if cheap() != a:
                culprits.setdefault((key, n), set()).add(dname)
            return v

        evals += _walk(prs, visit)
    for (cname_, name_), wit_ in sorted(guarded.items()):
        oname_ = "C12.native.guarded_read.%s.%s" % (cname_, name_)
        obls.append({"name": oname_, "base": oname_, "kind": "bounded", "backend": "native", "time": 0, "path": 0, "status": "refuted", "model": None,
                     "replay": {"confirmed": True, "witness_class": "accessor-mutates", "detail": wit_, "input": [cname_, name_]}})
    obls.append({"name": "C12.native.guarded_reads_do_not_create", "base": "C12.native.guarded_reads_do_not_create", "kind": "bounded", "backend": "native", "time": 0, "path": 0,
                 "status": "refuted" if guarded else "discharged", **({"model": None, "replay": {"confirmed": True, "witness_class": "accessor-mutates", "detail": sorted(guarded.values())[0]}} if guarded else {})})
    _CANDIDATES[tier] = set(culprits)
    _SEEN_IN[tier] = culprits
    # pass 2: each candidate alone on fresh copies: is the change more than empty containers?
    undocumented = []
    import importlib

    allcls = {n: c for (m, n), c in _proxy_classes().items()}
    for (cname, name) in sorted(culprits):
        rr = _replay_accessor(cname, name, tier)
        evals += 1
        cls = allcls.get(cname)
        documented = _documented_creating(cls, name) if cls is not None else False
        oname = "C12.native.accessor.%s.%s" % (cname, name)
        rec = {"name": oname, "base": oname, "kind": "bounded", "backend": "native", "time": 0, "path": 0}
        if rr.get("confirmed") and not documented:
            rec["status"] = "refuted"
            rec["replay"] = rr
            rec["model"] = None
        else:
            rec["status"] = "discharged"
            rec["info"] = {"documented_creating": documented, "non_empty_change": bool(rr.get("confirmed"))}
        obls.append(rec)
    # pass 3: pure traversal (undocumented-changing and documented accessors skipped) + saves == straight open+save
    bad = None
    skip = set()
    for cname, cls in allcls.items():
        for name in _accessors(cls):
            if _documented_creating(cls, name):
                skip.add((cname, name))
                for k in cls.__mro__:
                    if name in k.__dict__:
                        skip.add((k.__name__, name))
    known_mut = {(o["name"].split(".")[-2], o["name"].split(".")[-1]) for o in obls if o["status"] == "refuted"}
    for dname, data in srcs:
        ref2 = Presentation(io.BytesIO(data))
        _ = ref2.slides  # documented: first access renames slide parts; both sides do it
        b3 = io.BytesIO()
        ref2.save(b3)
        want = _fingerprint(Presentation(io.BytesIO(b3.getvalue())))
        for attempt in range(12):
            prs = Presentation(io.BytesIO(data))
            _ = prs.slides
            _walk(prs, lambda o, n: getattr(o, n), skip=skip | known_mut)
            b1 = io.BytesIO()
            prs.save(b1)
            _walk(prs, lambda o, n: getattr(o, n), skip=skip | known_mut, budget=800)
            b2 = io.BytesIO()
            prs.save(b2)
            got1 = _fingerprint(Presentation(io.BytesIO(b1.getvalue())))
            got2 = _fingerprint(Presentation(io.BytesIO(b2.getvalue())))
            evals += 3
            # the package-level items are written from the parts alone: the content-types item of a save after reading lists what
            # the straight save lists, entry for entry (a reader that tolerates surplus entries would hide a difference here)
            ct3, ct1, ct2 = _ct_entries(b3.getvalue()), _ct_entries(b1.getvalue()), _ct_entries(b2.getvalue())
            if (ct1 != ct3 or ct2 != ct3) and got1 == want and got2 == want:
                bad = bad or "%s: [Content_Types].xml of a save after a read-only traversal lists %d / %d entries, a save straight after opening lists %d (first difference: %s)" % (
                    dname, len(ct1), len(ct2), len(ct3), sorted(set(ct1 + ct2) ^ set(ct3))[:1] or [e_ for e_ in ct2 if ct2.count(e_) > 1][:1])
                break
            if got1 == want and got2 == want:
                break
            diff = [k for k in want[0] if got2[0].get(k) != want[0][k]] + [k for k in got2[0] if k not in want[0]]
            who = _locate(data, skip | known_mut)
            if who is None:
                bad = bad or "%s: saved after traversal differs from saved straight after opening in %s (no single accessor located)" % (dname, diff[:4] or "relationships")
                break
            wc, wn = who.split(".", 1)
            cls = allcls.get(wc)
            owner = next((k.__name__ for k in (cls.__mro__ if cls else ()) if wn in k.__dict__), wc)
            if cls is not None and _documented_creating(cls, wn):
                skip.add((owner, wn))
                continue
            known_mut.add((owner, wn))
            oname = "C12.native.accessor.%s.%s" % (owner, wn)
            if not any(o["name"] == oname and o["status"] == "refuted" for o in obls):
                obls[:] = [o for o in obls if o["name"] != oname]
                obls.append({"name": oname, "base": oname, "kind": "bounded", "backend": "native", "time": 0, "path": 0, "status": "refuted", "model": None,
                             "replay": {"confirmed": True, "witness_class": "accessor-mutates",
                                        "detail": "%s: during a read-only traversal, reading %s.%s made a non-empty change in %s" % (dname, wc, wn, diff[:3] or "relationships"),
                                        "input": [dname, owner, wn]}})
    # pass 3b: a save BEFORE the first access to .slides (which renames slide parts), then reading, then saving again
    bad3b = None
    for dname, data in srcs:
        ref2 = Presentation(io.BytesIO(data))
        _ = ref2.slides
        b3 = io.BytesIO()
        ref2.save(b3)
        want = _fingerprint(Presentation(io.BytesIO(b3.getvalue())))
        prs = Presentation(io.BytesIO(data))
        prs.save(io.BytesIO())
        _ = prs.slides
        _walk(prs, lambda o, n: getattr(o, n), skip=skip | known_mut, budget=600)
        b1 = io.BytesIO()
        prs.save(b1)
        prs.save(io.BytesIO())
        evals += 1
        got = _fingerprint(Presentation(io.BytesIO(b1.getvalue())))
        if got != want:
            diff = [k for k in want[0] if got[0].get(k) != want[0][k]] + [k for k in got[0] if k not in want[0]]
            bad3b = bad3b or "%s: open, save, read, save gives a deck that differs from open, read, save in %s" % (dname, diff[:4] or "relationships")
    rec3b = {"name": "C12.native.save_before_reading_then_read_and_save", "base": "C12.native.save_before_reading_then_read_and_save", "kind": "bounded", "backend": "native", "time": 0, "path": 0,
             "status": "refuted" if bad3b else "discharged"}
    if bad3b:
        rec3b["replay"] = {"confirmed": True, "witness_class": "traversal-changes-deck", "detail": bad3b}
        rec3b["model"] = None
    obls.append(rec3b)
    # pass 4: look-up methods (index, get, get_by_name, membership, positional access) with members of the collection, with members
    # of OTHER collections of the same kind (foreign arguments), with positions and names that do not exist
    bad4 = None
    for dname, data in srcs:
        ref2 = Presentation(io.BytesIO(data))
        _ = ref2.slides
        b3 = io.BytesIO()
        ref2.save(b3)
        want = _fingerprint(Presentation(io.BytesIO(b3.getvalue())))
        prs = Presentation(io.BytesIO(data))
        _ = prs.slides
        objs = []
        _walk(prs, lambda o, n: (objs.append(o), getattr(o, n))[1], skip=skip | known_mut, budget=1500)
        seen_ids, colls = set(), {}
        for o in objs:
            if id(o) in seen_ids:
                continue
            seen_ids.add(id(o))
            if _lookup_methods(type(o)) and hasattr(type(o), "__iter__"):
                colls.setdefault(type(o), []).append(o)
        for cls, group in colls.items():
            members = {}
            for c_ in group[:6]:
                try:
                    members[id(c_)] = list(c_)[:8]
                except Exception:
                    members[id(c_)] = []
            for c_ in group[:6]:
                own = members[id(c_)]
                foreign = [m for g in group[:6] if g is not c_ for m in members[id(g)][:3]]
                for meth in _lookup_methods(cls):
                    f = getattr(c_, meth, None)
                    if f is None or meth in ("__eq__", "__ne__"):
                        continue
                    for arg in own[:4] + foreign[:4] + [0, 1, -1, 10 ** 6, 255, 256, "x", "Title 1", None]:
                        evals += 1
                        try:
                            f(arg)
                        except Exception:
                            pass
        b1 = io.BytesIO()
        prs.save(b1)
        got = _fingerprint(Presentation(io.BytesIO(b1.getvalue())))
        if got != want:
            diff = [k for k in want[0] if got[0].get(k) != want[0][k]] + [k for k in got[0] if k not in want[0]]
            bad4 = bad4 or "%s: after calling the look-up methods (index / get / get_by_name / in / []) of its collections with own, foreign and absent arguments the saved deck differs in %s" % (dname, diff[:4] or "relationships")
    rec4 = {"name": "C12.native.lookup_methods_do_not_change_the_deck", "base": "C12.native.lookup_methods_do_not_change_the_deck", "kind": "bounded", "backend": "native", "time": 0, "path": 0,
            "status": "refuted" if bad4 else "discharged"}
    if bad4:
        rec4["replay"] = {"confirmed": True, "witness_class": "lookup-changes-deck", "detail": bad4}
        rec4["model"] = None
    obls.append(rec4)
    rec = {"name": "C12.native.traverse_save_traverse_save", "base": "C12.native.traverse_save_traverse_save", "kind": "bounded", "backend": "native", "time": 0, "path": 0,
           "status": "refuted" if bad else "discharged"}
    if bad:
        rec["replay"] = {"confirmed": True, "witness_class": "traversal-changes-deck", "detail": bad}
        rec["model"] = None
    obls.append(rec)
    return {"contract": "C12.native_traversal", "prop": "C12", "status": "ok", "obligations": obls, "paths": 0, "assumed": [], "functions": {}, "notes": [], "solver_s": 0.0, "wall_s": _t.time() - t0,
            "bounded": {"name": "C12.native_traversal", "bound": "%d decks (one generated with every shape kind + PowerPoint-authored corpus decks); every public accessor on every reachable object; "
                        "two saves with a traversal in between" % len(srcs), "evaluations": evals, "samples": [], "counted_as_proved": False}}


JOBS = {"C12.static_frames": _static_frames, "C12.native_traversal": _native_traversal}

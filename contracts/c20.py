"""C20 -- enumerations and the preset-shape table agree with the standard.  DESIGN.md 5/C20.

All obligations are finite and fully enumerated: the enum members, `spec.autoshape_types` and the
chart types are read from the live modules; the oracles are the XSD enumeration facets and
presetShapeDefinitions.xml shipped in /repo/spec.  Each obligation runs the real `to_xml`,
`from_xml`, `AutoShapeType.*` sources (closed terms: every argument concrete)."""
from __future__ import annotations

import functools

from pyvc import decls, xsd
from pyvc.verify import contract

META = {
    "residual": ["the enum -> XSD simple type pairing of MSO_CONNECTOR_TYPE is stated in this file (its token is written through a "
                 "template, not an attribute declaration); every other pairing is recovered from the attribute declarations"],
    "trusted_base": ["XSD files and presetShapeDefinitions.xml under /repo/spec are the standard"],
    "exhaustive": True,
}

A_NS = "http://schemas.openxmlformats.org/drawingml/2006/main"
EXTRA_PAIRS = {"MSO_CONNECTOR_TYPE": [(A_NS, "ST_ShapeType")]}


@functools.lru_cache(maxsize=1)
def _enum_types():
    import contracts.c11 as c11

    S = xsd.load()
    out = {}
    for pc, keys, sts, where in c11._WRITE_SITES:
        if hasattr(pc, "__members__"):
            out.setdefault(pc, []).extend(sts)
    for cls in decls.xml_enums():
        if cls not in out and cls.__name__ in EXTRA_PAIRS:
            out[cls] = [S.simple_type(k) for k in EXTRA_PAIRS[cls.__name__]]
    return out


def _replay(model, rec):
    return {"confirmed": True, "detail": rec.get("info", {}).get("why", rec["name"]),
            "witness_class": "enum-" + rec["name"].split(".")[-1].split("[")[0]}


def _make_enum(cls, names):
    sts = _enum_types().get(cls)

    @contract("C20", "C20.enum.%s" % cls.__name__, replay=_replay)
    def body(c):
        """tokens distinct; from_xml(to_xml(m)) is m; every token is in the schema type's enumeration."""
        tokens = None
        for st in sts or ():
            if st.enum is not None:
                tokens = (tokens or set()) | set(st.enum)
        seen = {}
        for m in cls:
            if not m.xml_value:
                continue
            out = c.call(cls.to_xml, m)
            if out.raised:
                c.fails("to_xml.total[%s]" % m.name, "to_xml(%s) raised %s" % (m.name, out.exc))
                continue
            tok = out.value
            c.ensures("token_distinct[%s]" % m.name, tok not in seen, why="%s.%s and .%s share the XML token %r" % (cls.__name__, m.name, seen.get(tok), tok))
            seen.setdefault(tok, m.name)
            back = c.call(cls.from_xml, tok)
            c.ensures("roundtrip[%s]" % m.name, (not back.raised) and back.value is m, why="%s.from_xml(to_xml(%s)) is %s" % (cls.__name__, m.name, getattr(back.value, "name", back.exc)))
            if tokens is not None:
                c.ensures("token_in_schema[%s]" % m.name, tok in tokens, why="%s.%s maps to %r which is not in the schema enumeration" % (cls.__name__, m.name, tok))
            elif sts:
                from contracts.c11 import lexical_ok
                from pyvc.engine import SStr

                c.ensures("token_in_schema[%s]" % m.name, any(lexical_ok(st, SStr([tok])) is True for st in sts))
            else:
                c.undecided("token_in_schema[%s]" % m.name, "no XSD simple type paired with %s" % cls.__name__)
        # the declarations themselves (class body of the real source): a member whose integer value collides with an earlier one
        # silently becomes an alias of it (enum semantics) and loses its own XML token
        import ast
        import inspect
        import textwrap

        for node in ast.parse(textwrap.dedent(inspect.getsource(cls))).body[0].body:
            if not (isinstance(node, ast.Assign) and len(node.targets) == 1 and isinstance(node.targets[0], ast.Name) and isinstance(node.value, ast.Tuple)
                    and len(node.value.elts) >= 2 and isinstance(node.value.elts[1], ast.Constant) and isinstance(node.value.elts[1].value, str)):
                continue
            nm, tok = node.targets[0].id, node.value.elts[1].value
            if not tok:
                continue
            mem = getattr(cls, nm)
            c.ensures("declared_token_kept[%s]" % nm, mem.xml_value == tok,
                      why="%s.%s is declared with XML token %r but is an alias of %s (same integer value), whose token is %r" % (cls.__name__, nm, tok, mem.name, mem.xml_value))
        for alias in names:
            import importlib

            mod, attr = alias.rsplit(".", 1)
            c.ensures("alias_is_class[%s]" % attr, getattr(importlib.import_module(mod), attr) is cls)

    return body


for _cls, _names in decls.xml_enums().items():
    _make_enum(_cls, _names)


@functools.lru_cache(maxsize=1)
def _preset_defs():
    from lxml import etree

    path = "/repo/spec/ISO-IEC-29500-1/schemas/dml-geometries/OfficeOpenXML-DrawingMLGeometries/presetShapeDefinitions.xml"
    root = etree.parse(path).getroot()
    out = {}
    for ch in root:
        if not isinstance(ch.tag, str):
            continue
        av = ch.find("{%s}avLst" % A_NS)
        gds = []
        if av is not None:
            for gd in av.findall("{%s}gd" % A_NS):
                gds.append((gd.get("name"), gd.get("fmla")))
        # the shipped file defines `upDownArrow` twice and `upArrow` not at all (the first of the two
        # blocks is upArrow's, a known erratum of the standard's file): keep every block per name
        out.setdefault(ch.tag, []).append(gds)
    return out


def _elide_default_attributes(chart_space):
    """remove from the c:chartSpace tree every attribute whose value equals the default the XSD declares for it (walking the element
    types from CT_ChartSpace down); returns the list of 'tag/@attr' removed"""
    from lxml import etree

    from pptx.oxml.ns import _nsmap
    from pyvc import xsd

    S = xsd.load()
    pfx = {v: k for k, v in _nsmap.items()}
    ns = _nsmap["c"]
    g = S.elements[(ns, "chartSpace")]
    removed = []

    def walk(el, ct):
        for k, a in ct.attrs.items():
            if a.default is not None and el.get(k) is not None and el.get(k) == a.default:
                del el.attrib[k]
                removed.append("%s/@%s" % (etree.QName(el).localname, k))
        for ch in el:
            if not isinstance(ch.tag, str):
                continue
            q = etree.QName(ch)
            tag = "%s:%s" % (pfx.get(q.namespace, "?"), q.localname)
            ty = ct.child_type(tag)
            if ty is None or ty not in S.complex:
                continue
            walk(ch, S.complex_type(ty))

    walk(chart_space, S.complex_type(S.qname(g, g.get("type"))))
    return removed


def _parse_gds(gds):
    want, ok = [], True
    for name, fmla in gds:
        parts = fmla.split()
        if len(parts) == 2 and parts[0] == "val":
            try:
                want.append((name, int(parts[1])))
                continue
            except ValueError:
                pass
        ok = False
        want.append((name, fmla))
    return want, ok


@contract("C20", "C20.spec.autoshape_types", replay=_replay)
def _autoshape_table(c):
    """For every MSO_SHAPE member: prst names a preset shape definition; adjustment names, order and
    default values equal the definition's avLst (fmla 'val N')."""
    from pptx.enum.shapes import MSO_SHAPE
    from pptx.shapes.autoshape import AutoShapeType
    from pptx.spec import autoshape_types

    defs = _preset_defs()
    shape_tokens = set(xsd.load().simple_type((A_NS, "ST_ShapeType")).enum)
    for m in MSO_SHAPE:
        inst = c.call(AutoShapeType, m)
        if inst.raised:
            c.fails("table.has_member[%s]" % m.name, "AutoShapeType(%s) raised %s" % (m.name, inst.exc))
            continue
        prst = c.getattr(inst.value, "prst")
        if prst.raised:
            c.fails("prst.total[%s]" % m.name, "prst raised %s" % prst.exc)
            continue
        p = prst.value
        dav = c.call(AutoShapeType.default_adjustment_values, m)
        if dav.raised:
            c.fails("avLst.total[%s]" % m.name, "default_adjustment_values raised %s" % dav.exc)
            continue
        got = [tuple(x) for x in dav.value]
        if p in defs:
            c.ensures("prst.defined_in_standard[%s]" % m.name, True)
            blocks = defs[p]
        else:
            # erratum handling: a preset missing from the file while another name is defined twice --
            # the token must then be in the schema's ST_ShapeType and match one of the duplicated blocks
            dup_blocks = [b for name, bs in defs.items() if len(bs) > 1 for b in bs]
            c.ensures("prst.defined_in_standard[%s]" % m.name, bool(dup_blocks) and p in shape_tokens,
                      why="%s -> prst %r has no definition in presetShapeDefinitions.xml (and no duplicated block could be its)" % (m.name, p))
            blocks = dup_blocks
        wants = [_parse_gds(b) for b in blocks]
        c.ensures("avLst.equals_definition[%s]" % m.name, any(ok and got == want for want, ok in wants),
                  why="%s (%s): spec.autoshape_types has %s, the standard defines %s" % (m.name, p, got, [w for w, _ in wants]))
        back = c.call(AutoShapeType.id_from_prst, p)
        c.ensures("id_from_prst.inverse[%s]" % m.name, (not back.raised) and back.value is m,
                  why="id_from_prst(%r) is %s, not %s" % (p, getattr(back.value, "name", back.exc), m.name))
    c.ensures("table.keys_are_members", set(autoshape_types) <= set(MSO_SHAPE))


# --------------------------------------------------------------------------------------------
# exhaustive native round trips (finite domains, every element visited)


def _native_roundtrips(tier="quick", seed=0):
    import time as _t

    from pptx import Presentation
    from pptx.chart.data import BubbleChartData, CategoryChartData, XyChartData
    from pptx.enum.chart import XL_CHART_TYPE
    from pptx.enum.shapes import MSO_SHAPE
    from pptx.util import Emu

    t0 = _t.time()
    obls = []
    prs = Presentation()
    slide = prs.slides.add_slide(prs.slide_layouts[6])
    n = 0
    for m in MSO_SHAPE:
        n += 1
        nm = "C20.native.autoshape_roundtrip[%s]" % m.name
        try:
            sh = slide.shapes.add_shape(m, Emu(0), Emu(0), Emu(100), Emu(100))
            got = sh.auto_shape_type
            ok = got is m
            detail = "add_shape(%s) reads back %s" % (m.name, got.name)
        except Exception as e:
            ok, detail = False, "add_shape(%s) raised %r" % (m.name, e)
        rec = {"name": nm, "base": nm, "kind": "ground", "status": "discharged" if ok else "refuted", "backend": "native", "time": 0, "path": 0,
               "claim": "add_shape(m).auto_shape_type is m"}
        if not ok:
            rec["replay"] = {"confirmed": True, "detail": detail, "witness_class": "autoshape-readback"}
            rec["model"] = {"member": m.name}
        obls.append(rec)
    # adjustments of every preset: a fresh shape reports the definition's defaults (normalised), an explicit value -- zero included --
    # replaces the default of that adjustment only
    defs = _preset_defs()
    from pptx.shapes.autoshape import AutoShapeType

    bad = None
    for m in MSO_SHAPE:
        try:
            sh = slide.shapes.add_shape(m, Emu(0), Emu(0), Emu(100), Emu(100))
        except Exception:
            continue
        k = len(sh.adjustments)
        if not k:
            continue
        fresh = [sh.adjustments[i] for i in range(k)]
        want_defaults = [v for _, v in AutoShapeType.default_adjustment_values(m)]
        for i in range(k):
            for v in (0.0, 0.5, -0.25, 1.0):
                sh2 = slide.shapes.add_shape(m, Emu(0), Emu(0), Emu(100), Emu(100))
                kind_before, prst_before = sh2.auto_shape_type, sh2._element.spPr.prstGeom.get("prst")
                sh2.adjustments[i] = v
                got = [sh2.adjustments[j] for j in range(k)]
                want = list(fresh)
                want[i] = v
                if any(abs(a - b) > 1e-5 for a, b in zip(got, want)):
                    bad = bad or "%s: adjustments[%d] = %r gives %r, expected %r" % (m.name, i, v, got, want)
                # writing the guides leaves the preset itself alone
                try:
                    kind_after = sh2.auto_shape_type
                except Exception as e:
                    kind_after = repr(e)
                if kind_after is not kind_before or sh2._element.spPr.prstGeom.get("prst") != prst_before:
                    bad = bad or "%s: after adjustments[%d] = %r the shape reports auto_shape_type %s, prst=%r (before: %s, %r)" % (
                        m.name, i, v, kind_after, sh2._element.spPr.prstGeom.get("prst"), kind_before, prst_before)
                sh2._element.getparent().remove(sh2._element)
        sh._element.getparent().remove(sh._element)
    nm = "C20.native.explicit_adjustment_replaces_the_default_of_that_adjustment_only"
    rec = {"name": nm, "base": nm, "kind": "bounded", "status": "refuted" if bad else "discharged", "backend": "native", "time": 0, "path": 0}
    if bad:
        rec["replay"] = {"confirmed": True, "detail": bad, "witness_class": "adjustment"}
        rec["model"] = None
    obls.append(rec)
    # guide lists as other producers write them: only some guides, guides in another order, a guide the preset does not define, no
    # a:avLst at all -- each adjustment reads the value of the guide carrying its name, else the definition's default
    from lxml import etree as _et

    bad = None
    A = "http://schemas.openxmlformats.org/drawingml/2006/main"
    for m in MSO_SHAPE:
        try:
            named = list(AutoShapeType.default_adjustment_values(m))
        except Exception:
            continue
        if not named:
            continue
        k = len(named)
        variants = [("only the last guide", [(named[-1][0], 31000)]), ("guides in reverse order", [(nm_, 1000 * (j + 1)) for j, (nm_, _) in reversed(list(enumerate(named)))]),
                    ("a foreign guide first", [("zz9", 77777)] + [(named[0][0], 12345)]), ("no a:avLst", None), ("empty a:avLst", [])]
        for what, guides in variants:
            sh = slide.shapes.add_shape(m, Emu(0), Emu(0), Emu(100), Emu(100))
            geom = sh._element.spPr.find("{%s}prstGeom" % A)
            av = geom.find("{%s}avLst" % A)
            if guides is None:
                if av is not None:
                    geom.remove(av)
            else:
                if av is None:
                    av = _et.SubElement(geom, "{%s}avLst" % A)
                for gd in list(av):
                    av.remove(gd)
                for gn, gv in guides:
                    _et.SubElement(av, "{%s}gd" % A, name=gn, fmla="val %d" % gv)
            given = dict(guides or [])
            want = [given.get(nm_, dv) / 100000.0 for nm_, dv in named]
            try:
                got = [sh.adjustments[j] for j in range(len(sh.adjustments))]
            except Exception as e:
                got = repr(e)
            if not isinstance(got, list) or len(got) != k or any(abs(a - b) > 1e-9 for a, b in zip(got, want)):
                bad = bad or "%s with %s %r: adjustments read %r, expected %r (value of the guide of that name, else the definition's default)" % (m.name, what, guides, got, want)
            sh._element.getparent().remove(sh._element)
    nm = "C20.native.adjustments_follow_guide_names_not_positions"
    rec = {"name": nm, "base": nm, "kind": "bounded", "status": "refuted" if bad else "discharged", "backend": "native", "time": 0, "path": 0}
    if bad:
        rec["replay"] = {"confirmed": True, "detail": bad, "witness_class": "adjustment"}
        rec["model"] = None
    obls.append(rec)
    unsupported = []
    for ct in XL_CHART_TYPE:
        nm = "C20.native.chart_type_roundtrip[%s]" % ct.name
        name = ct.name
        if "BUBBLE" in name:
            cd = BubbleChartData()
            s = cd.add_series("s")
            s.add_data_point(1, 2, 3)
        elif name.startswith("XY"):
            cd = XyChartData()
            s = cd.add_series("s")
            s.add_data_point(1, 2)
        else:
            cd = CategoryChartData()
            cd.categories = ["a", "b"]
            cd.add_series("s", (1, 2))
        try:
            gf = slide.shapes.add_chart(ct, Emu(0), Emu(0), Emu(1000), Emu(1000), cd)
        except NotImplementedError:
            unsupported.append(name)
            continue
        except Exception as e:
            obls.append({"name": nm, "base": nm, "kind": "ground", "status": "refuted", "backend": "native", "time": 0, "path": 0,
                         "model": {"chart_type": name}, "replay": {"confirmed": True, "detail": "add_chart(%s) raised %r" % (name, e), "witness_class": "chart-add"}})
            continue
        n += 1
        got = gf.chart.chart_type
        ok = got == ct
        detail = "add_chart(%s) reads back %s" % (name, got)
        # the type read back does not depend on how much data there is: one point per series, several one-point series, many points
        for shape_, nser_, npts_ in (("one point", 1, 1), ("three series of one point", 3, 1), ("seven points", 2, 7)):
            if not ok:
                break
            if "BUBBLE" in name or name.startswith("XY"):
                cd2 = BubbleChartData() if "BUBBLE" in name else XyChartData()
                for i_ in range(nser_):
                    s2 = cd2.add_series("s%d" % i_)
                    for j_ in range(npts_):
                        s2.add_data_point(j_, j_ + 1, 3) if "BUBBLE" in name else s2.add_data_point(j_, j_ + 1)
            else:
                cd2 = CategoryChartData()
                cd2.categories = ["c%d" % j_ for j_ in range(npts_)]
                for i_ in range(nser_):
                    cd2.add_series("s%d" % i_, tuple(range(npts_)))
            try:
                got2 = slide.shapes.add_chart(ct, Emu(0), Emu(0), Emu(1000), Emu(1000), cd2).chart.chart_type
            except Exception as e:
                got2 = repr(e)
            if got2 != ct:
                ok, detail = False, "add_chart(%s) with %s reads back %s" % (name, shape_, got2)
        if ok:
            # the same chart as another producer may write it: attributes that carry the schema's default value left out (the XSD
            # default is what a reader must assume), then also the optional c:grouping element itself
            import copy as _copy

            cs = gf.chart.part._element
            saved = _copy.deepcopy(list(cs))
            for variant in ("default-valued attributes omitted", "and c:grouping omitted"):
                removed = _elide_default_attributes(cs) if variant.startswith("default") else [g_.getparent().remove(g_) or "c:grouping" for g_ in cs.xpath(".//c:grouping[not(@val)]")]
                if not removed:
                    continue
                try:
                    got2 = gf.chart.chart_type
                except Exception as e:
                    got2 = repr(e)
                if got2 != ct:
                    ok, detail = False, "chart written as %s with %s (%s): chart_type reads %s" % (name, variant, ", ".join(sorted(set(removed)))[:200], got2)
                    break
            for ch in list(cs):
                cs.remove(ch)
            for ch in saved:
                cs.append(ch)
        rec = {"name": nm, "base": nm, "kind": "ground", "status": "discharged" if ok else "refuted", "backend": "native", "time": 0, "path": 0,
               "claim": "add_chart(t).chart.chart_type == t, also with schema defaults left implicit"}
        if not ok:
            rec["model"] = {"chart_type": name}
            rec["replay"] = {"confirmed": True, "detail": detail, "witness_class": "chart-type-readback"}
        obls.append(rec)
    # every XML-mapped enumeration in ONE process, in two visiting orders: a member must map back to itself whatever other
    # enumerations have been consulted before (no state shared between enumerations)
    import importlib
    import pkgutil

    import pptx.enum as _enum_pkg
    from pptx.enum.base import BaseXmlEnum

    enums = []
    for mi in pkgutil.iter_modules(_enum_pkg.__path__, "pptx.enum."):
        mod = importlib.import_module(mi.name)
        for nm_, obj in sorted(vars(mod).items()):
            if isinstance(obj, type) and issubclass(obj, BaseXmlEnum) and obj is not BaseXmlEnum and obj.__module__ == mod.__name__:
                enums.append(obj)
    bad = None
    for order in (enums, list(reversed(enums))):
        for E in order:
            tokens = {}
            for m in E:
                if m.xml_value:
                    tokens.setdefault(m.xml_value, []).append(m)
            for tok, ms in tokens.items():
                n += 1
                try:
                    got = E.from_xml(tok)
                except Exception as e:
                    bad = bad or "%s.from_xml(%r) raised %r after other enumerations were read" % (E.__name__, tok, e)
                    continue
                if not isinstance(got, E) or got not in ms:
                    bad = bad or "%s.from_xml(%r) gave %r (a member of %s) after other enumerations were read" % (E.__name__, tok, got, type(got).__name__)
    nm = "C20.native.enums_do_not_share_state"
    rec = {"name": nm, "base": nm, "kind": "ground", "status": "refuted" if bad else "discharged", "backend": "native", "time": 0, "path": 0,
           "claim": "from_xml(token) of every enumeration gives a member of that enumeration carrying that token, in any visiting order"}
    if bad:
        rec["model"] = None
        rec["replay"] = {"confirmed": True, "detail": bad, "witness_class": "enum-shared-state"}
    obls.append(rec)
    return {"contract": "C20.native_roundtrips", "prop": "C20", "status": "ok", "obligations": obls, "paths": 1, "assumed": [], "functions": {},
            "notes": [], "solver_s": 0.0, "wall_s": _t.time() - t0,
            "coverage": {"exhaustive": True, "chart_types_not_writable": unsupported,
                         "ground_native": "%d closed-term executions of the real add/read pair (every MSO_SHAPE member, every writable XL_CHART_TYPE member)" % n}}


JOBS = {"C20.native_roundtrips": _native_roundtrips}


def _native_enum_properties(tier="quick", seed=0):
    """BOUNDED: every enumeration-valued read/write property of the object model with every member that has an XML token (the enum leg of
    the C09 set/get sweep): the member assigned is the member read back, whatever was set before and whatever else is set afterwards"""
    import re

    from contracts import c09

    D = c09._domains()
    enum_keys = {"%s.%s" % k for k, spec in D.items() if spec.get("enum")}
    r = c09._native_setget_sweep(tier=tier, seed=seed)
    keep = []
    for o in r["obligations"]:
        m = re.search(r"\[([A-Za-z_]+\.[a-z_]+)[:+]", o["name"])
        if m and m.group(1) in enum_keys:
            keep.append(dict(o, name=o["name"].replace("C09.", "C20."), base=o["base"].replace("C09.", "C20.")))
    ok = {"name": "C20.native.enum_valued_properties_read_back_the_member_assigned", "base": "C20.native.enum_valued_properties_read_back_the_member_assigned", "kind": "bounded",
          "status": "refuted" if any(o["status"] == "refuted" for o in keep) else "discharged", "backend": "native", "time": 0, "path": 0}
    if ok["status"] == "refuted":
        ok["replay"] = {"confirmed": True, "witness_class": "enum-property", "detail": "; ".join(o["replay"]["detail"] for o in keep if o["status"] == "refuted")[:600]}
        ok["model"] = None
    r = dict(r, contract="C20.native_enum_properties", prop="C20", obligations=keep + [ok])
    r["bounded"] = dict(r["bounded"], name="C20.native_enum_properties", bound="%d enumeration-valued properties x every member with an XML token; " % len(enum_keys) + r["bounded"]["bound"])
    r.pop("coverage", None)
    return r


JOBS["C20.native_enum_properties"] = _native_enum_properties


# ---------------------------------------------------------------------------------------------------------
# guides -> adjustments: by name, never by position


def _replay_guides(model, rec):
    from pptx.shapes.autoshape import Adjustment, AdjustmentCollection

    removed = []

    class _AvLst:
        def remove(self, gd):
            removed.append(gd.name)

    class _Gd:
        def __init__(self, name, fmla):
            self.name, self.fmla = name, fmla

        def getparent(self):
            return _AvLst()

    for names, guides in ((["adj1", "adj2"], [("adj2", 31000)]), (["adj1", "adj2", "adj3"], [("adj3", 3), ("adj1", 1)]), (["adj"], [("zz", 5), ("adj", 7)]), (["adj1", "adj2"], [("adj1", 4), ("adj1", 9)])):
        adjs = [Adjustment(n, 1000 + i) for i, n in enumerate(names)]
        try:
            AdjustmentCollection._update_adjustments_with_actuals(adjs, [_Gd(n, "val %d" % v) for n, v in guides])
        except Exception as e:
            return {"confirmed": True, "witness_class": "adjustment", "detail": "adjustments %s, guides %s: raised %r" % (names, guides, e)}
        want = {}
        for n, v in guides:
            want[n] = v
        got = [a.actual for a in adjs]
        exp = [want.get(n) for n in names]
        if got != exp:
            return {"confirmed": True, "witness_class": "adjustment", "detail": "adjustments %s with guides %s: actual values %s, expected %s (the guide of that name)" % (names, guides, got, exp)}
        if removed:
            return {"confirmed": True, "witness_class": "adjustment", "detail": "adjustments %s with guides %s: reading the values removed the guides %s from the guide list" % (names, guides, removed)}
    return {"confirmed": False, "detail": "guides are matched to adjustments by name"}


def _make_guides(k, g):
    @contract("C20", "C20.shapes.autoshape.AdjustmentCollection._update_adjustments_with_actuals[%d adjustments,%d guides]" % (k, g), replay=_replay_guides)
    def body(c):
        """each adjustment ends with the value of the last guide carrying its name, and is untouched when no guide does; guides whose name the
        preset does not define are ignored; the guides themselves are only read.  List lengths are enumerated (1..3 adjustments x 0..3 guides; which
        name a guide carries and every value are symbolic); longer lists are exercised by C20.native only."""
        import z3

        from pyvc.engine import Atom, FmtInt, SObj, SStr
        from pptx.shapes.autoshape import Adjustment, AdjustmentCollection

        names = ["adj%d" % (i + 1) for i in range(k)]
        olds = [c.int("old_actual_%d" % i) for i in range(k)]
        adjs = [SObj(Adjustment, "adjustment%d" % i, def_val=100 + i, actual=olds[i]) for i in range(k)]
        for i in range(k):
            adjs[i].fields["name"] = names[i]
        # guide j: its name is one of the adjustment names or a foreign one (which: symbolic), its formula 'val <int>'
        which = [c.int("guide_%d_names" % j) for j in range(g)]
        vals = [c.int("guide_%d_val" % j) for j in range(g)]
        gds = []
        for j in range(g):
            c.requires(z3.And(which[j] >= 0, which[j] <= k))
            nm = None
            for i in range(k):
                if c.branch(which[j] == i):
                    nm = names[i]
                    break
            if nm is None:
                nm = "zz%d" % j
            gd = SObj(None, "gd%d" % j, fmla=SStr(["val ", FmtInt(vals[j])]), __external__=True)
            gd.fields["name"] = nm
            gds.append(gd)
        out = c.run(AdjustmentCollection._update_adjustments_with_actuals, adjs, gds)
        if out.raised:
            c.fails("never_raises", "raised %s" % out.exc)
            return
        for i in range(k):
            want = olds[i]
            for j in range(g):
                want = z3.If(which[j] == i, vals[j], want)
            got = adjs[i].fields["actual"]
            c.ensures("post.adjustment_%d_has_the_value_of_its_guide" % i, (got if z3.is_expr(got) else z3.IntVal(got)) == want)
            c.ensures("post.adjustment_%d_keeps_name_and_default" % i, adjs[i].fields["name"] == names[i] and adjs[i].fields["def_val"] == 100 + i)

    return body


for _k in (1, 2, 3):
    for _g in (0, 1, 2, 3):
        _make_guides(_k, _g)


# ---------------------------------------------------------------------------------------------------------
# plot grouping: the value the inspector keys on is the written one, else the default the schema declares for that plot's c:grouping


def _replay_grouping(model, rec):
    from pptx import Presentation
    from pptx.chart.data import CategoryChartData
    from pptx.enum.chart import XL_CHART_TYPE as X
    from pptx.util import Emu

    prs = Presentation()
    sl = prs.slides.add_slide(prs.slide_layouts[6])
    cd = CategoryChartData()
    cd.categories = ["a", "b"]
    cd.add_series("s", (1, 2))
    for t in (X.BAR_CLUSTERED, X.COLUMN_CLUSTERED, X.LINE, X.AREA):
        try:
            ch = sl.shapes.add_chart(t, Emu(0), Emu(0), Emu(100), Emu(100), cd).chart
        except NotImplementedError:
            continue
        for how in ("c:grouping without val", "no c:grouping"):
            for g in ch.part._element.xpath(".//c:grouping"):
                if how.startswith("c:grouping"):
                    g.attrib.pop("val", None)
                else:
                    g.getparent().remove(g)
            try:
                got = ch.chart_type
            except Exception as e:
                got = repr(e)
            if got != t:
                return {"confirmed": True, "witness_class": "chart-type-readback", "detail": "%s written with %s (the schema default applies): chart_type reads %s" % (t.name, how, got)}
    return {"confirmed": False, "detail": "chart types read back with the grouping left to the schema default"}


def _make_grouping(tag):
    @contract("C20", "C20.oxml.chart.plot.grouping_val[%s]" % tag, replay=_replay_grouping)
    def body(c):
        """grouping_val of a plot element = c:grouping/@val when written, else the default the XSD declares for @val of that plot's c:grouping
        (CT_Grouping: standard; CT_BarGrouping: clustered)."""
        import z3

        from pptx.oxml import parse_xml  # noqa: F401  (registers element classes)
        from pptx.oxml.ns import _nsmap
        from pyvc import decls, xsd
        from pyvc.engine import Atom, SObj, SStr

        cls = decls.registry().get(tag)
        S = xsd.load()
        ns = _nsmap["c"]
        g = S.elements[(ns, "chartSpace")]
        cs = S.complex_type(S.qname(g, g.get("type")))
        pa = S.complex_type(S.complex_type(cs.child_type("c:chart")).child_type("c:plotArea"))
        gt = S.complex_type(S.complex_type(pa.child_type(tag)).child_type("c:grouping"))
        default = gt.attrs["val"].default
        c.ensures("oracle.schema_declares_a_default", default is not None)
        state = c.int("state")
        c.requires(z3.And(state >= 0, state <= 2))
        written = SStr([Atom("val", zs=z3.String("val"))])
        if c.branch(state == 0):
            grouping, want = None, default
        elif c.branch(state == 1):
            grouping, want = SObj(None, "grouping", val=None), default
        else:
            grouping, want = SObj(None, "grouping", val=written), written
        plot = SObj(cls, "plot", grouping=grouping)
        out = c.getattr(plot, "grouping_val")
        if out.raised:
            c.fails("never_raises", "raised %s" % out.exc)
            return
        c.ensures("post.written_value_else_schema_default", out.value is want or out.value == want)

    return body


for _tag in ("c:barChart", "c:lineChart", "c:areaChart", "c:area3DChart"):  # the plot elements with c:grouping that have an element class
    _make_grouping(_tag)

"""C08 -- the chart's cached values and its embedded workbook agree cell for cell.  DESIGN.md 5/C08.

The workbook writers are "the authority for Excel worksheet ranges": every `*_ref` formula and every
cell the `_populate_worksheet` methods write are computed by the real sources, executed symbolically
for a *generic* series index over an unbounded number of series of arbitrary lengths; the
obligations say that the cell written for series k / point i / level idx is exactly the cell the
reference names.  XlsxWriter enters through the assumed contract write(r, c, v) / write_column(r, c,
vs): 0-based (r, c), (r+i, c)."""
from __future__ import annotations

import z3

from pyvc.engine import Atom, FmtInt, GhostFn, SObj, SSeq, SStr, invariant_loop, unroll_while
from pyvc.verify import contract

META = {
    "residual": [
        "XlsxWriter internals: write(r,c,v)/write_column(r,c,vs) address 0-based cells and datetime cells are serialised in the "
        "1900 date system (assumed; probed natively by C08.workbook_readback)",
        "category depth > 26 (categories_ref computes the right column with chr(ord('A')+depth-1)); stated domain assumption depth <= 26",
    ],
    "trusted_base": ["XlsxWriter writes a number with 16 significant digits (%.16G): cache and cell are compared to that precision", "XlsxWriter cell addressing", "datetime.date ordinal arithmetic", "Python %-formatting / str.format render ints canonically"],
}


# --------------------------------------------------------------------------------------------
# column letters


def _codes(s):
    """code terms of the characters of a structured string made of literal letters and chr() atoms; None otherwise."""
    if isinstance(s, str):
        s = SStr([s])
    out = []
    for p in s.parts:
        if isinstance(p, str):
            out += [z3.IntVal(ord(ch)) for ch in p]
        elif isinstance(p, Atom) and hasattr(p, "code"):
            out.append(p.code)
        else:
            return None
    return out


def _colval(s):
    """bijective base-26 value of such a string."""
    v = z3.IntVal(0)
    for code in _codes(s):
        v = v * 26 + (code - 64)
    return v


def _replay_colref(model, rec):
    from pptx.chart.xlsx import CategoryWorkbookWriter as W

    def colval(s):
        v = 0
        for ch in s:
            v = v * 26 + (ord(ch) - 64)
        return v

    for n in [model.get("column_number")] + [1, 2, 25, 26, 27, 51, 52, 53, 676, 677, 701, 702, 703, 704, 728, 729, 16383, 16384, 0, -1, 16385]:
        if not isinstance(n, int):
            continue
        try:
            r = W._column_reference(n)
        except ValueError:
            if 1 <= n <= 16384:
                return {"confirmed": True, "witness_class": "colref", "detail": "_column_reference(%d) raised ValueError" % n}
            continue
        if not (1 <= n <= 16384) or colval(r) != n or not r.isalpha() or not r.isupper():
            return {"confirmed": True, "witness_class": "colref", "detail": "_column_reference(%d) = %r" % (n, r)}
    return {"confirmed": False, "detail": "boundary columns map to the right letters"}


@contract("C08", "C08.chart.xlsx.CategoryWorkbookWriter._column_reference", replay=_replay_colref)
def _column_reference(c):
    """for 1 <= n <= 16384 the result is 1-3 letters A..Z whose bijective base-26 value is n; ValueError
    otherwise.  The loop is unwound 3 times with the unwinding assertion discharged (complete)."""
    from pptx.chart.xlsx import CategoryWorkbookWriter as W

    n = c.int("column_number")
    qn = "pptx.chart.xlsx:CategoryWorkbookWriter._column_reference"
    c.loop_specs[(qn, 0)] = unroll_while("C08.chart.xlsx.CategoryWorkbookWriter._column_reference.loop0", 3)
    out = c.run(W._column_reference, n)
    if out.raised:
        c.ensures("raises.ValueError_iff_out_of_range", z3.And(issubclass(out.exc.exc_cls, ValueError), z3.Or(n < 1, n > 16384)))
        return
    c.ensures("post.in_range_accepted", z3.And(n >= 1, n <= 16384))
    r = out.value
    codes = _codes(r) if isinstance(r, (str, SStr)) else None
    ok = codes is not None and 1 <= len(codes) <= 3
    c.ensures("post.one_to_three_chars", ok)
    if ok:
        c.ensures("post.letters_A_to_Z", z3.And(*[z3.And(cd >= 65, cd <= 90) for cd in codes]))
        c.ensures("post.colval_equals_column_number", _colval(r) == n)


# --------------------------------------------------------------------------------------------
# shared abstract chart data: an unbounded sequence of series, series k has LEN(k) points


class _GhostSeries:
    __pyvc_symbolic__ = True

    def __init__(self, k, LEN, fields=None):
        self.k = k
        self.LEN = LEN
        self.fields = fields or {}

    def sym_is(self, it, other):
        if isinstance(other, _GhostSeries):
            return self.k == other.k
        return False

    def sym_len(self, it):
        return self.LEN(self.k)

    def sym_truth(self, it):
        return True

    def sym_getattr(self, it, name):
        if name in self.fields:
            v = self.fields[name]
            return v(self) if callable(v) else v
        raise Exception("ghost series asked for %s" % name)


def _series_world(c):
    n = c.int("n_series")
    LEN = z3.Function("LEN", z3.IntSort(), z3.IntSort())
    PREF = z3.Function("PREF", z3.IntSort(), z3.IntSort())  # number of points before series k
    k = z3.Int("wk")
    c.requires(n >= 1)
    c.requires(z3.ForAll([k], LEN(k) >= 0))
    c.requires(PREF(0) == 0)
    c.requires(z3.ForAll([k], z3.Implies(k >= 0, PREF(k + 1) == PREF(k) + LEN(k))))
    return n, LEN, PREF


def _make_offsets():
    import pptx.chart.data as data

    @contract("C08", "C08.chart.data._BaseChartData.data_point_offset")
    def dpo(c):
        """data_point_offset(series s) == sum of len of the series before it (loop invariant count == PREF(k))."""
        n, LEN, PREF = _series_world(c)
        s = c.int("s")
        c.requires(z3.And(0 <= s, s < n))
        seq = SSeq(n, lambda i: _GhostSeries(i, LEN), name="series")
        cd = SObj(data._BaseChartData, "chart_data", __iter__=GhostFn(lambda it, a, k: seq))
        qn = "pptx.chart.data:_BaseChartData.data_point_offset"
        c.loop_specs[(qn, 0)] = invariant_loop("C08.chart.data._BaseChartData.data_point_offset.loop0", ["count"],
                                               lambda env, kk: z3.And(env["count"] == PREF(kk), kk <= s))
        out = c.run(data._BaseChartData.data_point_offset, cd, _GhostSeries(s, LEN))
        if out.raised:
            c.fails("never_raises", "raised %s for a series of the chart data" % out.exc)
            return
        c.ensures("post.sum_of_preceding_lengths", out.value == PREF(s))

    @contract("C08", "C08.chart.data._BaseChartData.series_index")
    def sidx(c):
        """series_index(series s) == s."""
        n, LEN, PREF = _series_world(c)
        s = c.int("s")
        c.requires(z3.And(0 <= s, s < n))
        seq = SSeq(n, lambda i: _GhostSeries(i, LEN), name="series")
        cd = SObj(data._BaseChartData, "chart_data", __iter__=GhostFn(lambda it, a, k: seq))
        qn = "pptx.chart.data:_BaseChartData.series_index"
        c.loop_specs[(qn, 0)] = invariant_loop("C08.chart.data._BaseChartData.series_index.loop0", [], lambda env, kk: kk <= s)
        out = c.run(data._BaseChartData.series_index, cd, _GhostSeries(s, LEN))
        if out.raised:
            c.fails("never_raises", "raised %s for a series of the chart data" % out.exc)
            return
        c.ensures("post.position", out.value == s)


_make_offsets()


# --------------------------------------------------------------------------------------------
# references as structured strings


def _parse_ref(r):
    """'Sheet1!$A$2:$A$7' style structured string -> list of (col, row) corners; col is a str or an Atom, row an int/term."""
    if isinstance(r, str):
        r = SStr([r])
    parts = list(r.parts)
    if not (parts and isinstance(parts[0], str) and parts[0].startswith("Sheet1!$")):
        return None
    flat = []
    for p in parts:
        flat.append(p)
    # tokenise: literal text is split at '$' and ':'
    toks = []
    for p in flat:
        if isinstance(p, str):
            cur = ""
            for ch in p:
                if ch in "$:":
                    if cur:
                        toks.append(cur)
                    toks.append(ch)
                    cur = ""
                else:
                    cur += ch
            if cur:
                toks.append(cur)
        else:
            toks.append(p)
    if toks[0] != "Sheet1!":
        return None
    toks = toks[1:]
    corners = []
    i = 0
    while i < len(toks):
        if toks[i] == ":":
            i += 1
            continue
        if toks[i] != "$" or i + 3 >= len(toks) + 1:
            return None
        col = toks[i + 1]
        if toks[i + 2] != "$":
            return None
        row = toks[i + 3]
        if isinstance(row, FmtInt):
            row = row.term
        elif isinstance(row, str) and row.isdigit():
            row = int(row)
        else:
            return None
        corners.append((col, row))
        i += 4
    return corners


def _colnum(col):
    if isinstance(col, str):
        v = 0
        for ch in col:
            v = v * 26 + (ord(ch) - 64)
        return v
    if isinstance(col, Atom) and hasattr(col, "colnum"):
        return col.colnum
    if isinstance(col, Atom) and hasattr(col, "code"):
        return col.code - 64
    return None


def _colref_summary(it, a, k):
    """proved contract of _column_reference, as a summary: an opaque letters atom carrying its column number."""
    n = a[-1]
    at = Atom("colref", nonempty=True, tags={"colref"})
    at.colnum = n
    return SStr([at])


COLREF_QN = "pptx.chart.xlsx:CategoryWorkbookWriter._column_reference"


class _Sheet:
    """ghost worksheet: records write / write_column calls (XlsxWriter: 0-based row, col)."""

    __pyvc_symbolic__ = True

    def __init__(self):
        self.cells = []  # (kind, row, col, value)

    def sym_getattr(self, it, name):
        if name == "write":
            return GhostFn(lambda interp, a, k: self.cells.append(("cell", a[0], a[1], a[2])))
        if name == "write_column":
            return GhostFn(lambda interp, a, k: self.cells.append(("column", a[0], a[1], a[2])))
        if name == "set_column":
            return GhostFn(lambda interp, a, k: None)
        raise Exception("ghost worksheet asked for %s" % name)


class _Book:
    __pyvc_symbolic__ = True

    def sym_getattr(self, it, name):
        if name == "add_format":
            return GhostFn(lambda interp, a, k: "fmt")
        raise Exception("ghost workbook asked for %s" % name)


def _replay_workbook(model, rec):
    r = _workbook_readback(tier="quick", seed=0)
    bad = [o for o in r["obligations"] if o["status"] == "refuted"]
    if bad:
        return {"confirmed": True, "witness_class": "workbook-cell-mismatch", "detail": bad[0]["replay"]["detail"]}
    return {"confirmed": False, "detail": "workbook read-back agrees with every reference on the probed chart data"}


# -- XY / bubble ---------------------------------------------------------------------------------------


def _xy_series(c, k, LEN, PREF):
    return _GhostSeries(k, LEN, {"index": k, "data_point_offset": PREF(k), "name": SStr([Atom("name")]),
                                 "x_values": "X", "y_values": "Y", "bubble_sizes": "SZ", "number_format": "General"})


def _make_xy():
    import pptx.chart.xlsx as x

    for cls, refs in ((x.XyWorkbookWriter, ("series_name_ref", "x_values_ref", "y_values_ref")),
                      (x.BubbleWorkbookWriter, ("series_name_ref", "x_values_ref", "y_values_ref", "bubble_sizes_ref"))):
        cname = cls.__name__

        @contract("C08", "C08.chart.xlsx.%s.refs_vs_cells" % cname, replay=_replay_workbook)
        def body(c, cls=cls, refs=refs, cname=cname):
            """for the k-th series of any XY/bubble chart data: the name cell, X, Y (and size) ranges named by the
            references are exactly the cells _populate_worksheet writes for it, each range has len(series) rows,
            and the table of series k+1 starts below the table of series k."""
            n, LEN, PREF = _series_world(c)
            k = c.int("k")
            c.requires(z3.And(0 <= k, k < n))
            seq = SSeq(n, lambda i: _xy_series(c, i, LEN, PREF), name="chart_data")
            cd = SObj(None, "chart_data", __iter__=GhostFn(lambda it, a, kw: seq), number_format="General")
            w = SObj(cls, "writer", _chart_data=cd)
            sk = _xy_series(c, k, LEN, PREF)
            got = {}
            for ref in refs:
                out = c.run(getattr(cls, ref), w, sk)
                if out.raised:
                    c.fails("%s.never_raises" % ref, "raised %s" % out.exc)
                    return
                got[ref] = _parse_ref(out.value)
                c.ensures("%s.well_formed" % ref, got[ref] is not None)
                if got[ref] is None:
                    return
            off = 2 * k + PREF(k)  # rows before the table of series k
            (ncol, nrow), = got["series_name_ref"]
            c.ensures("series_name_ref.cell", z3.And(_colnum(ncol) == 2, nrow == off + 1))
            for ref, col in (("x_values_ref", 1), ("y_values_ref", 2), ("bubble_sizes_ref", 3)):
                if ref not in got:
                    continue
                (c1, r1), (c2, r2) = got[ref]
                c.ensures("%s.range" % ref, z3.And(_colnum(c1) == col, _colnum(c2) == col, r1 == off + 2, r2 == off + 1 + LEN(k)))
                c.ensures("%s.size_is_point_count" % ref, r2 - r1 + 1 == LEN(k))
            # cells written by the real _populate_worksheet for a generic iteration of its loop
            sheet = _Sheet()
            qn = "pptx.chart.xlsx:%s._populate_worksheet" % cname
            seen = {}

            def elem(it, kk):
                seen["k"] = kk
                return _xy_series(c, kk, LEN, PREF)

            c.loop_specs[(qn, 0)] = invariant_loop("C08.chart.xlsx.%s._populate_worksheet.loop0" % cname, [], lambda env, kk: z3.BoolVal(True), elem=elem)
            marker = len(c.path.obligations)
            try:
                c.run(cls._populate_worksheet, w, _Book(), sheet)
            finally:
                kk = seen.get("k")
                if kk is not None and sheet.cells:
                    offk = 2 * kk + PREF(kk)
                    want = {"X": (offk + 1, 0), "Y": (offk + 1, 1), "SZ": (offk + 1, 2)}
                    for kind, row, col, val in sheet.cells:
                        if kind == "column" and val in want:
                            wr, wc = want[val]
                            # 0-based (row, col) of the first cell == reference's (top_row - 1, col - 1)
                            c.ensures("cells.%s_column_at_reference" % val, z3.And(row == wr, col == wc, row + 1 == offk + 2))
                        elif kind == "cell" and isinstance(val, SStr):
                            c.ensures("cells.name_at_reference", z3.And(row == offk, col == 1))
                        elif kind == "cell" and val == "Size":
                            c.ensures("cells.size_heading", z3.And(row == offk, col == 2))
                    c.ensures("cells.count", len(sheet.cells) == (3 if cname.startswith("Xy") else 5))
            # disjointness of successive tables
            nxt = 2 * (k + 1) + PREF(k + 1)
            c.ensures("tables.next_starts_below", nxt + 1 > off + 1 + LEN(k))
            c.ensures("tables.offset_recurrence", nxt == off + LEN(k) + 2)

        del body


_make_xy()


# -- category charts -------------------------------------------------------------------------------------


def _cat_series(k, LEN, depth):
    cats = SObj(None, "categories", depth=depth)
    return _GhostSeries(k, LEN, {"index": k, "categories": cats, "name": SStr([Atom("name")]), "values": "VALUES", "number_format": "General"})


@contract("C08", "C08.chart.xlsx.CategoryWorkbookWriter.refs_vs_cells", replay=_replay_workbook)
def _category_refs(c):
    """k-th series of a category chart: values_ref / series_name_ref name column 1+depth+k, rows 2..len+1 / row 1,
    which are the cells _write_series writes; categories_ref spans columns A..depth, rows 2..leaf_count+1 and
    _write_categories puts level idx into column depth-idx (1-based) at rows off+2."""
    import pptx.chart.xlsx as x

    W = x.CategoryWorkbookWriter
    n, LEN, PREF = _series_world(c)
    k = c.int("k")
    depth = c.int("depth")
    leaf = c.int("leaf_count")
    c.requires(z3.And(0 <= k, k < n, depth >= 1, depth <= 26, leaf >= 1))
    c.summaries[COLREF_QN] = _colref_summary
    seq = SSeq(n, lambda i: _cat_series(i, LEN, depth), name="chart_data")
    nlev = depth
    LOFF = z3.Function("LEVEL_OFF", z3.IntSort(), z3.IntSort(), z3.IntSort())  # level, position -> leaf offset
    LCNT = z3.Function("LEVEL_CNT", z3.IntSort(), z3.IntSort())
    li, lj = z3.Ints("li lj")
    # contract of Categories.levels (C07): depth levels, bottom-up; every (off, label) pair has 0 <= off < leaf_count
    c.requires(z3.ForAll([li, lj], z3.Implies(z3.And(0 <= li, li < nlev, 0 <= lj, lj < LCNT(li)), z3.And(LOFF(li, lj) >= 0, LOFF(li, lj) < leaf))))
    levels = SSeq(nlev, lambda i: SSeq(LCNT(i), lambda j, i=i: (LOFF(i, j), SStr([Atom("label")])), name="level"), name="levels")
    cats = SObj(None, "categories", depth=depth, leaf_count=leaf, levels=levels, number_format="General")
    cd = SObj(None, "chart_data", __iter__=GhostFn(lambda it, a, kw: seq), categories=cats)
    w = SObj(W, "writer", _chart_data=cd)
    sk = _cat_series(k, LEN, depth)
    out = c.run(W.values_ref, w, sk)
    if out.raised:
        c.fails("values_ref.never_raises", "raised %s" % out.exc)
        return
    vr = _parse_ref(out.value)
    c.ensures("values_ref.well_formed", vr is not None and len(vr) == 2)
    if vr and len(vr) == 2:
        (c1, r1), (c2, r2) = vr
        c.ensures("values_ref.column", z3.And(_colnum(c1) == 1 + depth + k, _colnum(c2) == 1 + depth + k))
        c.ensures("values_ref.rows", z3.And(r1 == 2, r2 == LEN(k) + 1))
    out = c.run(W.series_name_ref, w, sk)
    if out.raised:
        c.fails("series_name_ref.never_raises", "raised %s" % out.exc)
        return
    nr = _parse_ref(out.value)
    c.ensures("series_name_ref.cell", nr is not None and len(nr) == 1 and z3.And(_colnum(nr[0][0]) == 1 + depth + k, nr[0][1] == 1))
    out = c.run(W.categories_ref.fget, w)
    if out.raised:
        c.fails("categories_ref.never_raises", "raised %s" % out.exc)
        return
    cr = _parse_ref(out.value)
    c.ensures("categories_ref.well_formed", cr is not None and len(cr) == 2)
    if cr and len(cr) == 2:
        (c1, r1), (c2, r2) = cr
        c.ensures("categories_ref.range", z3.And(_colnum(c1) == 1, r1 == 2, _colnum(c2) == depth, r2 == leaf + 1))
    # cells written for a generic series
    sheet = _Sheet()
    seen = {}

    def elem(it, kk):
        seen["k"] = kk
        return (kk, _cat_series(kk, LEN, depth))

    c.loop_specs[("pptx.chart.xlsx:CategoryWorkbookWriter._write_series", 0)] = invariant_loop(
        "C08.chart.xlsx.CategoryWorkbookWriter._write_series.loop0", [], lambda env, kk: z3.BoolVal(True), elem=elem)
    try:
        c.run(W._write_series, w, _Book(), sheet)
    finally:
        kk = seen.get("k")
        if kk is not None and sheet.cells:
            for kind, row, col, val in sheet.cells:
                if kind == "column":
                    c.ensures("cells.values_column_at_reference", z3.And(row + 1 == 2, col + 1 == 1 + depth + kk))
                else:
                    c.ensures("cells.name_at_reference", z3.And(row + 1 == 1, col + 1 == 1 + depth + kk))
            c.ensures("cells.count", len(sheet.cells) == 2)


@contract("C08", "C08.chart.xlsx.CategoryWorkbookWriter._write_categories", replay=_replay_workbook)
def _write_categories(c):
    """category level idx (0 = leaves) is written to 1-based column depth-idx, the label with leaf offset `off` to
    row off+2: every written cell lies inside categories_ref (A2 .. <depth>(leaf_count+1))."""
    import pptx.chart.xlsx as x

    W = x.CategoryWorkbookWriter
    depth = c.int("depth")
    leaf = c.int("leaf_count")
    c.requires(z3.And(depth >= 1, depth <= 26, leaf >= 1))
    LOFF = z3.Function("LEVEL_OFF", z3.IntSort(), z3.IntSort(), z3.IntSort())
    LCNT = z3.Function("LEVEL_CNT", z3.IntSort(), z3.IntSort())
    li, lj = z3.Ints("li lj")
    c.requires(z3.ForAll([li, lj], z3.Implies(z3.And(0 <= li, li < depth, 0 <= lj, lj < LCNT(li)), z3.And(LOFF(li, lj) >= 0, LOFF(li, lj) < leaf))))
    c.requires(z3.ForAll([li], LCNT(li) >= 0))
    levels = SSeq(depth, lambda i: SSeq(LCNT(i), lambda j, i=i: (LOFF(i, j), SStr([Atom("label")])), name="level"), name="levels")
    cats = SObj(None, "categories", depth=depth, leaf_count=leaf, levels=levels, number_format="General")
    cd = SObj(None, "chart_data", categories=cats)
    w = SObj(W, "writer", _chart_data=cd)
    sheet = _Sheet()
    seen = {}

    def elem_level(it, kk):
        seen["level"] = kk
        return (kk, levels.get(kk))

    def elem_pair(it, jj):
        seen["pos"] = jj
        lv = seen["level"]
        return (LOFF(lv, jj), SStr([Atom("label")]))

    c.loop_specs[("pptx.chart.xlsx:CategoryWorkbookWriter._write_categories", 0)] = invariant_loop(
        "C08.chart.xlsx.CategoryWorkbookWriter._write_categories.loop0", [], lambda env, kk: z3.BoolVal(True), elem=elem_level)
    c.loop_specs[("pptx.chart.xlsx:CategoryWorkbookWriter._write_cat_column", 0)] = invariant_loop(
        "C08.chart.xlsx.CategoryWorkbookWriter._write_cat_column.loop0", [], lambda env, kk: z3.BoolVal(True), elem=elem_pair)
    try:
        c.run(W._write_categories, w, _Book(), sheet)
    finally:
        if sheet.cells and "pos" in seen:
            lv, jj = seen["level"], seen["pos"]
            for kind, row, col, val in sheet.cells:
                c.ensures("cells.level_column", col + 1 == depth - lv)
                c.ensures("cells.inside_categories_ref", z3.And(col + 1 >= 1, col + 1 <= depth, row + 1 >= 2, row + 1 <= leaf + 1))
                c.ensures("cells.row_is_leaf_offset_plus_2", row + 1 == LOFF(lv, jj) + 2)


# -- dates -------------------------------------------------------------------------------------------------


def _replay_dates(model, rec):
    import datetime
    import io
    import zipfile

    from lxml import etree
    from pptx import Presentation
    from pptx.chart.data import CategoryChartData
    from pptx.enum.chart import XL_CHART_TYPE

    dates = [datetime.date(1900, 2, 28), datetime.date(1900, 3, 1), datetime.date(2020, 1, 1)]
    out = []
    for d1904 in (False, True):
        prs = Presentation()
        slide = prs.slides.add_slide(prs.slide_layouts[6])
        cd = CategoryChartData()
        cd.categories = dates
        cd.add_series("s", (1, 2, 3))
        gf = slide.shapes.add_chart(XL_CHART_TYPE.LINE, 0, 0, 100, 100, cd)
        chart = gf.chart
        if d1904:
            cs = chart._chartSpace
            cs.get_or_add_date1904().set("val", "1")
            assert cs.date_1904 is True
            chart.replace_data(cd)
        cache = [float(v) for v in chart._chartSpace.xpath(".//c:cat//c:pt/c:v/text()")]
        blob = chart.part.chart_workbook.xlsx_part.blob
        z = zipfile.ZipFile(io.BytesIO(blob))
        sheet = etree.fromstring(z.read("xl/worksheets/sheet1.xml"))
        ns = {"m": "http://schemas.openxmlformats.org/spreadsheetml/2006/main"}
        cells = [float(v) for v in sheet.xpath("//m:c[starts-with(@r,'A')]/m:v/text()", namespaces=ns)]
        wb = z.read("xl/workbook.xml").decode()
        out.append((d1904, cache, cells, "date1904" in wb))
        if cache != cells:
            return {"confirmed": True, "witness_class": "date1904-cache-vs-workbook",
                    "detail": "chart with c:date1904=%d, categories %s: cached serials %s, workbook cells A2:A4 %s (workbook date1904 flag: %s)"
                              % (d1904, [str(d) for d in dates], cache, cells, "date1904" in wb)}
    return {"confirmed": False, "detail": "cache == workbook cells: %s" % (out,)}


@contract("C08", "C08.chart.data.Category._excel_date_number.vs_workbook_cell", replay=_replay_dates)
def _date_serials(c):
    """the cached serial of a date category equals the serial of the workbook cell it is indexed to, in the
    chart's date system.  XlsxWriter (assumed) stores a date cell in the 1900 system (with the phantom
    29-Feb-1900) unless the workbook is created with date_1904 -- which xlsx_blob never does."""
    import datetime

    from pptx.chart.data import Category

    y, m, d = c.int("year"), c.int("month"), c.int("day")
    label = datetime.date  # the real code only reads .year/.month/.day of the label
    lab = SObj(None, "label", year=y, month=m, day=d)
    cat = SObj(Category, "category", _label=lab)
    d1904 = c.bool("date_1904")
    flag = True if c.branch(d1904) else False
    out = c.run(Category._excel_date_number, cat, flag)
    if out.raised:
        c.fails("never_raises", "raised %s" % out.exc)
        return
    from pyvc.models import _ORD

    o = _ORD(y, m, d)
    days1900 = o - datetime.date(1899, 12, 31).toordinal()
    cell = z3.If(days1900 > 59, days1900 + 1, days1900)  # XlsxWriter, 1900 system
    c.ensures("post.serial_in_stated_system", out.value == (o - datetime.date(1904, 1, 1).toordinal() if flag else cell))
    c.ensures("cache_equals_workbook_cell", out.value == cell, date_1904=flag)


# --------------------------------------------------------------------------------------------
# BOUNDED stand-in: read the produced workbook back (never counted as proved)


def _workbook_readback(tier="quick", seed=0):
    import io
    import re
    import time as _t
    import zipfile

    from lxml import etree
    from pptx.chart.data import BubbleChartData, CategoryChartData, XyChartData
    from pptx.chart.xmlwriter import ChartXmlWriter
    from pptx.enum.chart import XL_CHART_TYPE

    t0 = _t.time()
    ns = {"m": "http://schemas.openxmlformats.org/spreadsheetml/2006/main"}
    cns = {"c": "http://schemas.openxmlformats.org/drawingml/2006/chart"}

    def colval(s):
        v = 0
        for ch in s:
            v = v * 26 + (ord(ch) - 64)
        return v

    def cells_of(blob):
        z = zipfile.ZipFile(io.BytesIO(blob))
        sheet = etree.fromstring(z.read("xl/worksheets/sheet1.xml"))
        sst = []
        if "xl/sharedStrings.xml" in z.namelist():
            sst = ["".join(si.xpath(".//m:t/text()", namespaces=ns)) for si in etree.fromstring(z.read("xl/sharedStrings.xml")).xpath("//m:si", namespaces=ns)]
        out = {}
        for cell in sheet.xpath("//m:c", namespaces=ns):
            ref = cell.get("r")
            v = cell.xpath("m:v/text()", namespaces=ns)
            if not v:
                continue
            mm = re.fullmatch(r"([A-Z]+)([0-9]+)", ref)
            val = sst[int(v[0])] if cell.get("t") == "s" else float(v[0])
            out[(colval(mm.group(1)), int(mm.group(2)))] = val
        return out

    def rng(f):
        mm = re.fullmatch(r"Sheet1!\$([A-Z]+)\$([0-9]+)(?::\$([A-Z]+)\$([0-9]+))?", f)
        c1, r1 = colval(mm.group(1)), int(mm.group(2))
        c2, r2 = (colval(mm.group(3)), int(mm.group(4))) if mm.group(3) else (c1, r1)
        return [(cc, rr) for cc in range(c1, c2 + 1) for rr in range(r1, r2 + 1)]

    obls = []
    evals = 0
    samples = []
    cases = []
    nser_list = [1, 2, 25, 26, 27] if tier == "quick" else [1, 2, 25, 26, 27, 51, 52, 53, 701, 702, 703]
    for ns_ in nser_list:
        cd = CategoryChartData()
        cd.categories = ["a", "b", "c"]
        for i in range(ns_):
            cd.add_series("S%d" % i, (i, i + 0.5, None if i % 3 == 0 else i + 1))
        cases.append(("category x%d series" % ns_, XL_CHART_TYPE.COLUMN_CLUSTERED, cd))
    # values that need many significant digits, exponents, negative zero-ish magnitudes: cache and cell hold the same number
    PRECISE = (1234567, 2023.125, 1e-7, 123456.789012345, -0.000123456789, 1e21, 0.1 + 0.2, 2 ** 53 + 1.0, -98765432.1, 3)
    cd = CategoryChartData()
    cd.categories = ["c%d" % i for i in range(len(PRECISE))]
    cd.add_series("precise", PRECISE)
    cd.add_series("precise reversed", tuple(reversed(PRECISE)))
    cases.append(("values with many significant digits", XL_CHART_TYPE.LINE, cd))
    # names and labels holding markup characters: the cache holds the characters the cell holds (no second escaping on any route)
    cd = CategoryChartData()
    cd.categories = ["R&D", "a<b", 'q"uote', "x>y & z"]
    cd.add_series("R&D <Q3>", (1, 2, 3, 4))
    cd.add_series("&amp; already", (4, 3, 2, 1))
    cases.append(("names with markup characters", XL_CHART_TYPE.BAR_CLUSTERED, cd))
    xy = XyChartData()
    sp = xy.add_series("x&y <1>")
    sp.add_data_point(1, 2)
    sp.add_data_point(2, 3)
    cases.append(("xy series name with markup characters", XL_CHART_TYPE.XY_SCATTER, xy))
    bb = BubbleChartData()
    sp = bb.add_series("b&b >2<")
    sp.add_data_point(1, 2, 3)
    cases.append(("bubble series name with markup characters", XL_CHART_TYPE.BUBBLE, bb))
    xy = XyChartData()
    sp = xy.add_series("precise xy")
    for a, b in zip(PRECISE, reversed(PRECISE)):
        sp.add_data_point(a, b)
    cases.append(("xy values with many significant digits", XL_CHART_TYPE.XY_SCATTER, xy))
    bb = BubbleChartData()
    sp = bb.add_series("precise bubble")
    for a, b in zip(PRECISE, reversed(PRECISE)):
        sp.add_data_point(a, b, abs(a) + 1.000001)
    cases.append(("bubble values with many significant digits", XL_CHART_TYPE.BUBBLE, bb))
    import datetime as _dt

    for lbl, cats in (("numeric categories with zero inside", [-1, 0, 1, 2.5]), ("numeric categories starting at zero", [0, 0.5, 1]), ("numeric categories 0.0 and -0.0", [1, 0.0, -0.0, 7]),
                      ("date categories", [_dt.date(1900, 1, 1), _dt.date(1900, 2, 28), _dt.date(1900, 3, 1), _dt.date(2024, 2, 29)]),
                      ("string categories that look empty or numeric", ["", "0", " ", "None", "False", "1e3"])):
        cd = CategoryChartData()
        cd.categories = cats
        cd.add_series("s", tuple(range(len(cats))))
        cases.append((lbl, XL_CHART_TYPE.LINE, cd))
    cd = CategoryChartData()
    g1 = cd.add_category("G1")
    g1.add_sub_category("x")
    g1.add_sub_category("y")
    g2 = cd.add_category("G2")
    g2.add_sub_category("z")
    cd.add_series("s", (1, 2, 3))
    cd.add_series("t", (4, 5, 6))
    cases.append(("2-level categories", XL_CHART_TYPE.BAR_CLUSTERED, cd))
    cd = CategoryChartData()
    for parent, mids in (("North", (("Urban", ("a", "b", "c")), ("Rural", ("d",)))), ("South", (("Urban2", ("e", "f")),)), ("East", (("Rural2", ("g",)), ("Coast", ("h", "i"))))):
        p_ = cd.add_category(parent)
        for mid, leaves in mids:
            m_ = p_.add_sub_category(mid)
            for leaf in leaves:
                m_.add_sub_category(leaf)
    cd.add_series("s", tuple(range(9)))
    cases.append(("3-level ragged categories", XL_CHART_TYPE.COLUMN_CLUSTERED, cd))
    xy = XyChartData()
    for i, npts in enumerate((3, 0, 5, 1)):
        s = xy.add_series("XY%d" % i)
        for j in range(npts):
            s.add_data_point(j + i, j * 2.5)
    cases.append(("xy ragged", XL_CHART_TYPE.XY_SCATTER, xy))
    bb = BubbleChartData()
    for i, npts in enumerate((2, 4, 1)):
        s = bb.add_series("B%d" % i)
        for j in range(npts):
            s.add_data_point(j, j + 1, j + 2)
    cases.append(("bubble ragged", XL_CHART_TYPE.BUBBLE, bb))
    # missing values: the referenced range still spans every point of the series, the cache just has no c:pt for the blank cell
    xy = XyChartData()
    for i, npts in enumerate((4, 2, 3)):
        s = xy.add_series("XYn%d" % i)
        for j in range(npts):
            s.add_data_point(None if (i, j) == (2, 0) else j + i, None if j == 1 else j * 2.5)
    cases.append(("xy with missing values", XL_CHART_TYPE.XY_SCATTER_LINES, xy))
    bb = BubbleChartData()
    for i, npts in enumerate((3, 2)):
        s = bb.add_series("Bn%d" % i)
        for j in range(npts):
            s.add_data_point(j, None if (i, j) == (0, 1) else j + 1, None if j == 0 else j + 2)
    cases.append(("bubble with missing values", XL_CHART_TYPE.BUBBLE_THREE_D_EFFECT, bb))
    # every case twice: as written by add_chart (ChartXmlWriter + the data's workbook), and as left by replace_data on an existing
    # chart of the same kind (the series rewriters + the workbook part replaced in the package)
    from pptx import Presentation as _Prs

    def via_replace_data(ctype, cd):
        prs_ = _Prs()
        sl_ = prs_.slides.add_slide(prs_.slide_layouts[6])
        first = type(cd)()
        if isinstance(cd, CategoryChartData):
            first.categories = ["p", "q"]
            first.add_series("old", (1, 2))
            first.add_series("old2", (3, 4))
        elif isinstance(cd, BubbleChartData):
            first.add_series("old").add_data_point(1, 2, 3)
        else:
            first.add_series("old").add_data_point(1, 2)
        ch_ = sl_.shapes.add_chart(ctype, 0, 0, 100, 100, first).chart
        ch_.replace_data(cd)
        return ch_._chartSpace, ch_.part.chart_workbook.xlsx_part.blob

    # one chart-data object used twice with changes in between: the second chart XML and the second workbook describe the same data
    cd_r = CategoryChartData()
    cd_r.categories = ["Q1", "Q2"]
    sr_r = cd_r.add_series("first", (1, 2))
    _ = ChartXmlWriter(XL_CHART_TYPE.COLUMN_CLUSTERED, cd_r).xml, cd_r.xlsx_blob, cd_r.categories.leaf_count
    cd_r.add_category("Q3")
    sr_r.add_data_point(3.5)
    cd_r.add_series("second", (7, None, 9))
    cases.append(("chart data re-used after additions", XL_CHART_TYPE.COLUMN_CLUSTERED, cd_r))
    xy_r = XyChartData()
    sx_r = xy_r.add_series("xy")
    sx_r.add_data_point(1, 2)
    _ = ChartXmlWriter(XL_CHART_TYPE.XY_SCATTER, xy_r).xml, xy_r.xlsx_blob
    sx_r.add_data_point(3, 4)
    xy_r.add_series("xy2").add_data_point(5, 6)
    cases.append(("xy data re-used after additions", XL_CHART_TYPE.XY_SCATTER, xy_r))
    both = []
    for label, ctype, cd in cases:
        both.append((label, ctype, cd, False))
        if len(cd) <= 60:
            both.append((label + " (after replace_data)", ctype, cd, True))
    for label, ctype, cd, replaced in both:
        if replaced:
            try:
                cs_, blob_ = via_replace_data(ctype, cd)
            except Exception as e:
                nm = "C08.workbook_readback[%s]" % label
                obls.append({"name": nm, "base": nm, "kind": "bounded", "status": "refuted", "backend": "native", "time": 0, "path": 0,
                             "model": {"case": label}, "replay": {"confirmed": True, "witness_class": "workbook-cell-mismatch", "detail": "%s: replace_data raised %r" % (label, e)}})
                continue
            root = etree.fromstring(etree.tostring(cs_))
            cells = cells_of(blob_)
        else:
            xml = ChartXmlWriter(ctype, cd).xml
            root = etree.fromstring(xml.encode() if isinstance(xml, str) else xml)
            cells = cells_of(cd.xlsx_blob)
        bad = None
        for ref in root.xpath("//c:numRef | //c:strRef | //c:multiLvlStrRef", namespaces=cns):
            f = ref.xpath("c:f/text()", namespaces=cns)[0]
            coords = rng(f)
            ptcount = ref.xpath(".//c:ptCount/@val", namespaces=cns)
            lvls = ref.xpath(".//c:lvl", namespaces=cns)
            evals += 1
            if ptcount and not lvls and int(ptcount[0]) != len(coords):
                bad = "%s: %s names %d cells, ptCount=%s" % (label, f, len(coords), ptcount[0])
                break
            if lvls:
                # multi-level categories: level k (0 = leaves) lives in column (depth-1-k) of the referenced block; a point's idx is
                # the offset of its first leaf, so its label must sit in row (first row + idx) of that column
                cols = sorted({cc for cc, rr in coords})
                r1 = min(rr for cc, rr in coords)
                depth = len(lvls)
                rows = {rr for cc, rr in coords}
                if ptcount and int(ptcount[0]) != len(rows):
                    bad = "%s: %s spans %d rows, the multi-level cache announces ptCount=%s" % (label, f, len(rows), ptcount[0])
                    break
                if len(cols) != depth:
                    bad = "%s: %s spans %d columns for %d category levels" % (label, f, len(cols), depth)
                    break
                for k, lvl in enumerate(lvls):
                    col = cols[depth - 1 - k]
                    for pt in lvl.xpath("./c:pt", namespaces=cns):
                        idx = int(pt.get("idx"))
                        v = (pt.xpath("c:v/text()", namespaces=cns) or [""])[0]
                        cell = cells.get((col, r1 + idx))
                        if str(cell) != v:
                            bad = "%s: %s level %d pt idx=%d cached %r, workbook cell %r holds %r" % (label, f, k, idx, v, (col, r1 + idx), cell)
                            break
                    if bad:
                        break
                if bad:
                    break
                continue
            for pt in ref.xpath(".//c:pt", namespaces=cns):
                idx = int(pt.get("idx"))
                v = (pt.xpath("c:v/text()", namespaces=cns) or [""])[0]
                cell = cells.get(coords[idx])
                # a workbook number is stored by XlsxWriter with 16 significant digits ("%.16G"): agreement is to that precision
                def num(x):
                    try:
                        return float(x)
                    except ValueError:
                        return None

                same = (str(cell) == v) or (v == "" and cell is None) or (isinstance(cell, float) and num(v) is not None and (num(v) == cell or float("%.16g" % num(v)) == cell))
                if not same:
                    bad = "%s: %s pt idx=%d cached %r, workbook cell %r holds %r" % (label, f, idx, v, coords[idx], cell)
                    break
            if bad:
                break
        if len(samples) < 4:
            samples.append({"case": label, "refs": root.xpath("//c:f/text()", namespaces=cns)[:4]})
        nm = "C08.workbook_readback[%s]" % label
        if bad:
            obls.append({"name": nm, "base": nm, "kind": "bounded", "status": "refuted", "backend": "native", "time": 0, "path": 0,
                         "model": {"case": label}, "replay": {"confirmed": True, "witness_class": "workbook-cell-mismatch", "detail": bad}})
        else:
            obls.append({"name": nm, "base": nm, "kind": "bounded", "status": "discharged", "backend": "native", "time": 0, "path": 0})
    # PowerPoint-authored charts (several plots, formatted series): after replace_data every series left in the chart agrees with the
    # new workbook -- no series keeps references or caches of the old data
    import glob
    import os

    repo = os.environ.get("PPTX_REPO", "/repo")
    bad = None
    def without_workbooks(path):
        """the deck as a producer that caches values only writes it: no c:externalData, no embedded workbook (zip-level rewrite)"""
        import re as _re
        import zipfile as _zf

        out_ = io.BytesIO()
        with _zf.ZipFile(path) as zin, _zf.ZipFile(out_, "w", _zf.ZIP_DEFLATED) as zout:
            for n_ in zin.namelist():
                d_ = zin.read(n_)
                if _re.fullmatch(r"ppt/charts/chart\d+\.xml", n_):
                    d_ = _re.sub(rb"<c:externalData[^>]*/>|<c:externalData.*?</c:externalData>", b"", d_, flags=_re.S)
                elif _re.fullmatch(r"ppt/charts/_rels/chart\d+\.xml\.rels", n_):
                    d_ = _re.sub(rb"<Relationship [^>]*relationships/package[^>]*/>", b"", d_)
                elif n_.startswith("ppt/embeddings/"):
                    continue
                zout.writestr(n_, d_)
        return io.BytesIO(out_.getvalue())

    for f in sorted(glob.glob(os.path.join(repo, "features", "steps", "test_files", "cht-*.pptx"))):
        for nser, stripped in ((1, False), (2, False), (4, False), (2, True)):
            prs_ = _Prs(without_workbooks(f) if stripped else f)
            for sl_ in prs_.slides:
                for shp in sl_.shapes:
                    if not getattr(shp, "has_chart", False) or not shp.has_chart:
                        continue
                    ch_ = shp.chart
                    try:
                        kinds = {type(p_).__name__ for p_ in ch_.plots}
                    except Exception:
                        continue
                    if kinds & {"XyPlot", "BubblePlot"} or not kinds or not any(len(p_.series) for p_ in ch_.plots):
                        continue  # (a chart without any series cannot take new data: C07 finding F43)
                    cd_ = CategoryChartData()
                    cd_.categories = ["u", "v", "w"]
                    for i in range(nser):
                        cd_.add_series("N%d" % i, (10 + i, 20.5 + i, None if i == 1 else 30 + i))
                    evals += 1
                    try:
                        ch_.replace_data(cd_)
                    except Exception as e:
                        bad = bad or "%s %s: replace_data raised %r" % (os.path.basename(f), shp.name, e)
                        continue
                    wb_ = ch_.part.chart_workbook.xlsx_part
                    if wb_ is None:
                        bad = bad or "%s %s%s: after replace_data the chart names workbook cells but has no embedded workbook" % (os.path.basename(f), shp.name, " (arrived without a workbook)" if stripped else "")
                        continue
                    cells_ = cells_of(wb_.blob)
                    root_ = etree.fromstring(etree.tostring(ch_._chartSpace))
                    sers_ = root_.xpath("//c:ser", namespaces=cns)
                    if len(sers_) != nser:
                        bad = bad or "%s %s: %d series supplied, the chart holds %d after replace_data" % (os.path.basename(f), shp.name, nser, len(sers_))
                    for ref in root_.xpath("//c:ser//c:numRef | //c:ser//c:strRef", namespaces=cns):
                        fm = ref.xpath("c:f/text()", namespaces=cns)[0]
                        try:
                            coords_ = rng(fm)
                        except Exception:
                            bad = bad or "%s %s: reference %r is not a Sheet1 range" % (os.path.basename(f), shp.name, fm)
                            continue
                        for pt in ref.xpath(".//c:pt", namespaces=cns):
                            i_ = int(pt.get("idx"))
                            v_ = pt.xpath("c:v/text()", namespaces=cns)[0]
                            cell_ = cells_.get(coords_[i_]) if i_ < len(coords_) else None
                            if not (str(cell_) == v_ or (isinstance(cell_, float) and float(v_) == cell_)):
                                bad = bad or "%s %s after replace_data with %d series: %s pt idx=%d cached %r, workbook cell holds %r" % (os.path.basename(f), shp.name, nser, fm, i_, v_, cell_)
    nm = "C08.workbook_readback[corpus charts after replace_data]"
    if bad:
        obls.append({"name": nm, "base": nm, "kind": "bounded", "status": "refuted", "backend": "native", "time": 0, "path": 0,
                     "model": {"case": "corpus"}, "replay": {"confirmed": True, "witness_class": "workbook-cell-mismatch", "detail": bad}})
    else:
        obls.append({"name": nm, "base": nm, "kind": "bounded", "status": "discharged", "backend": "native", "time": 0, "path": 0})
    return {"contract": "C08.workbook_readback", "prop": "C08", "status": "ok", "obligations": obls, "paths": 0, "assumed": [], "functions": {},
            "notes": [], "solver_s": 0.0, "wall_s": _t.time() - t0,
            "bounded": {"name": "C08.workbook_readback", "bound": "category charts with %s series (crossing Z/AA%s), 2-level and ragged 3-level categories (every level against its column), ragged XY and bubble data" % (nser_list, "/ZZ/AAA" if tier != "quick" else ""),
                        "evaluations": evals, "samples": samples, "counted_as_proved": False}}


JOBS = {"C08.workbook_readback": _workbook_readback}


@contract("C08", "C08.chart.xlsx.CategoryWorkbookWriter._write_cat_column")
def _write_cat_column(c):
    """for a level with any number of (offset, label) entries: each label is written at row offset + 1 of the given column
    with the given format -- exactly once each, nothing else is written."""
    from pptx.chart.xlsx import CategoryWorkbookWriter

    n = c.int("n_entries")
    c.requires(n >= 0)
    OFF = z3.Function("LEVEL_OFFSET", z3.IntSort(), z3.IntSort())
    NAME = z3.Function("LEVEL_LABEL", z3.IntSort(), z3.IntSort())  # label identity
    col = c.int("col")
    fmt = SObj(None, "num_format")
    level = SSeq(n, lambda j: (OFF(j), SObj(None, "label", label_id=NAME(j))), name="level")
    log = {"cnt": z3.IntVal(0), "ROW": z3.Array("W_ROW0", z3.IntSort(), z3.IntSort()), "COL": z3.Array("W_COL0", z3.IntSort(), z3.IntSort()), "VAL": z3.Array("W_VAL0", z3.IntSort(), z3.IntSort())}
    bad_fmt = []

    class _L:
        def havoc(self, tag):
            log["cnt"] = z3.Int("W_cnt_%s" % tag)
            for k in ("ROW", "COL", "VAL"):
                log[k] = z3.Array("W_%s_%s" % (k, tag), z3.IntSort(), z3.IntSort())

    c.path.ghost.setdefault("ghost_state", []).append(_L())

    def write(it, a, k):
        row, cc, val = a[0], a[1], a[2]
        if len(a) < 4 or a[3] is not fmt:
            bad_fmt.append(a)
        p = log["cnt"]
        from pyvc.engine import to_int

        log["ROW"], log["COL"], log["VAL"] = z3.Store(log["ROW"], p, to_int(row)), z3.Store(log["COL"], p, to_int(cc)), z3.Store(log["VAL"], p, val.fields["label_id"])
        log["cnt"] = p + 1

    ws = SObj(None, "worksheet", write=GhostFn(write, "write"), set_column=GhostFn(lambda it, a, k: None, "set_column"))
    w = SObj(CategoryWorkbookWriter, "writer")
    j = z3.Int("wj")

    def facts(k):
        return z3.And(log["cnt"] == k, z3.ForAll([j], z3.Implies(z3.And(0 <= j, j < k), z3.And(log["ROW"][j] == OFF(j) + 1, log["COL"][j] == col, log["VAL"][j] == NAME(j)))))

    c.loop_specs[("pptx.chart.xlsx:CategoryWorkbookWriter._write_cat_column", 0)] = invariant_loop("C08.chart.xlsx.CategoryWorkbookWriter._write_cat_column.loop0", [], lambda env, k: facts(k))
    out = c.run(CategoryWorkbookWriter._write_cat_column, w, ws, col, level, fmt)
    if out.raised:
        c.fails("never_raises", "raised %s" % out.exc)
        return
    c.ensures("post.each_label_at_row_offset_plus_one", facts(n))
    c.ensures("post.written_with_the_given_format", not bad_fmt)

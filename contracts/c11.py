"""C11 -- accepted attribute values are exactly those the schema can represent.  DESIGN.md 5/C11.

For every (python simple-type class, XSD simple type) pair -- the pairing is recovered mechanically
from the attribute declarations of the registered element classes and the XSD attribute they
denote -- the real `to_xml` / `from_xml` / `validate` / `convert_*` sources are executed
symbolically per input kind (int, float, bool, str, None) and per lexical alternative of the XSD
type, and the clauses of the property become obligations over all integers / reals."""
from __future__ import annotations

import fractions
import re

import z3

from pyvc import decls, xsd
from pyvc.engine import Atom, FmtInt, FmtReal, SStr, Unsupported, to_real, real_round_half_even
from pyvc.verify import contract

META = {
    "residual": [
        "IEEE-754 double treated as the mathematical reals (rounding thresholds and non-finite values are covered by the "
        "bounded probes job C11.ieee_probes, never counted as proved)",
        "xsd whitespace facets (collapse) are ignored: lexical forms are compared after no whitespace processing",
    ],
    "trusted_base": ["XSD files under /repo/spec are the standard", "z3 5.1 / cvc5 1.4 unsat answers"],
}

# class-specific arithmetic relating the Python value to the XSD integer it is stored as (used by
# clause (b) completeness and clause (e) round trip); everything else is derived from the XSD.
SCALED = {
    "ST_Percentage": 100000, "ST_PositiveFixedPercentage": 100000, "ST_TextSpacingPercentOrPercentString": 100000,
    "ST_TextFontScalePercentOrPercentString": 1000, "ST_Angle": 60000, "ST_PositiveFixedAngle": 60000,
}
MODULAR = {"ST_Angle": 21600000, "ST_PositiveFixedAngle": 21600000}
CENTIPOINT = {"ST_TextSpacingPoint"}


def pairs():
    """Pairing of python simple-type classes with XSD simple types, from the attribute declarations.

    Returns (write_sites, read_pairs):
    write_sites  [(python class, (type keys...), [SimpleType...], where)]: one entry per distinct set of
                 XSD types an attribute declaration can denote (a tag such as c:order has several
                 complex types depending on its parent; the written form must be valid for at least one
                 of them -- the class cannot know which parent it is under);
    read_pairs   [(python class, type key, SimpleType, where)]: every type must be readable."""
    S = xsd.load()
    bt = xsd.reachable_types(S)
    sites = {}
    reads = {}
    for tag, (cls, attrs, kids) in decls.all_decls().items():
        for a in attrs:
            cands = []
            for key, ct in bt.get(tag, {}).items():
                at = ct.attrs.get(a.attr_name)
                if at is None or not isinstance(at.type_q, tuple):
                    continue
                try:
                    S.simple_type(at.type_q)
                except KeyError:
                    continue
                if at.type_q not in cands:
                    cands.append(at.type_q)
            if not cands:
                continue
            cands = tuple(sorted(cands))
            sites.setdefault((a.simple_type, cands), "%s@%s" % (tag, a.attr_name))
            for k in cands:
                reads.setdefault((a.simple_type, k), "%s@%s" % (tag, a.attr_name))
    for name, pc in decls.simple_type_classes().items():
        if any(k[0] is pc for k in sites):
            continue
        for key in S.find_simple(name):
            sites.setdefault((pc, (key,)), "(by name)")
            reads.setdefault((pc, key), "(by name)")
    ws = [(pc, keys, [S.simple_type(k) for k in keys], where) for (pc, keys), where in sorted(sites.items(), key=lambda kv: (kv[0][0].__name__, kv[0][1]))]
    rs = [(pc, key, S.simple_type(key), where) for (pc, key), where in sorted(reads.items(), key=lambda kv: (kv[0][0].__name__, kv[0][1]))]
    return ws, rs


# --------------------------------------------------------------------------------------------
# lexical space membership of a structured string


def _int_ok(st, n):
    lo, hi = st.int_range()
    cs = []
    if lo is not None:
        cs.append(n >= lo)
    if hi is not None:
        cs.append(n <= hi)
    return z3.And(*cs) if cs else z3.BoolVal(True)


def lexical_ok(st, s):
    """z3 Bool / bool: structured string `s` is in the lexical space of XSD simple type `st`."""
    if st.variety == "union":
        acc = []
        for m in st.members:
            try:
                r = lexical_ok(m, s)
            except Unsupported:
                continue
            if r is True:
                return True
            if r is not False:
                acc.append(r)
        return z3.Or(*acc) if acc else False
    if st.variety == "list":
        raise Unsupported("list simple type")
    parts = list(s.parts) if isinstance(s, SStr) else [s]
    lit = "".join(parts) if all(isinstance(p, str) for p in parts) else None
    zs = s.z3() if isinstance(s, SStr) else None
    if st.enum is not None:
        if lit is None:
            if zs is not None:
                return z3.Or(*[zs == z3.StringVal(v) for v in st.enum])
            return False
        return lit in st.enum
    if st.prim == "integer":
        if len(parts) == 1 and isinstance(parts[0], FmtInt):
            ok = _int_ok(st, parts[0].term)
        elif lit is not None:
            if not re.fullmatch(r"[+-]?[0-9]+", lit):
                return False
            ok = z3.simplify(_int_ok(st, z3.IntVal(int(lit))))
            ok = bool(z3.is_true(ok))
        else:
            return False
        return _with_patterns(st, parts, lit, ok)
    if st.prim in ("decimal", "double"):
        if len(parts) == 1 and isinstance(parts[0], (FmtReal, FmtInt)):
            t = to_real(parts[0].term)
            cs = []
            if st.min is not None:
                cs.append(t >= _rv(st.min[0]) if st.min[1] else t > _rv(st.min[0]))
            if st.max is not None:
                cs.append(t <= _rv(st.max[0]) if st.max[1] else t < _rv(st.max[0]))
            return z3.And(*cs) if cs else True
        if lit is not None:
            pat = r"[+-]?([0-9]+(\.[0-9]*)?|\.[0-9]+)" + (r"([eE][+-]?[0-9]+)?|[+-]?INF|NaN" if st.prim == "double" else "")
            return bool(re.fullmatch(pat, lit))
        return False
    if st.prim == "boolean":
        return lit in ("true", "false", "1", "0")
    if st.prim == "hexBinary":
        if lit is None:
            src = zs
            if src is None and len(parts) == 1 and isinstance(parts[0], Atom) and parts[0].case_of is not None:
                src = parts[0].case_of[1]  # upper()/lower() keep hex-ness and length
            if src is None:
                raise Unsupported("hexBinary of symbolic string")
            from pyvc import zstr
            n = "{%d}" % (2 * st.length) if st.length is not None else "*"
            return z3.InRe(src, zstr.re_to_z3("(?:[0-9a-fA-F]{2})" + ("{%d}" % st.length if st.length is not None else "*")))
        ok = bool(re.fullmatch(r"([0-9a-fA-F]{2})*", lit))
        if st.length is not None:
            ok = ok and len(lit) == 2 * st.length
        return ok
    if st.prim in ("string", "token", "anyURI", "anySimpleType"):
        if st.patterns:
            return _with_patterns(st, parts, lit, True)
        return True
    raise Unsupported("lexical space of %r" % (st,))


def _rv(fr):
    fr = fractions.Fraction(fr)
    return z3.RealVal(fr.numerator) / z3.RealVal(fr.denominator)


def _with_patterns(st, parts, lit, ok):
    if not st.patterns:
        return ok
    if lit is None:
        zs = SStr(parts).z3()
        if zs is not None:
            from pyvc import zstr
            try:
                cs = [z3.Or(*[z3.InRe(zs, zstr.re_to_z3(p)) for p in group]) for group in st.patterns]
            except Exception as e:  # XSD-only regex syntax (\p{IsBasicLatin}, class subtraction)
                raise Unsupported("XSD pattern of %s is outside the regex subset: %s" % (st.name, e))
            return z3.And(ok, *cs) if ok is not True else z3.And(*cs)
        # a pattern-restricted type reached with a symbolic rendering: only the shapes we can decide
        return _pattern_symbolic(st, parts, ok)
    try:
        for group in st.patterns:
            if not any(re.fullmatch(_xsd_re(p), lit) for p in group):
                return False
    except re.error as e:
        raise Unsupported("XSD pattern of %s is outside the regex subset: %s" % (st.name, e))
    return ok


def _xsd_re(p):
    return p  # the patterns in these schemas use only constructs Python's `re` shares


def _pattern_symbolic(st, parts, ok):
    # "<number>%" and "<number><unit>" where the number is a symbolic rendering
    for group in st.patterns:
        decided = False
        for p in group:
            m = re.fullmatch(r"(.*?)(%|\((?:mm\|cm\|in\|pt\|pc\|pi)\))", p)
            if m and len(parts) == 2 and isinstance(parts[1], str) and isinstance(parts[0], (FmtInt, FmtReal)):
                tail_ok = re.fullmatch(m.group(2), parts[1]) is not None
                if tail_ok:
                    raise Unsupported("symbolic number against pattern %s" % p)
            decided = decided or False
        if not decided:
            return False
    return ok


# --------------------------------------------------------------------------------------------
# lexical alternatives of an XSD type, as structured strings (for the read side)

_INT_HEAD = re.compile(r"^[^.]*$")


class _IntLit(Atom):
    def __init__(self, name, term):
        Atom.__init__(self, name, excludes=frozenset(chr(i) for i in range(32, 127)) - frozenset("0123456789+-"), nonempty=True, tags={"intlit"})
        self.intval = term


class _DecLit(Atom):
    def __init__(self, name, term):
        Atom.__init__(self, name, excludes=frozenset(chr(i) for i in range(32, 127)) - frozenset("0123456789+-."), nonempty=True, tags={"declit"})
        self.realval = term


def lexical_alternatives(st, c, tag="lx"):
    """[(label, structured string, constraint, value-term)] covering the lexical space of `st`
    (each alternative quantifies over all numbers of its shape).  Unmapped shapes are returned with
    string None so that the caller reports them instead of skipping them silently."""
    out = []
    if st.variety == "union":
        for i, m in enumerate(st.members):
            out += [("%s|%s" % (m.name, lab), s, cons, val) for lab, s, cons, val in lexical_alternatives(m, c, "%s%d" % (tag, i))]
        return out
    if st.enum is not None:
        return [("enum:%s" % v, v, True, v) for v in st.enum]
    if st.prim == "integer":
        n = c.int(tag + "_n")
        cons = _int_ok(st, n)
        if st.patterns:
            return out + _pattern_alternatives(st, c, tag)
        return [("canonical-int", SStr([FmtInt(n)]), cons, n), ("int-literal(+,leading zeros)", SStr([_IntLit(tag + "_lit", n)]), cons, n)]
    if st.prim in ("decimal", "double"):
        r = c.real(tag + "_r")
        return [("decimal-literal", SStr([_DecLit(tag + "_lit", r)]), True, r)]
    if st.prim == "boolean":
        return [("bool:%s" % v, v, True, v) for v in ("true", "false", "1", "0")]
    if st.patterns:
        return _pattern_alternatives(st, c, tag)
    if st.prim in ("string", "token", "anyURI", "hexBinary", "anySimpleType"):
        zv = c.input(tag + "_s", z3.String(tag + "_s"))
        cons = True
        if st.min_length is not None:
            cons = z3.Length(zv) >= st.min_length
        return [("any-string", SStr([Atom(tag + "_s", zs=zv)]), cons, None)]
    return [("unmapped:%s" % st.prim, None, True, None)]


def _pattern_alternatives(st, c, tag):
    out = []
    for gi, group in enumerate(st.patterns):
        for pi, p in enumerate(group):
            m = re.fullmatch(r"(.*?)(%|\(mm\|cm\|in\|pt\|pc\|pi\))", p)
            if not m:
                out.append(("unmapped-pattern:%s" % p, None, True, None))
                continue
            head, tail = m.group(1), m.group(2)
            tails = ["%"] if tail == "%" else ["mm", "cm", "in", "pt", "pc", "pi"]
            neg = re.fullmatch(head, "-1") is not None
            if "\\." in head:
                r = c.real("%s_p%d_r" % (tag, pi))
                cons = [] if neg else [r >= 0]
                big = [k for k in (99, 100, 101, 1000, 10 ** 6) if re.fullmatch(head, str(k))]
                if 10 ** 6 not in big:
                    top = max(big) if big else 0
                    cons.append(r < top + 1)
                    if neg:
                        cons.append(r > -(top + 1))
                for t in tails:
                    out.append(("decimal%s" % t, SStr([_DecLit("%s_p%d_lit" % (tag, pi), r), t]), z3.And(*cons) if cons else True, (r, t)))
            else:
                n = c.int("%s_p%d_n" % (tag, pi))
                accepted = [k for k in range(-3000, 3001) if re.fullmatch(head, str(k))]
                unbounded = re.fullmatch(head, str(10 ** 7)) is not None
                if not accepted:
                    out.append(("unmapped-pattern:%s" % p, None, True, None))
                    continue
                lo, hi = min(accepted), max(accepted)
                contiguous = accepted == list(range(lo, hi + 1))
                cons = [n >= lo] if unbounded else [n >= lo, n <= hi]
                if not contiguous:
                    out.append(("unmapped-pattern(non-contiguous):%s" % p, None, True, None))
                    continue
                for t in tails:
                    out.append(("integer%s" % t, SStr([_IntLit("%s_p%d_lit" % (tag, pi), n), t]), z3.And(*cons), (n, t)))
    return out


# --------------------------------------------------------------------------------------------
# replay


def _replay_to_xml(pc, keys):
    def replay(model, rec):
        from lxml import etree

        v = model.get("v")
        if isinstance(v, fractions.Fraction):
            v = float(v)
        kind = rec["name"].split(".to_xml[")[1].split("]")[0] if ".to_xml[" in rec["name"] else "?"
        if kind == "bool":
            v = bool(model.get("vb"))
        elif kind == "float" and v is not None:
            v = float(v)
        elif kind == "none":
            v = None
        elif kind == "str":
            v = model.get("v_str")
        try:
            s = pc.to_xml(v)
        except Exception as e:
            bad = not isinstance(e, (TypeError, ValueError))
            return {"confirmed": bad, "detail": "to_xml(%r) raised %r" % (v, e), "witness_class": "raises-" + type(e).__name__, "input": repr(v)}
        ok = any(native_lexical_ok(key, s) for key in keys)
        wc = "bool-as-int" if isinstance(v, bool) else ("string-form" if isinstance(v, str) else "range")
        return {"confirmed": not ok, "detail": "%s.to_xml(%r) -> %r, schema type %s %s it" % (pc.__name__, v, s, "|".join(k[1] for k in keys), "accepts" if ok else "REJECTS"),
                "witness_class": wc, "input": repr(v)}

    return replay


_SCHEMA_CACHE = {}


def native_lexical_ok(key, lexical):
    """Validate a lexical form against the real XSD simple type with libxml2's schema validator."""
    from lxml import etree

    ns, name = key
    if ns == xsd.XSD_NS:
        tref, imp, nsdecl = "xsd:" + name, "", ""
    else:
        S = xsd.load()
        path = None
        for f in S.files:
            root = etree.parse(f).getroot()
            if root.get("targetNamespace") == ns:
                path = f
                break
        tref, nsdecl = "t:" + name, ' xmlns:t="%s"' % ns
        imp = '<xsd:import namespace="%s" schemaLocation="file://%s"/>' % (ns, path)
    k = (key,)
    if k not in _SCHEMA_CACHE:
        doc = ('<xsd:schema xmlns:xsd="http://www.w3.org/2001/XMLSchema"%s>%s<xsd:element name="probe"><xsd:complexType>'
               '<xsd:attribute name="v" type="%s"/></xsd:complexType></xsd:element></xsd:schema>' % (nsdecl, imp, tref))
        _SCHEMA_CACHE[k] = etree.XMLSchema(etree.fromstring(doc.encode()))
    el = etree.Element("probe")
    try:
        el.set("v", lexical)
    except ValueError:
        return False  # not XML-compatible (control characters, NUL): such a string cannot occur in a document at all
    return _SCHEMA_CACHE[k].validate(el)


# --------------------------------------------------------------------------------------------
# contracts


def _value_for(c, kind):
    if kind == "int":
        return c.int("v")
    if kind == "float":
        return c.real("v")
    if kind == "bool":
        return c.bool("vb")
    if kind == "none":
        return None
    if kind == "str":
        return SStr([Atom("v_str", zs=c.input("v_str", z3.String("v_str")))])
    raise ValueError(kind)


def _py_domain(pc, st):
    """Python-side domain of the class as (kind set, predicate(v) on numbers) derived from the XSD
    range through the class's scale; None when the class is not numeric."""
    name = pc.__name__
    if st.variety == "union":
        ints = [m for m in st.members if m.prim == "integer"]
        if not ints:
            return None
        st = ints[0]
    if st.prim != "integer":
        return None
    lo, hi = st.int_range()
    scale = SCALED.get(name)
    return lo, hi, scale


def _make_to_xml(pc, keys, sts, where):
    name = pc.__name__
    tname = "|".join(k[1] for k in keys)
    if not hasattr(pc, "convert_to_xml"):
        return  # XML-mapped enumerations: ground obligations below
    for kind in ("int", "float", "bool", "str", "none"):
        cname = "C11.simpletypes.%s.to_xml[%s]~%s" % (name, kind, tname)

        @contract("C11", cname, replay=_replay_to_xml(pc, keys))
        def body(c, pc=pc, sts=sts, kind=kind, name=name):
            """(a) accepted => written form is in the type's lexical space; (b) representable => accepted;
            (c) rejection only by TypeError/ValueError."""
            v = _value_for(c, kind)
            out = c.call(pc.to_xml, v)
            doms = [d for d in (_py_domain(pc, st) for st in sts) if d is not None]
            if out.raised:
                ec = out.exc.exc_cls
                c.ensures("raises.only_TypeError_or_ValueError", issubclass(ec, (TypeError, ValueError)), exc=repr(out.exc))
                if kind in ("int", "float") and len(doms) == len(sts) == 1 and issubclass(ec, ValueError):
                    lo, hi, scale = doms[0]
                    if name in MODULAR:
                        c.ensures("complete.no_representable_value_rejected", False)
                    else:
                        # proved for the interior of the range: the two boundary quanta of a *scaled float* type are
                        # where IEEE and the reals differ (the Python bound is a rounded binary literal); they are
                        # checked natively by the C11.ieee_probes job.
                        slack = 1 if (scale and kind == "float") else 0
                        x = to_real(v) * scale if scale else to_real(v)
                        inside = []
                        if lo is not None:
                            inside.append(x >= lo + slack)
                        if hi is not None:
                            inside.append(x <= hi - slack)
                        if name in CENTIPOINT:
                            inside = [to_real(v) >= 0, to_real(v) <= 20116800]
                        c.ensures("complete.no_representable_value_rejected", z3.Not(z3.And(*inside)) if inside else False)
                if kind == "int" and issubclass(ec, TypeError) and doms:
                    c.ensures("complete.int_not_type_rejected", False)
                return
            res = out.value
            s = res if isinstance(res, (SStr, str)) else None
            if s is None:
                c.fails("post.returns_str", "to_xml returned %r" % (res,))
                return
            ss = s if isinstance(s, SStr) else SStr([s])
            claims = []
            undecided = []
            for st in sts:
                try:
                    claims.append(lexical_ok(st, ss))
                except Unsupported as e:
                    undecided.append("%s: %s" % (st.name, e))
            if any(x is True for x in claims):
                claim = True
            elif undecided:
                # the schema pattern is outside the regex subset; every pattern in these schemas matches only
                # non-empty strings, so "non-empty" is a necessary condition: refuting it refutes the clause
                zs = ss.z3()
                if zs is not None:
                    c.ensures("post.lexical_in_schema_type", z3.Length(zs) > 0, overapprox=True, result=repr(s), why="; ".join(undecided))
                else:
                    c.undecided("post.lexical_in_schema_type", "; ".join(undecided))
                return
            else:
                claims = [x for x in claims if x is not False]
                claim = z3.Or(*claims) if claims else False
            c.ensures("post.lexical_in_schema_type", claim, result=repr(s))

        del body


def _make_from_xml(pc, key, st, where):
    name = pc.__name__
    if not hasattr(pc, "convert_from_xml"):
        return
    cname = "C11.simpletypes.%s.from_xml~%s" % (name, key[1])

    has_str_alt = st.variety == "union" and any(m.prim in ("string", "token") and m.enum is None for m in st.members)

    @contract("C11", cname, replay=_replay_from_xml(pc, key), timeout_ms=1500 if has_str_alt else None)
    def body(c, pc=pc, st=st):
        """(d) every lexical alternative of the schema type can be read (no exception)."""
        alts = lexical_alternatives(st, c)
        if not alts:
            c.fails("alternatives", "no lexical alternative derived")
            return
        k = c.path.fork_free(len(alts))
        label, s, cons, val = alts[k]
        if s is None:
            c.note("unmapped lexical alternative %s of %s" % (label, st.name))
            c.ensures("read.unmapped[%s]" % label, True)
            return
        if cons is not True:
            c.requires(cons)
        c.input("alt", z3.IntVal(k))
        out = c.call(pc.from_xml, s)
        if out.raised:
            c.fails("read.total[%s]" % label, "from_xml raised %s on lexical alternative %s" % (out.exc, label), alt=label)
            return
        c.ensures("read.total[%s]" % label, True)
        r = out.value
        if isinstance(val, tuple):
            return
        if val is not None and not isinstance(val, str) and name not in SCALED and name not in CENTIPOINT and z3.is_int(val) and (z3.is_int(r) if z3.is_expr(r) else isinstance(r, int)):
            c.ensures("read.value[%s]" % label, r == val)

    del body


UNIT_EMU = {"mm": 36000, "cm": 360000, "in": 914400, "pt": 12700, "pc": 152400, "pi": 152400}


def _make_forms_agree(pc, key, st, where):
    """a union of a plain integer with a percent string ('N%' = N*1000 of the integer's unit, ECMA-376 ST_Percentage) or with a
    universal measure ('Nmm' ... = EMU): both spellings of one quantity must read as the same value."""
    name = pc.__name__
    if not hasattr(pc, "convert_from_xml") or st.variety != "union":
        return
    ints = [m for m in st.members if m.prim == "integer" and not m.patterns and m.enum is None]
    pats = [p for m in st.members for g in m.patterns for p in g]
    tails = []
    if any(p.endswith("%") for p in pats):
        tails.append("%")
    if any(p.endswith("(mm|cm|in|pt|pc|pi)") for p in pats):
        tails += sorted(UNIT_EMU)
    if not ints or not tails:
        return
    # DrawingML main: the integer counts 1000ths of a percent; DrawingML chart (ST_LblOffset, ST_Overlap, ST_GapAmount, ...): whole percent
    pct_unit = 1 if "chart" in (key[0] or "") else 1000

    def replay(model, rec):
        n = int(model.get("n", 50))
        t = rec["name"].split("[")[-1].split("]")[0]
        k = n * (pct_unit if t == "%" else UNIT_EMU[t])
        a, b = pc.from_xml("%d%s" % (n, t)), pc.from_xml(str(k))
        same = abs(float(a) - float(b)) <= 1e-9 * max(1.0, abs(float(b)))
        return {"confirmed": not same, "witness_class": "forms-disagree", "detail": "%s.from_xml(%r) = %r but from_xml(%r) = %r" % (name, "%d%s" % (n, t), a, str(k), b)}

    for t in tails:
        @contract("C11", "C11.simpletypes.%s.spellings_agree~%s[%s]" % (name, key[1], t), replay=replay)
        def body(c, pc=pc, t=t, st=st):
            n = c.int("n")
            k = n * (pct_unit if t == "%" else UNIT_EMU[t])
            # both spellings schema-valid: the integer inside the integer member's range, the other matching its pattern
            c.requires(z3.Or(*[_int_ok(m, k) for m in ints]))
            c.requires(z3.And(n >= 0, n <= 2000))
            one = c.call(pc.from_xml, SStr([FmtInt(n), t]))
            two = c.call(pc.from_xml, SStr([FmtInt(k)]))
            if one.raised or two.raised:
                c.ensures("both_spellings_readable", False, why="%s / %s" % (one.exc if one.raised else "ok", two.exc if two.raised else "ok"))
                return
            c.ensures("same_value", to_real(one.value) == to_real(two.value))

        del body


def _replay_from_xml(pc, key):
    def replay(model, rec):
        import random

        rnd = random.Random(3)
        S = xsd.load()
        st = S.simple_type(key)
        tried = []
        cands = set()

        def gen(st):
            if st.variety == "union":
                for m in st.members:
                    gen(m)
                return
            if st.enum is not None:
                cands.update(st.enum)
                return
            if st.prim == "integer":
                lo, hi = st.int_range()
                for v in (lo, hi, 0, 1, -1, 7):
                    if v is not None and (lo is None or v >= lo) and (hi is None or v <= hi):
                        cands.update([str(v), "+%d" % v if v >= 0 else str(v), "00%d" % v if v >= 0 else str(v)])
            if st.prim in ("decimal", "double"):
                cands.update(["0", "1.5", "-2.25", "1e3", "3."])
            if st.prim == "boolean":
                cands.update(["true", "false", "1", "0"])
            for group in st.patterns:
                for p in group:
                    for body in ("0", "7", "50", "100", "12.5", "-3", "007", "99.99"):
                        for tail in ("%", "mm", "cm", "in", "pt", "pc", "pi"):
                            if re.fullmatch(p, body + tail):
                                cands.add(body + tail)

        gen(st)
        for k, v in model.items():
            if isinstance(v, str):
                cands.add(v)
        for lex in sorted(cands):
            if not native_lexical_ok(key, lex):
                continue
            try:
                pc.from_xml(lex)
            except Exception as e:
                return {"confirmed": True, "detail": "%s.from_xml(%r) raised %r although %r is valid for %s" % (pc.__name__, lex, e, lex, key[1]),
                        "witness_class": "unreadable-lexical-form", "input": lex}
            tried.append(lex)
        return {"confirmed": False, "detail": "schema-valid forms %s all read" % tried[:12]}

    return replay


def _make_roundtrip(pc, key, st, where):
    name = pc.__name__
    if not (hasattr(pc, "convert_to_xml") and hasattr(pc, "convert_from_xml")):
        return
    kinds = ["int"] if name not in SCALED else ["float", "int"]
    if st.prim in ("double", "decimal"):
        kinds = ["float", "int"]
    if st.prim == "boolean":
        kinds = ["bool"]
    if st.variety != "union" and st.prim not in ("integer", "double", "decimal", "boolean"):
        return
    for kind in kinds:
        cname = "C11.simpletypes.%s.roundtrip[%s]~%s" % (name, kind, key[1])

        @contract("C11", cname, timeout_ms=90000 if name in MODULAR else None)
        def body(c, pc=pc, kind=kind, name=name):
            """(e) from_xml(to_xml(v)) == v to within the type's quantum."""
            v = _value_for(c, kind)
            out = c.call(pc.to_xml, v)
            if out.raised:
                c.ensures("roundtrip.rejected_is_out_of_scope", True)
                return
            back = c.call(pc.from_xml, out.value)
            if back.raised:
                c.fails("roundtrip.readable", "from_xml raised %s on the form to_xml wrote (%r)" % (back.exc, out.value))
                return
            r = back.value
            if kind == "bool":
                c.ensures("roundtrip.value", r == v if z3.is_expr(r) else (z3.BoolVal(r) == v))
                return
            rv, vv = to_real(r), to_real(v)
            if name in MODULAR:
                sc = SCALED[name]
                # proof hints: rounding commutes with shifting by whole turns (each instance is proved first)
                x = vv * sc
                for hint, k in (("neg", z3.ToInt(vv / (-360)) + 1), ("pos", -z3.ToInt(vv / 360))):
                    c.lemma("round_shift_%s" % hint,
                            real_round_half_even(x + z3.ToReal(MODULAR[name] * k)) == real_round_half_even(x) + MODULAR[name] * k)
                c.ensures("roundtrip.value_mod_360", rv * sc == z3.ToReal(real_round_half_even(vv * sc) % MODULAR[name]))
                c.ensures("roundtrip.normalised", z3.And(rv >= 0, rv < 360))
            elif name == "ST_TextFontScalePercentOrPercentString":
                c.ensures("roundtrip.within_quantum", z3.And(vv - rv >= 0, (vv - rv) * 1000 < 1))
            elif name in SCALED:
                sc = SCALED[name]
                c.ensures("roundtrip.within_quantum", z3.And((rv - vv) * sc * 2 <= 1, (vv - rv) * sc * 2 <= 1))
            elif name in CENTIPOINT:
                c.ensures("roundtrip.within_quantum", z3.And(vv - rv >= 0, vv - rv < 127))
            else:
                c.ensures("roundtrip.value", rv == vv)

        del body


def _make_enum(pc, keys, sts, where):
    """XML-mapped enumeration used as an attribute type: ground obligations over every member and
    every schema token, executed on the real to_xml/from_xml sources."""
    name = pc.__name__
    tname = "|".join(k[1] for k in keys)

    def replay(model, rec):
        nm = rec["name"]
        return {"confirmed": True, "detail": rec.get("info", {}).get("why", nm), "witness_class": "enum-" + nm.split(".")[-1].split("[")[0]}

    @contract("C11", "C11.enum.%s~%s" % (name, tname), replay=replay)
    def body(c, pc=pc, sts=sts):
        tokens = None
        for st in sts:
            if st.enum is not None:
                tokens = (tokens or set()) | set(st.enum)
        for m in pc:
            if not m.xml_value:
                out = c.call(pc.to_xml, m)
                c.ensures("to_xml.unmapped_member_rejected[%s]" % m.name, out.raised and issubclass(out.exc.exc_cls, (ValueError, TypeError)))
                continue
            out = c.call(pc.to_xml, m)
            if out.raised:
                c.fails("to_xml.total[%s]" % m.name, "to_xml(%s) raised %s" % (m.name, out.exc))
                continue
            if tokens is not None:
                c.ensures("to_xml.token_in_schema[%s]" % m.name, out.value in tokens, why="%s.%s maps to %r, not a token of %s" % (name, m.name, out.value, tname))
            else:
                claims = [lexical_ok(st, SStr([out.value])) for st in sts]
                c.ensures("to_xml.lexical_in_schema[%s]" % m.name, any(x is True for x in claims))
            back = c.call(pc.from_xml, out.value)
            c.ensures("roundtrip[%s]" % m.name, (not back.raised) and back.value is m, why="from_xml(to_xml(%s)) is not %s" % (m.name, m.name))
        for t in sorted(tokens or ()):
            back = c.call(pc.from_xml, t)
            if back.raised:
                c.fails("from_xml.reads_schema_token[%s]" % t, "%s.from_xml(%r) raised %s although %r is a token of %s" % (name, t, back.exc, t, tname))
            else:
                c.ensures("from_xml.reads_schema_token[%s]" % t, True)

    del body


_WRITE_SITES, _READ_PAIRS = pairs()
for _pc, _keys, _sts, _where in _WRITE_SITES:
    if hasattr(_pc, "__members__") and hasattr(_pc, "xml_value") or (hasattr(_pc, "__members__")):
        _make_enum(_pc, _keys, _sts, _where)
for _pc, _keys, _sts, _where in _WRITE_SITES:
    _make_to_xml(_pc, _keys, _sts, _where)
_rt_done = set()
for _pc, _key, _st, _where in _READ_PAIRS:
    _make_from_xml(_pc, _key, _st, _where)
    _make_forms_agree(_pc, _key, _st, _where)
    if _pc not in _rt_done:
        _rt_done.add(_pc)
        _make_roundtrip(_pc, _key, _st, _where)


# "every other value is rejected with TypeError or ValueError before anything is written": the attribute setter closures
# (xmlchemy OptionalAttribute / RequiredAttribute), one contract per declaration and input kind -- the same bodies as C09's,
# restricted to the rejection clause
def _attribute_setters():
    from contracts import c09

    c09._build_attrs("C11")


_attribute_setters()


# --------------------------------------------------------------------------------------------
# BOUNDED stand-in (never counted as proved): IEEE-754 probes where the reals and doubles differ


def _ieee_probes(tier="quick", seed=0):
    import math
    import time as _t

    t0 = _t.time()
    obls = []
    evals = 0
    samples = []
    for pc, keys, sts, where in _WRITE_SITES:
        if not hasattr(pc, "convert_to_xml"):
            continue
        name = pc.__name__
        accepts_float = False
        try:
            pc.to_xml(1.5)
            accepts_float = True
        except Exception:
            try:
                pc.to_xml(0.5)
                accepts_float = True
            except Exception:
                pass
        if not accepts_float:
            continue
        cands = {0.0, -0.0, 1.0, 0.5, 1.5, 2.5, 1e-9, 1e9, 1e16, 1e300, float("inf"), float("-inf"), float("nan")}
        scale = SCALED.get(name)
        for st in sts:
            ms = st.members if st.variety == "union" else [st]
            for m in ms:
                if m.prim == "integer":
                    lo, hi = m.int_range()
                    for b in (lo, hi):
                        if b is None:
                            continue
                        x = b / scale if scale else float(b)
                        for k in range(-3, 4):
                            y = x
                            for _ in range(abs(k)):
                                y = math.nextafter(y, math.inf if k > 0 else -math.inf)
                            cands.add(y)
                        if scale:
                            for q in (-2, -1, 0, 1, 2):
                                cands.add((b + q + 0.5) / scale)
        if name in MODULAR:
            for d in (360.0, -360.0, 359.999999, 719.9999917, -0.0000001, 359.99999166666703, 86399999 / 120000):
                cands.add(d)
        bad = []
        for v in sorted(cands, key=lambda x: (x != x, x if x == x else 0)):
            evals += 1
            try:
                s = pc.to_xml(v)
            except (TypeError, ValueError):
                continue
            except Exception as e:
                bad.append((repr(v), "raised %r (neither TypeError nor ValueError)" % (e,), "nonfinite-raises" if v != v or abs(v) == math.inf else "raises"))
                continue
            if not any(native_lexical_ok(k, s) for k in keys):
                bad.append((repr(v), "wrote %r, invalid for %s" % (s, "|".join(k[1] for k in keys)), "nonfinite-written" if v != v or abs(v) == math.inf else "range"))
        if len(samples) < 5:
            samples.append({"class": name, "probes": [repr(x) for x in sorted(c for c in cands if c == c)[:6]]})
        nm = "C11.ieee_probes.%s" % name
        if bad:
            classes = sorted(set(b[2] for b in bad))
            for wc in classes:
                sel = [b for b in bad if b[2] == wc]
                obls.append({"name": "%s[%s]" % (nm, wc), "base": "%s[%s]" % (nm, wc), "kind": "bounded", "status": "refuted", "backend": "native", "time": 0, "path": 0,
                             "model": {"inputs": [b[0] for b in sel]},
                             "replay": {"confirmed": True, "witness_class": wc, "detail": "; ".join("%s.to_xml(%s) %s" % (name, b[0], b[1]) for b in sel)[:600]}})
        else:
            obls.append({"name": nm, "base": nm, "kind": "bounded", "status": "discharged", "backend": "native", "time": 0, "path": 0})
    return {"contract": "C11.ieee_probes", "prop": "C11", "status": "ok", "obligations": obls, "paths": 0, "assumed": [], "functions": {},
            "notes": [], "solver_s": 0.0, "wall_s": _t.time() - t0,
            "bounded": {"name": "C11.ieee_probes", "bound": "every float-accepting simple type x {each integer facet bound / scale +-3 ulp, "
                        "rounding thresholds (k+1/2)/scale for k within 2 of a bound, 0, -0.0, 1e-9..1e300, inf, -inf, nan}",
                        "evaluations": evals, "samples": samples, "counted_as_proved": False}}


JOBS = {"C11.ieee_probes": _ieee_probes}


def _native_rejections(tier="quick", seed=0):
    """BOUNDED: the object-model setters with values outside their documented domain (the out-of-domain leg of the C09 sweep): each is
    refused with TypeError / ValueError and nothing has changed; and the read-back leg: reading the written form returns the value"""
    from contracts import c09

    r = c09._native_setget_sweep(tier=tier, seed=seed)
    keep = []
    for o in r["obligations"]:
        nm = o["name"]
        if "out-of-domain" in nm or "refusal" in nm or "refused" in nm or "reads-back-differently" in nm or "reading-raises" in nm:
            o = dict(o, name=nm.replace("C09.", "C11."), base=o["base"].replace("C09.", "C11."))
            keep.append(o)
    ok = {"name": "C11.native.out_of_domain_values_refused_unchanged", "base": "C11.native.out_of_domain_values_refused_unchanged", "kind": "bounded",
          "status": "refuted" if any(o["status"] == "refuted" for o in keep) else "discharged", "backend": "native", "time": 0, "path": 0}
    if ok["status"] == "refuted":
        ok["replay"] = {"confirmed": True, "witness_class": "set-get", "detail": "; ".join(o["replay"]["detail"] for o in keep if o["status"] == "refuted")[:600]}
        ok["model"] = None
    r = dict(r, contract="C11.native_rejections", prop="C11", obligations=keep + [ok])
    r["bounded"] = dict(r["bounded"], name="C11.native_rejections", bound="out-of-domain leg of the C09 set/get sweep: " + r["bounded"]["bound"])
    return r


JOBS["C11.native_rejections"] = _native_rejections


# ---------------------------------------------------------------------------------------------------------
# the generated `_add_x(**attrs)`: a child whose attribute value is refused never reaches the tree


def _replay_add_child(model, rec):
    from pptx.oxml import parse_xml
    from pptx.oxml.ns import nsdecls

    for xml, meth, kw in (('<c:marker %s/>' % nsdecls("c"), "_add_size", {"val": 73}), ('<c:valAx %s/>' % nsdecls("c"), "_add_majorUnit", {"val": -1.0}),
                          ('<c:marker %s/>' % nsdecls("c"), "_add_symbol", {"val": "no-such-symbol"})):
        el = parse_xml(xml)
        try:
            getattr(el, meth)(**kw)
            return {"confirmed": True, "witness_class": "set-get", "detail": "%s(%r) on an empty element was accepted" % (meth, kw)}
        except (ValueError, TypeError):
            pass
        except Exception as e:
            return {"confirmed": True, "witness_class": "set-get", "detail": "%s(%r) raised %r" % (meth, kw, e)}
        if len(el):
            return {"confirmed": True, "witness_class": "set-get", "detail": "%s(%r) was refused, yet the element now holds %s" % (meth, kw, [c.tag.split("}")[1] for c in el])}
    return {"confirmed": False, "detail": "a refused attribute value leaves no child behind"}


def _make_add_child(n_ok, refuse):
    @contract("C11", "C11.oxml.xmlchemy._add_child[%d accepted attribute(s)%s]" % (n_ok, ", then a refused one" if refuse else ""), replay=_replay_add_child)
    def body(c):
        """the new child receives every keyword attribute while it is still detached and is inserted afterwards, once; when an attribute
        value is refused (the setter raises) nothing is inserted."""
        import inspect

        from pyvc.engine import GhostFn, PyRaise, SObj
        from pptx.oxml.chart.marker import CT_Marker

        fn = inspect.getattr_static(CT_Marker, "_add_size")
        log = []

        class _Child:
            __pyvc_symbolic__ = True

            def sym_truth(self, it):
                return True

            def sym_setattr(self, it, name, v):
                if name == "refused":
                    log.append(("refused", name))
                    raise PyRaise(ValueError, ("value outside the simple type",))
                log.append(("set", name))

            def sym_getattr(self, it, name):
                raise Unsupported("attribute %s of the new child is not modelled" % name)

        child = _Child()
        obj = SObj(None, "parent", _new_size=GhostFn(lambda it, a, k: (log.append(("new", None)), child)[1], "_new_size"),
                   _insert_size=GhostFn(lambda it, a, k: log.append(("insert", a[0] is child)), "_insert_size"), __external__=True)
        attrs = {"a%d" % i: i for i in range(n_ok)}
        if refuse:
            attrs["refused"] = 0
            attrs["later"] = 1
        out = c.run(lambda o: fn(o, **attrs), obj)
        inserts = [e for e in log if e[0] == "insert"]
        if refuse:
            c.ensures("refused.raises_ValueError", out.raised and out.exc.exc_cls is ValueError)
            c.ensures("refused.nothing_inserted", not inserts)
            return
        if out.raised:
            c.fails("never_raises", "raised %s" % out.exc)
            return
        c.ensures("post.returns_the_child", out.value is child)
        c.ensures("post.inserted_once_that_child", inserts == [("insert", True)])
        c.ensures("post.every_attribute_set_before_insertion", [e for e in log if e[0] == "set"] == [("set", "a%d" % i) for i in range(n_ok)] and (not log or log[-1][0] == "insert"))

    return body


for _n, _r in ((0, False), (2, False), (0, True), (2, True)):
    _make_add_child(_n, _r)

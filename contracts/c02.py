"""C02 -- every saved file is a closed, self-consistent package, after any history.  DESIGN.md 5/C02.

Invariant CLOSED(part): every relationship id referenced from the part's XML is a key of its relationships; keys are
unique (dict); every internal relationship's target is a part object; what is written for a relationship is derived from
the *current* name of its target.  Each function that adds, reuses or drops a relationship is verified to preserve
CLOSED (function by function; histories follow by induction over the per-call contracts); relationship-id allocation and
part-name allocation are the C06 contracts."""
from __future__ import annotations

import z3

from pyvc.engine import Atom, GhostFn, GhostProp, SObj, SSeq, SStr, invariant_loop
from pyvc.gsets import GDict, str_key
from pyvc.verify import contract

META = {
    "residual": [
        "closure over all interleavings of the whole public API is by induction over per-function contracts; functions without a contract "
        "here (e.g. chart replace_data's workbook update) are covered by the bounded C02.native_histories job only",
        "equality of the re-opened object graph with the in-memory one is checked only by the bounded job",
        "relationship ids referenced through r:embed / r:link / r:pict are never dropped by the library (no removal API); drop_rel's count of r:id references is what its three callers need",
    ],
    "trusted_base": ["z3 arrays", "C06 allocator contracts (_next_rId fresh)", "lxml xpath", "zipfile"],
}

# ghost relationship store: key = rId (string); value = relationship identity (Int) with attribute functions
REL_TYPE = z3.Function("RELTYPE_OF", z3.IntSort(), z3.StringSort())
REL_EXT = z3.Function("REL_IS_EXT", z3.IntSort(), z3.BoolSort())
REL_TGT = z3.Function("REL_TARGET", z3.IntSort(), z3.StringSort())  # identity of the target part / the external reference text
REL_RID = z3.Function("REL_RID", z3.IntSort(), z3.StringSort())


def _tkey(t):
    """identity of a relationship target: a part's ghost id or the text of an external reference"""
    if hasattr(t, "fields") and "part_id" in t.fields:
        return t.fields["part_id"]
    return str_key(t)


class _PartG:
    """target part of a stored relationship: compares by ghost identity (Part defines no __eq__, so == is identity)"""

    __pyvc_symbolic__ = True

    def __init__(self, pid):
        self.fields = {"part_id": pid}

    def sym_eq(self, it, other):
        f = getattr(other, "fields", None)
        if f is not None and "part_id" in f:
            return self.fields["part_id"] == f["part_id"]
        return False

    def sym_getattr(self, it, name):
        return self.fields[name]


def _rel_obj(n):
    from pptx.opc.package import _Relationship

    return SObj(None, "rel#%s" % n, rel_id=n, rId=SStr([Atom("rId", zs=REL_RID(n))]), reltype=SStr([Atom("reltype", zs=REL_TYPE(n))]),
                is_external=REL_EXT(n), target_ref=SStr([Atom("target_ref", zs=REL_TGT(n))]),
                target_part=_PartG(REL_TGT(n)))


def _rels_store(c):
    """the dict inside a _Relationships object; storing a real _Relationship records its fields under a fresh identity"""

    def wrap(v):
        if "rel_id" in v.fields:
            return v.fields["rel_id"]
        from pptx.opc.constants import RELATIONSHIP_TARGET_MODE as RTM

        n = c.path.fresh("new_rel", z3.IntSort())
        f = v.fields
        mode = f["_target_mode"]
        c.path.assume(z3.And(REL_TYPE(n) == str_key(f["_reltype"]), REL_RID(n) == str_key(f["_rId"]),
                             REL_EXT(n) == z3.BoolVal(mode == RTM.EXTERNAL), REL_TGT(n) == _tkey(f["_target"])))
        c.path.ghost.setdefault("stored", []).append((n, v))
        return n

    return GDict.symbolic("rels", key_of=str_key, vsort=z3.IntSort(), wrap=wrap, unwrap=_rel_obj)


def _s(name, c=None):
    zs = z3.String(name)
    if c is not None:
        c.input(name, zs)
    return SStr([Atom(name, zs=zs)])


# ---------------------------------------------------------------------------------------------------------
# relationships: lookup, reuse, addition


def _replay_rels(model, rec):
    from pptx.opc.package import Part, _Relationships
    from pptx.opc.packuri import PackURI

    a, b = Part(PackURI("/a.xml"), "x", None, b""), Part(PackURI("/b.xml"), "x", None, b"")
    r = _Relationships("/")
    log = []
    r1 = r.get_or_add("t1", a)
    r2 = r.get_or_add("t1", b)
    r3 = r.get_or_add("t2", a)
    r4 = r.get_or_add("t1", a)
    e1 = r.get_or_add_ext_rel("t1", "http://x/")
    e2 = r.get_or_add_ext_rel("t1", "http://x/")
    e3 = r.get_or_add_ext_rel("t1", "http://y/")
    if len({r1, r2, r3, e1, e3}) != 5 or r4 != r1 or e2 != e1:
        return {"confirmed": True, "witness_class": "rels-reuse", "detail": "get_or_add sequence gave %s" % [r1, r2, r3, r4, e1, e2, e3]}
    if r[r1].target_part is not a or r[r2].target_part is not b or r[e1].target_ref != "http://x/" or not r[e1].is_external or r[r1].is_external:
        return {"confirmed": True, "witness_class": "rels-reuse", "detail": "stored relationships have wrong targets"}
    # a lookup by type, then a removal, then the same request again: the removed relationship must not be found any more
    r.part_with_reltype("t2")
    r.pop(r3)
    r3b = r.get_or_add("t2", a)
    if r3b not in r or r[r3b].target_part is not a or r[r3b].reltype != "t2":
        return {"confirmed": True, "witness_class": "rels-reuse", "detail": "lookup by type, pop(%s), get_or_add of the same type and target returned %s which is %sa key" % (r3, r3b, "" if r3b in r else "not ")}
    r.get_or_add_ext_rel("t1", "http://x/")
    r.pop(e1)
    e1b = r.get_or_add_ext_rel("t1", "http://x/")
    if e1b not in r or r[e1b].target_ref != "http://x/":
        return {"confirmed": True, "witness_class": "rels-reuse", "detail": "pop(%s) then get_or_add_ext_rel of the same URL returned %s which is not a key" % (e1, e1b)}
    e1 = e1b
    r.pop(r2)
    r5 = r.get_or_add("t9", b)
    if r5 != r2 or set(r) != {r1, r3b, e1, e3, r5}:
        return {"confirmed": True, "witness_class": "rels-reuse", "detail": "after pop, get_or_add gave %s keys %s" % (r5, sorted(r))}
    return {"confirmed": False, "detail": "get_or_add / get_or_add_ext_rel reuse and add as documented"}


def _by_reltype(c, n, F):
    """ghost for _rels_by_reltype[reltype]: the relationships of that type, as a sequence (assumed: _rels_by_reltype groups values() by reltype)"""
    seq = SSeq(n, lambda j: _rel_obj(F(j)), name="rels_of_reltype")

    class _D:
        __pyvc_symbolic__ = True

        def sym_getitem(self, it, key):
            it.path.assumed.add("_rels_by_reltype[t] is the sequence of stored relationships whose reltype is t (defaultdict grouping of values())")
            self.asked = key
            return seq

    return _D()


@contract("C02", "C02.opc.package._Relationships._get_matching", replay=_replay_rels)
def _get_matching(c):
    """returns the rId of the first stored relationship of that type with the same target mode and the same target
    (part identity for internal, reference text for external); None iff there is none."""
    from pptx.opc.package import _Relationships

    n = c.int("n_of_type")
    c.requires(n >= 0)
    F = z3.Function("NTH_OF_TYPE", z3.IntSort(), z3.IntSort())
    rels = SObj(_Relationships, "rels", _rels_by_reltype=_by_reltype(c, n, F))
    ext = c.bool("is_external")
    is_ext = True if c.branch(ext) else False
    tgt_id = c.input("target", z3.String("target"))
    target = SStr([Atom("url", zs=tgt_id)]) if is_ext else SObj(None, "part", part_id=tgt_id)
    j = z3.Int("mj")
    match = lambda q: z3.And(REL_EXT(F(q)) == z3.BoolVal(is_ext), REL_TGT(F(q)) == tgt_id)
    c.loop_specs[("pptx.opc.package:_Relationships._get_matching", 0)] = invariant_loop(
        "C02.opc.package._Relationships._get_matching.loop0", [], lambda env, k: z3.ForAll([j], z3.Implies(z3.And(0 <= j, j < k), z3.Not(match(j)))))
    c.path.assumed.add("identity of part objects is compared by == (Part defines no __eq__): modelled as equality of ghost ids")
    out = c.run(_Relationships._get_matching, rels, _s("reltype"), target, is_ext)
    if out.raised:
        c.fails("never_raises", "raised %s" % out.exc)
        return
    if out.value is None:
        c.ensures("post.none_iff_no_match", z3.ForAll([j], z3.Implies(z3.And(0 <= j, j < n), z3.Not(match(j)))))
    else:
        w = z3.Int("mw")
        c.ensures("post.returns_rId_of_a_match", z3.Exists([w], z3.And(0 <= w, w < n, match(w), REL_RID(F(w)) == str_key(out.value),
                                                                     z3.ForAll([j], z3.Implies(z3.And(0 <= j, j < w), z3.Not(match(j)))))))


def _make_get_or_add(kind):
    @contract("C02", "C02.opc.package._Relationships.%s" % kind, replay=_replay_rels)
    def body(c):
        """a matching relationship exists => its rId is returned and the collection is unchanged; otherwise exactly one
        relationship is stored under the fresh rId (type, mode, target as given), every other key keeps its value."""
        from pptx.opc.package import _Relationships

        store = _rels_store(c)
        HAS0, VAL0 = store.HAS, store.VAL
        found = c.bool("match_exists")
        existing = _s("existing_rId")
        fresh = c.input("next_rId", z3.String("next_rId"))
        c.requires(z3.Not(store.has(fresh)))  # C06 contract of _next_rId
        c.path.assumed.add("_next_rId returns a key not in the collection (C06 contract)")
        ext = kind == "get_or_add_ext_rel"
        tgt_id = z3.String("target")
        target = SStr([Atom("url", zs=tgt_id)]) if ext else SObj(None, "part", part_id=tgt_id)
        asked = []
        rels = SObj(_Relationships, "rels", _rels=store, _base_uri=_s("base_uri"), _next_rId=SStr([Atom("next_rId", zs=fresh)]),
                    _get_matching=GhostFn(lambda it, a, k: (asked.append((a, k)), existing if it.path.branch(found) else None)[1], "_get_matching"))
        out = c.run(getattr(_Relationships, kind), rels, _s("reltype"), target)
        if out.raised:
            c.fails("never_raises", "raised %s" % out.exc)
            return
        ok = len(asked) == 1 and asked[0][0][1] is target and (dict(asked[0][1]).get("is_external", asked[0][0][2] if len(asked[0][0]) > 2 else False) is ext)
        c.ensures("post.looked_for_same_type_target_mode", ok)
        k = z3.String("k")
        stored = c.path.ghost.get("stored", [])
        if out.value is existing:
            c.ensures("post.reused", z3.And(found, len(stored) == 0))
            c.ensures("frame.collection_unchanged", z3.ForAll([k], z3.And(store.has(k) == z3.Select(HAS0, k), store.val(k) == z3.Select(VAL0, k))))
            return
        c.ensures("post.added_only_without_match", z3.And(z3.Not(found), len(stored) == 1))
        if len(stored) != 1:
            return
        n, v = stored[0]
        c.ensures("post.returns_the_fresh_key", str_key(out.value) == fresh)
        c.ensures("post.stored_under_the_fresh_key", z3.And(store.has(fresh), store.val(fresh) == n, REL_RID(n) == fresh))
        c.ensures("post.type_mode_target_as_given", z3.And(REL_TYPE(n) == z3.String("reltype"), REL_EXT(n) == z3.BoolVal(ext), REL_TGT(n) == tgt_id))
        c.ensures("frame.other_keys_untouched", z3.ForAll([k], z3.Implies(k != fresh, z3.And(store.has(k) == z3.Select(HAS0, k), store.val(k) == z3.Select(VAL0, k)))))
        c.ensures("post.base_uri_of_owner", v.fields["_base_uri"] is rels.fields["_base_uri"])

    return body


_make_get_or_add("get_or_add")
_make_get_or_add("get_or_add_ext_rel")


@contract("C02", "C02.opc.package._RelatableMixin.relate_to", replay=_replay_rels)
def _relate_to(c):
    """a part target goes to get_or_add, an external str target to get_or_add_ext_rel, with the type given; the rId they
    return is returned."""
    from pptx.opc.package import Part

    calls = []
    rid = _s("rId")
    rels = SObj(None, "rels", get_or_add=GhostFn(lambda it, a, k: (calls.append(("internal", a)), rid)[1], "get_or_add"),
                get_or_add_ext_rel=GhostFn(lambda it, a, k: (calls.append(("external", a)), rid)[1], "get_or_add_ext_rel"))
    part = SObj(Part, "part", _rels=rels)
    ext = c.bool("external_str_target")
    reltype = _s("reltype")
    if c.branch(ext):
        target = _s("url")
        out = c.run(Part.relate_to, part, target, reltype, True)
    else:
        target = SObj(Part, "target_part")
        out = c.run(Part.relate_to, part, target, reltype)
    if out.raised:
        c.fails("never_raises", "raised %s" % out.exc)
        return
    c.ensures("post.one_call_of_the_right_kind", len(calls) == 1 and calls[0][0] == ("external" if isinstance(target, SStr) else "internal"))
    c.ensures("post.type_and_target_passed_on", len(calls) == 1 and calls[0][1][0] is reltype and calls[0][1][1] is target)
    c.ensures("post.returns_that_rId", out.value is rid)


@contract("C02", "C02.opc.package._RelatableMixin.related_part+target_ref")
def _related(c):
    """lookup by rId: the stored relationship's target part / reference; KeyError (only) for an unknown rId."""
    from pptx.opc.package import Part, _Relationships

    store = _rels_store(c)
    rels = SObj(_Relationships, "rels", _rels=store)
    part = SObj(Part, "part", _rels=rels)
    rid = _s("rId", c)
    which = c.bool("ask_target_ref")
    fn = Part.target_ref if c.branch(which) else Part.related_part
    out = c.run(fn, part, rid)
    if out.raised:
        c.ensures("post.only_KeyError", out.exc.exc_cls is KeyError)
        c.ensures("post.KeyError_iff_unknown", z3.Not(store.has(z3.String("rId"))))
        return
    n = store.val(z3.String("rId"))
    c.ensures("post.known", store.has(z3.String("rId")))
    if fn is Part.target_ref:
        c.ensures("post.its_reference", str_key(out.value) == REL_TGT(n))
    else:
        c.ensures("post.its_target_part", out.value.fields["part_id"] == REL_TGT(n))


# ---------------------------------------------------------------------------------------------------------
# dropping


def _replay_drop(model, rec):
    from pptx import Presentation

    prs = Presentation()
    s = prs.slides.add_slide(prs.slide_layouts[6])
    tb = s.shapes.add_textbox(0, 0, 100, 100)
    p = tb.text_frame.paragraphs[0]
    r1, r2 = p.add_run(), p.add_run()
    r1.hyperlink.address = "http://same/"
    r2.hyperlink.address = "http://same/"
    n0 = len(s.part.rels)
    r1.hyperlink.address = None
    if r2.hyperlink.address != "http://same/":
        return {"confirmed": True, "witness_class": "drop-rel", "detail": "removing one of two hyperlinks sharing a relationship broke the other: %r" % r2.hyperlink.address}
    r2.hyperlink.address = None
    if len(s.part.rels) != n0 - 1:
        return {"confirmed": True, "witness_class": "drop-rel", "detail": "relationship count %d -> %d after removing both hyperlinks" % (n0, len(s.part.rels))}
    sh = s.shapes.add_shape(1, 0, 0, 10, 10)
    sh.click_action.hyperlink.address = "http://x/"
    sh.click_action.hyperlink.address = "http://y/"
    ids = s.part._element.xpath("//@r:id")
    if any(i not in s.part.rels for i in ids):
        return {"confirmed": True, "witness_class": "drop-rel", "detail": "dangling r:id after changing a click-action hyperlink: %s" % ids}
    return {"confirmed": False, "detail": "shared hyperlink relationships survive until the last reference goes"}


@contract("C02", "C02.opc.package.XmlPart.drop_rel", replay=_replay_drop)
def _drop_rel(c):
    """the relationship is removed iff fewer than two r:id attributes of the part's XML name it; nothing else changes."""
    from pptx.opc.package import XmlPart, _Relationships

    store = _rels_store(c)
    HAS0, VAL0 = store.HAS, store.VAL
    n = c.int("n_refs_in_xml")
    c.requires(n >= 0)
    R = z3.Function("RID_ATTR", z3.IntSort(), z3.StringSort())
    seq = SSeq(n, lambda j: SStr([Atom("r:id[%s]" % j, zs=R(j))]), name="//@r:id")

    def xpath(it, a, k):
        from pyvc.engine import Unsupported

        if a and a[0] == "//@r:id":
            it.path.assumed.add("xpath('//@r:id') returns the r:id attribute values of the part's XML")
            return seq
        raise Unsupported("xpath %r has no assumed contract" % (a,))

    elm = SObj(None, "root", xpath=GhostFn(xpath, "xpath"))
    rels = SObj(_Relationships, "rels", _rels=store)
    part = SObj(XmlPart, "part", _element=elm, _rels=rels)
    rid = c.input("rId", z3.String("rId"))
    c.requires(store.has(rid))
    out = c.run(XmlPart.drop_rel, part, SStr([Atom("rId", zs=rid)]))
    if out.raised:
        c.fails("never_raises", "raised %s" % out.exc)
        return
    u = c.path.ghost["filtered"][-1] if c.path.ghost.get("filtered") else None
    c.ensures("post.counted_the_references", u is not None)
    if u is None:
        return
    j, j2, k = z3.Int("dj"), z3.Int("dj2"), z3.String("dk")
    two = z3.Exists([j, j2], z3.And(0 <= j, j < j2, j2 < n, R(j) == rid, R(j2) == rid))
    c.ensures("post.removed_iff_fewer_than_two_references", store.has(rid) == two)
    c.ensures("frame.other_relationships_untouched", z3.ForAll([k], z3.Implies(k != rid, z3.And(store.has(k) == z3.Select(HAS0, k), store.val(k) == z3.Select(VAL0, k)))))


class _GPart:
    """part as seen by the proxies that add/remove references: REFS(rId) = number of r:id references in its XML,
    KEYS(rId) = rId is a relationship key.  CLOSED: REFS(r) > 0 => KEYS(r).  drop_rel is the verified contract above."""

    def __init__(self, c):
        self.REFS = z3.Array("REFS0", z3.StringSort(), z3.IntSort())
        self.KEYS = z3.Array("KEYS0", z3.StringSort(), z3.BoolSort())
        self.REFS0, self.KEYS0 = self.REFS, self.KEYS
        r = z3.String("cr")
        c.requires(z3.ForAll([r], z3.And(z3.Select(self.REFS, r) >= 0, z3.Implies(z3.Select(self.REFS, r) > 0, z3.Select(self.KEYS, r)))))
        self.c = c
        self.events = []

    def closed(self):
        r = z3.String("cr2")
        return z3.ForAll([r], z3.And(z3.Select(self.REFS, r) >= 0, z3.Implies(z3.Select(self.REFS, r) > 0, z3.Select(self.KEYS, r))))

    def obj(self):
        def drop_rel(it, a, k):
            rid = str_key(a[0])
            self.events.append(("drop_rel", rid))
            it.path.assumed.add("XmlPart.drop_rel: removes the key iff fewer than two r:id references (contract C02.opc.package.XmlPart.drop_rel)")
            self.KEYS = z3.If(z3.Select(self.REFS, rid) < 2, z3.Store(self.KEYS, rid, z3.BoolVal(False)), self.KEYS)

        def relate_to(it, a, k):
            new = it.path.fresh("rId", z3.StringSort())
            self.events.append(("relate_to", new, a, k))
            it.path.assumed.add("relate_to returns a key of the part's relationships (contract C02...relate_to / get_or_add)")
            self.KEYS = z3.Store(self.KEYS, new, z3.BoolVal(True))
            return SStr([Atom("rId_new", zs=new)])

        return SObj(None, "part", drop_rel=GhostFn(drop_rel, "drop_rel"), relate_to=GhostFn(relate_to, "relate_to"))

    def ref_removed(self, rid):
        self.REFS = z3.Store(self.REFS, rid, z3.Select(self.REFS, rid) - 1)

    def ref_added(self, rid):
        self.REFS = z3.Store(self.REFS, rid, z3.Select(self.REFS, rid) + 1)


def _hlink_elem(c, gp, name="hlinkClick"):
    """existing a:hlinkClick element whose r:id is counted in REFS"""
    rid = c.input("old_rId", z3.String("old_rId"))
    c.requires(z3.Select(gp.REFS, rid) >= 1)
    return SObj(None, name, rId=SStr([Atom("old_rId", zs=rid, nonempty=True)])), rid


@contract("C02", "C02.text.text._Hyperlink.address.fset", replay=_replay_drop)
def _run_hyperlink_set(c):
    """set / change / clear of a run hyperlink keeps the part CLOSED: the old reference is dropped together with its element,
    the new element carries exactly the rId relate_to returned (obtained before it is written)."""
    from pptx.text.text import _Hyperlink

    gp = _GPart(c)
    part = gp.obj()
    had = c.bool("had_link")
    state = {}
    had_link = c.branch(had)
    if had_link:
        state["el"], old = _hlink_elem(c, gp)
    else:
        state["el"] = None

    def add_hlinkClick(it, a, k):
        rid = str_key(a[0])
        gp.events.append(("add_element", rid))
        gp.ref_added(rid)
        state["el"] = SObj(None, "hlinkClick", rId=a[0])
        return state["el"]

    def remove_hlinkClick(it, a, k):
        rid = str_key(state["el"].fields["rId"])
        gp.events.append(("remove_element", rid))
        gp.ref_removed(rid)
        state["el"] = None

    rPr = SObj(None, "rPr", hlinkClick=GhostProp(lambda it: state["el"]), add_hlinkClick=GhostFn(add_hlinkClick), _remove_hlinkClick=GhostFn(remove_hlinkClick))
    h = SObj(_Hyperlink, "hyperlink", _rPr=rPr, part=part)
    clear = c.bool("clear")
    url = None if c.branch(clear) else SStr([Atom("url", zs=z3.String("url"), nonempty=True)])
    out = c.run(_Hyperlink.address.fset, h, url)
    if out.raised:
        c.fails("never_raises", "raised %s" % out.exc)
        return
    c.ensures("inv.CLOSED_preserved", gp.closed())
    kinds = [e[0] for e in gp.events]
    c.ensures("post.drop_then_remove_then_relate_then_add",
              kinds == (["drop_rel", "remove_element"] if had_link else []) + (["relate_to", "add_element"] if url is not None else []))
    if kinds != (["drop_rel", "remove_element"] if had_link else []) + (["relate_to", "add_element"] if url is not None else []):
        return
    if had_link:
        c.ensures("post.dropped_the_old_relationship_id", gp.events[0][1] == old and gp.events[1][1] == old)
    if url is not None:
        rel = [e for e in gp.events if e[0] == "relate_to"][0]
        add = [e for e in gp.events if e[0] == "add_element"][0]
        from pptx.opc.constants import RELATIONSHIP_TYPE as RT

        c.ensures("post.element_carries_the_rId_returned", add[1] == rel[1])
        c.ensures("post.external_hyperlink_relationship", rel[2][0] is url and rel[2][1] == RT.HYPERLINK and (rel[3].get("is_external") is True or (len(rel[2]) > 2 and rel[2][2] is True)))
    else:
        c.ensures("post.cleared", state["el"] is None)


def _make_action(kind):
    @contract("C02", "C02.action.%s" % kind, replay=_replay_drop)
    def body(c):
        """click-action hyperlink / slide jump: set, change and clear keep the part CLOSED (old relationship dropped with
        its element, new element carries the rId relate_to returned)."""
        import pptx.action as action
        from pptx.opc.constants import RELATIONSHIP_TYPE as RT

        gp = _GPart(c)
        part = gp.obj()
        had = c.bool("had_hlink")
        state = {"el": None}
        if c.branch(had):
            has_rid = c.bool("old_has_rId")
            if c.branch(has_rid):
                state["el"], old = _hlink_elem(c, gp)
            else:
                state["el"] = SObj(None, "hlinkClick", rId=SStr([]) if False else "")

        class _H:
            """new / existing hlink element: assigning .rId adds a reference"""

            __pyvc_symbolic__ = True

            def __init__(self):
                self.fields = {"rId": "", "action": None}

            def sym_getattr(self, it, name):
                return self.fields[name]

            def sym_setattr(self, it, name, v):
                if name == "rId":
                    gp.events.append(("set_rId", str_key(v)))
                    gp.ref_added(str_key(v))
                self.fields[name] = v

            def sym_truth(self, it):
                return True

        def get_or_add(it, a, k):
            if state["el"] is None:
                state["el"] = _H()
                gp.events.append(("new_element",))
            return state["el"]

        def remove(it, a, k):
            el = a[0]
            rid = el.fields["rId"]
            gp.events.append(("remove_element",))
            if not (isinstance(rid, str) and rid == ""):
                gp.ref_removed(str_key(rid))
            state["el"] = None

        elem = SObj(None, "cNvPr", hlinkClick=GhostProp(lambda it: state["el"]), hlinkHover=GhostProp(lambda it: state["el"]),
                    get_or_add_hlinkClick=GhostFn(get_or_add), get_or_add_hlinkHover=GhostFn(get_or_add), remove=GhostFn(remove))
        if kind == "Hyperlink.address.fset":
            hover = c.bool("hover")
            obj = SObj(action.Hyperlink, "hyperlink", _element=elem, part=part, _hover=True if c.branch(hover) else False)
            clear = c.bool("clear")
            arg = None if c.branch(clear) else SStr([Atom("url", zs=z3.String("url"), nonempty=True)])
            out = c.run(action.Hyperlink.address.fset, obj, arg)
        else:
            obj = SObj(action.ActionSetting, "click_action", _element=elem, part=part, _hover=False)
            clear = c.bool("clear")
            arg = None if c.branch(clear) else SObj(None, "slide", part=SObj(None, "slide_part"))
            out = c.run(action.ActionSetting.target_slide.fset, obj, arg)
        if out.raised:
            c.fails("never_raises", "raised %s" % out.exc)
            return
        c.ensures("inv.CLOSED_preserved", gp.closed())
        rel = [e for e in gp.events if e[0] == "relate_to"]
        sets = [e for e in gp.events if e[0] == "set_rId"]
        if arg is None:
            c.ensures("post.cleared", state["el"] is None and not rel and not sets)
        else:
            c.ensures("post.one_relationship_one_reference", len(rel) == 1 and len(sets) == 1)
            if len(rel) == 1 and len(sets) == 1:
                c.ensures("post.element_carries_the_rId_returned", sets[0][1] == rel[0][1])
                if kind == "Hyperlink.address.fset":
                    c.ensures("post.external_hyperlink_relationship", rel[0][2][0] is arg and rel[0][2][1] == RT.HYPERLINK)
                else:
                    c.ensures("post.slide_relationship_to_that_slide_part", rel[0][2][0] is arg.fields["part"] and rel[0][2][1] == RT.SLIDE)
                c.ensures("post.obtained_before_written", gp.events.index(rel[0]) < gp.events.index(sets[0]))

    return body


_make_action("Hyperlink.address.fset")
_make_action("ActionSetting.target_slide.fset")


# ---------------------------------------------------------------------------------------------------------
# what is written follows the current part name (cache validity)


def _replay_rename(model, rec):
    """deck whose slide parts are named out of presentation order: save, touch .slides (renames), save, re-open"""
    import io
    import re
    import zipfile

    from pptx import Presentation

    prs = Presentation()
    for i in range(3):
        prs.slides.add_slide(prs.slide_layouts[6]).shapes.add_textbox(0, 0, 10, 10).text_frame.text = "s%d" % i
    buf = io.BytesIO()
    prs.save(buf)
    # rename slide parts 1,2,3 -> 7,3,9 consistently in the zip
    ren = {"slide1.xml": "slide7.xml", "slide2.xml": "slide3.xml", "slide3.xml": "slide9.xml"}
    src = zipfile.ZipFile(io.BytesIO(buf.getvalue()))
    out = io.BytesIO()
    with zipfile.ZipFile(out, "w") as z:
        for n in src.namelist():
            d = src.read(n)
            n2 = n
            m = re.fullmatch(r"ppt/slides/(_rels/)?(slide\d+\.xml)(\.rels)?", n)
            if m:
                n2 = "ppt/slides/%s%s%s" % (m.group(1) or "", "TMP" + ren[m.group(2)], m.group(3) or "")
            for a, b in ren.items():
                d = re.sub(rb'(["/])' + a.encode() + rb'"', lambda mm: mm.group(1) + b"TMP" + b.encode() + b'"', d)
            z.writestr(n2.replace("TMP", ""), d.replace(b"TMP", b""))
    p2 = Presentation(io.BytesIO(out.getvalue()))
    b1 = io.BytesIO()
    p2.save(b1)  # relationship targets are read (and cached) here
    texts = [s.shapes[0].text_frame.text for s in p2.slides]  # first access to .slides renames the parts
    b2 = io.BytesIO()
    p2.save(b2)
    z2 = zipfile.ZipFile(io.BytesIO(b2.getvalue()))
    names = set(z2.namelist())
    rels = z2.read("ppt/_rels/presentation.xml.rels").decode()
    targets = re.findall(r'Target="(slides/[^"]*)"', rels)
    missing = [t for t in targets if "ppt/" + t not in names]
    if missing:
        return {"confirmed": True, "witness_class": "stale-target-after-rename",
                "detail": "slide parts named 7,3,9: save; prs.slides; save -> presentation.xml.rels targets %s but members are %s" % (targets, sorted(n for n in names if n.startswith("ppt/slides/slide")))}
    try:
        p3 = Presentation(io.BytesIO(b2.getvalue()))
        t3 = [s.shapes[0].text_frame.text for s in p3.slides]
    except Exception as e:
        return {"confirmed": True, "witness_class": "stale-target-after-rename", "detail": "re-open after save/rename/save raised %r" % (e,)}
    if t3 != texts:
        return {"confirmed": True, "witness_class": "stale-target-after-rename", "detail": "slides after re-open %s, before %s" % (t3, texts)}
    return {"confirmed": False, "detail": "save / rename / save keeps relationship targets in step with part names"}


@contract("C02", "C02.opc.package._Relationship.target_ref.after_rename", replay=_replay_rename)
def _target_ref_follows_partname(c):
    """what is serialised for an internal relationship (target_partname, target_ref) is computed from the target part's name
    at the time of reading -- also when it was read before and the part has been renamed since (Part.partname.fset, reached
    from rename_slide_parts)."""
    from pptx.opc.package import Part, _Relationship
    from pptx.opc.constants import RELATIONSHIP_TARGET_MODE as RTM

    REF = z3.Function("RELATIVE_REF", z3.StringSort(), z3.StringSort(), z3.StringSort())
    base = _s("base_uri")

    class _N:
        """PackURI ghost: relative_ref(base) is a function of (name, base)"""

        __pyvc_symbolic__ = True

        def __init__(self, zs):
            self.zs = zs

        def sym_pytype(self):
            from pptx.opc.packuri import PackURI

            return PackURI

        def sym_getattr(self, it, name):
            if name == "relative_ref":
                return GhostFn(lambda i2, a, k: SStr([Atom("relative_ref", zs=REF(self.zs, str_key(a[0])))]), "relative_ref")
            raise Exception("ghost name asked for %s" % name)

    n1, n2 = c.input("name_before", z3.String("name_before")), c.input("name_after", z3.String("name_after"))
    part = SObj(Part, "target_part", _partname=_N(n1))
    rel = SObj(_Relationship, "rel", _base_uri=base, _rId=_s("rId"), _reltype=_s("reltype"), _target_mode=RTM.INTERNAL, _target=part)
    first = c.getattr(rel, "target_ref").value
    c.ensures("post.first_read", str_key(first) == REF(n1, z3.String("base_uri")))
    new_name = _N(n2)
    c.setattr(part, "partname", new_name)
    second = c.getattr(rel, "target_ref").value
    c.ensures("post.read_after_rename_uses_the_new_name", str_key(second) == REF(n2, z3.String("base_uri")))
    tp = c.getattr(rel, "target_partname").value
    c.ensures("post.target_partname_is_the_current_name", tp is new_name)


@contract("C02", "C02.static.write_once_backing_fields")
def _write_once(c):
    """Part.content_type (cached) reads only _content_type, and no code in the package assigns _content_type outside
    Part.__init__ -- so the content type written is the one the part was created or loaded with."""
    import ast
    import glob
    import os

    import pptx

    root = os.path.dirname(pptx.__file__)
    writes = []
    for f in glob.glob(os.path.join(root, "**", "*.py"), recursive=True):
        tree = ast.parse(open(f).read())
        for fn in ast.walk(tree):
            if isinstance(fn, (ast.FunctionDef, ast.AsyncFunctionDef)):
                for node in ast.walk(fn):
                    tgts = []
                    if isinstance(node, ast.Assign):
                        tgts = node.targets
                    elif isinstance(node, (ast.AugAssign, ast.AnnAssign)):
                        tgts = [node.target]
                    for t in tgts:
                        if isinstance(t, ast.Attribute) and t.attr == "_content_type":
                            writes.append((os.path.relpath(f, root), fn.name))
                    if isinstance(node, ast.Call) and getattr(node.func, "id", None) == "setattr" and len(node.args) >= 2 and getattr(node.args[1], "value", None) == "_content_type":
                        writes.append((os.path.relpath(f, root), fn.name))
    c.ensures("static.only_init_assigns__content_type", writes == [(os.path.join("opc", "package.py"), "__init__")], writes=repr(writes))
    from pptx.opc.package import Part

    p = SObj(Part, "part", _content_type=_s("ct"))
    v = c.getattr(p, "content_type").value
    c.ensures("post.content_type_is_the_backing_field", v is p.fields["_content_type"])


# ---------------------------------------------------------------------------------------------------------
# creators: the relationship id written into the new element is the one the part returned (obtained before it is written)


def _rid(name):
    return SStr([Atom(name, zs=z3.String(name), nonempty=True)])


@contract("C02", "C02.shapes.shapetree._MoviePicElementCreator._pic")
def _movie_pic(c):
    """p:pic for a movie: r:link = the VIDEO relationship, p14:media r:embed = the MEDIA relationship (both to the media part
    created by this call), blip r:embed = the poster image relationship -- each exactly the rId the slide part returned."""
    from pptx.shapes.shapetree import _MoviePicElementCreator

    media, video, poster = _rid("media_rId"), _rid("video_rId"), _rid("poster_rId")
    calls = []
    vid = SObj(None, "video", filename=SStr([Atom("filename")]))
    part = SObj(None, "slide_part", get_or_add_video_media_part=GhostFn(lambda it, a, k: (calls.append(("media", a)), (media, video))[1]),
                get_or_add_image_part=GhostFn(lambda it, a, k: (calls.append(("image", a)), (SObj(None, "image_part"), poster))[1]))
    made = []
    c.summaries["pptx.oxml.shapes.picture:CT_Picture.new_video_pic"] = lambda it, a, k: (made.append([x for x in a if not isinstance(x, type)]), SObj(None, "pic"))[1]
    c.summaries["pptx.media:Video.from_path_or_file_like"] = lambda it, a, k: vid
    cr = SObj(_MoviePicElementCreator, "creator", _shapes=SObj(None, "shapes", part=part), _shape_id=c.int("shape_id"), _movie_file=SObj(None, "movie_file"),
              _x=c.int("x"), _y=c.int("y"), _cx=c.int("cx"), _cy=c.int("cy"), _poster_frame_file=SObj(None, "poster_file"), _mime_type=None)
    out = c.getattr(cr, "_pic")
    if out.raised:
        c.fails("never_raises", "raised %s" % out.exc)
        return
    ok = len(made) == 1 and len(made[0]) == 9
    c.ensures("post.one_element", ok)
    if ok:
        a = made[0]
        c.ensures("post.video_rId_is_the_VIDEO_relationship", a[2] is video)
        c.ensures("post.media_rId_is_the_MEDIA_relationship", a[3] is media)
        c.ensures("post.poster_rId_is_the_image_relationship", a[4] is poster)
    c.ensures("post.media_part_related_once_for_this_video", [x[0] for x in calls].count("media") == 1 and [x for x in calls if x[0] == "media"][0][1][0] is vid)


@contract("C02", "C02.shapes.shapetree._OleObjectElementCreator._graphicFrame")
def _ole_frame(c):
    """p:graphicFrame for an OLE object: r:id = the relationship to the embedded package part created by this call, icon
    r:embed = the image relationship."""
    from pptx.shapes.shapetree import _OleObjectElementCreator

    ole, icon = _rid("ole_rId"), _rid("icon_rId")
    part = SObj(None, "slide_part", add_embedded_ole_object_part=GhostFn(lambda it, a, k: ole), get_or_add_image_part=GhostFn(lambda it, a, k: (SObj(None, "img"), icon)))
    made = []
    c.summaries["pptx.oxml.shapes.graphfrm:CT_GraphicalObjectFrame.new_ole_object_graphicFrame"] = lambda it, a, k: (made.append([x for x in a if not isinstance(x, type)]), SObj(None, "gf"))[1]
    cr = SObj(_OleObjectElementCreator, "creator", _shapes=SObj(None, "shapes", part=part), _shape_id=c.int("shape_id"), _ole_object_file=SObj(None, "file"),
              _prog_id_arg=SStr([Atom("progId")]), _x=c.int("x"), _y=c.int("y"), _cx_arg=c.int("cx"), _cy_arg=c.int("cy"),
              _icon_file_arg=SObj(None, "icon_file"), _icon_width_arg=c.int("iw"), _icon_height_arg=c.int("ih"))
    out = c.getattr(cr, "_graphicFrame")
    if out.raised:
        c.fails("never_raises", "raised %s" % out.exc)
        return
    ok = len(made) == 1 and len(made[0]) >= 5
    c.ensures("post.one_element", ok)
    if ok:
        c.ensures("post.object_rId_is_the_embedded_part_relationship", made[0][2] is ole)
        c.ensures("post.icon_rId_is_the_image_relationship", made[0][4] is icon)


@contract("C02", "C02.shapes.shapetree.add_picture+add_chart.rId_flow")
def _pic_chart_flow(c):
    """add_picture: the p:pic's r:embed is the rId get_or_add_image_part returned for that image part; add_chart: the
    graphicFrame's r:id is the rId add_chart_part returned."""
    from pptx.shapes.shapetree import SlideShapes, _BaseGroupShapes

    rid = _rid("rId")
    img = SObj(None, "image_part", scale=GhostFn(lambda it, a, k: (a[0], a[1])), desc=SStr([Atom("desc")]))
    part = SObj(None, "slide_part", get_or_add_image_part=GhostFn(lambda it, a, k: (img, rid)), add_chart_part=GhostFn(lambda it, a, k: rid))
    got = []
    which = c.bool("chart")
    shapes = SObj(SlideShapes, "shapes", part=part, _recalculate_extents=GhostFn(lambda it, a, k: None), _shape_factory=GhostFn(lambda it, a, k: a[0]),
                  _add_pic_from_image_part=GhostFn(lambda it, a, k: (got.append(("pic", a)), SObj(None, "pic"))[1]),
                  _add_chart_graphicFrame=GhostFn(lambda it, a, k: (got.append(("chart", a)), SObj(None, "gf"))[1]))
    if c.branch(which):
        out = c.run(_BaseGroupShapes.add_chart, shapes, SObj(None, "chart_type"), c.int("x"), c.int("y"), c.int("cx"), c.int("cy"), SObj(None, "chart_data"))
        if out.raised:
            c.fails("never_raises", "raised %s" % out.exc)
            return
        c.ensures("post.graphicFrame_gets_the_chart_part_rId", len(got) == 1 and got[0][0] == "chart" and got[0][1][0] is rid)
    else:
        out = c.run(_BaseGroupShapes.add_picture, shapes, SObj(None, "image_file"), c.int("left"), c.int("top"))
        if out.raised:
            c.fails("never_raises", "raised %s" % out.exc)
            return
        c.ensures("post.pic_gets_the_image_part_and_its_rId", len(got) == 1 and got[0][0] == "pic" and got[0][1][0] is img and got[0][1][1] is rid)


@contract("C02", "C02.parts.slide.SlidePart.part_level_creators")
def _part_creators(c):
    """get_or_add_image_part / add_chart_part / get_or_add_video_media_part / _add_notes_slide_part relate this part to the
    part they create or fetch, with the documented relationship type, and return the rId(s) relate_to gave."""
    from pptx.opc.constants import RELATIONSHIP_TYPE as RT
    from pptx.parts.slide import SlidePart

    calls = []

    def relate_to(it, a, k):
        r = _rid("rId%d" % len(calls))
        calls.append((a, r))
        return r

    target = SObj(None, "created_part")
    pkg = SObj(None, "package", get_or_add_image_part=GhostFn(lambda it, a, k: target), get_or_add_media_part=GhostFn(lambda it, a, k: target))
    part = SObj(SlidePart, "slide_part", _package=pkg, package=pkg, relate_to=GhostFn(relate_to))
    c.summaries["pptx.parts.chart:ChartPart.new"] = lambda it, a, k: target
    c.summaries["pptx.parts.slide:NotesSlidePart.new"] = lambda it, a, k: target
    k = c.path.fork_free(4)
    if k == 0:
        out = c.run(SlidePart.get_or_add_image_part, part, SObj(None, "image_file"))
        want = [RT.IMAGE]
    elif k == 1:
        out = c.run(SlidePart.add_chart_part, part, SObj(None, "chart_type"), SObj(None, "chart_data"))
        want = [RT.CHART]
    elif k == 2:
        out = c.run(SlidePart.get_or_add_video_media_part, part, SObj(None, "video"))
        want = [RT.MEDIA, RT.VIDEO]
    else:
        out = c.run(SlidePart._add_notes_slide_part, part)
        want = [RT.NOTES_SLIDE]
    if out.raised:
        c.fails("never_raises", "raised %s" % out.exc)
        return
    c.ensures("post.related_with_documented_types_to_the_created_part", [a[1] for a, r in calls] == want and all(a[0] is target for a, r in calls))
    v = out.value
    if k == 0:
        c.ensures("post.returns_part_and_rId", isinstance(v, tuple) and v[0] is target and v[1] is calls[0][1])
    elif k == 1:
        c.ensures("post.returns_rId", v is calls[0][1])
    elif k == 2:
        c.ensures("post.returns_(media_rId, video_rId)", isinstance(v, tuple) and v[0] is calls[0][1] and v[1] is calls[1][1])
    else:
        c.ensures("post.returns_the_notes_part", v is target)


@contract("C02", "C02.chart.ChartWorkbook.xlsx_part.fset")
def _xlsx_part(c):
    """the c:externalData r:id written is the rId the chart part returned for the workbook part (PACKAGE relationship)."""
    from pptx.opc.constants import RELATIONSHIP_TYPE as RT
    from pptx.parts.chart import ChartWorkbook

    rid = _rid("rId")
    calls = []
    ext = SObj(None, "externalData", rId=None)
    cs = SObj(None, "chartSpace", get_or_add_externalData=GhostFn(lambda it, a, k: ext))
    cp = SObj(None, "chart_part", relate_to=GhostFn(lambda it, a, k: (calls.append(a), rid)[1]))
    wb = SObj(ChartWorkbook, "workbook", _chartSpace=cs, _chart_part=cp)
    x = SObj(None, "xlsx_part")
    out = c.run(ChartWorkbook.xlsx_part.fset, wb, x)
    if out.raised:
        c.fails("never_raises", "raised %s" % out.exc)
        return
    c.ensures("post.related_as_package", len(calls) == 1 and calls[0][0] is x and calls[0][1] == RT.PACKAGE)
    c.ensures("post.externalData_carries_that_rId", ext.fields["rId"] is rid)


@contract("C02", "C02.slide.SlideLayouts.remove", replay=None)
def _layouts_remove(c):
    """a layout in use is refused with ValueError and nothing changes; otherwise its p:sldLayoutId is removed from the master's
    list and the master's relationship with that same rId is dropped (in this order, so no reference is left dangling)."""
    from pptx.slide import SlideLayouts

    used = c.bool("in_use")
    events = []
    n = c.int("n_layouts")
    idx = c.int("index")
    c.requires(z3.And(0 <= idx, idx < n))
    RID = z3.Function("LAYOUT_RID", z3.IntSort(), z3.StringSort())
    ids = SSeq(n, lambda j: SObj(None, "sldLayoutId[%s]" % j, j=j, rId=SStr([Atom("rId", zs=RID(j))])), name="sldLayoutId_lst")
    lst = SObj(None, "sldLayoutIdLst", sldLayoutId_lst=ids, remove=GhostFn(lambda it, a, k: events.append(("remove_element", a[0]))))
    mpart = SObj(None, "master_part", drop_rel=GhostFn(lambda it, a, k: events.append(("drop_rel", a[0]))))
    layout = SObj(None, "layout", used_by_slides=SSeq(z3.If(used, 1, 0), lambda j: SObj(None, "slide"), name="used_by"), slide_master=SObj(None, "master", part=mpart))
    coll = SObj(SlideLayouts, "layouts", _sldLayoutIdLst=lst, index=GhostFn(lambda it, a, k: idx))
    out = c.run(SlideLayouts.remove, coll, layout)
    if out.raised:
        c.ensures("post.only_ValueError_when_in_use", z3.And(used, out.exc.exc_cls is ValueError))
        c.ensures("frame.nothing_changed_on_refusal", not events)
        return
    c.ensures("post.not_in_use", z3.Not(used))
    ok = [e[0] for e in events] == ["remove_element", "drop_rel"]
    c.ensures("post.element_removed_then_relationship_dropped", ok)
    if ok:
        c.ensures("post.same_layout_id_entry", z3.And(events[0][1].fields["j"] == idx, str_key(events[1][1]) == RID(idx)))


# ---------------------------------------------------------------------------------------------------------
# BOUNDED native job: histories of public-API operations, CLOSED checked on the saved file at every prefix


def _closed_violations(data):
    """inspect a saved file with the stdlib only"""
    import io
    import posixpath
    import re
    import zipfile

    from lxml import etree

    bad = []
    z = zipfile.ZipFile(io.BytesIO(data))
    names = z.namelist()
    if len(names) != len(set(names)):
        bad.append("duplicate member names: %s" % sorted(n for n in set(names) if names.count(n) > 1))
    nset = set(names)
    ct = etree.fromstring(z.read("[Content_Types].xml"))
    ns = "{http://schemas.openxmlformats.org/package/2006/content-types}"
    defaults = {e.get("Extension").lower(): e.get("ContentType") for e in ct.findall(ns + "Default")}
    ov = [e.get("PartName") for e in ct.findall(ns + "Override")]
    if len(ov) != len(set(x.lower() for x in ov)):
        bad.append("duplicate Override entries")
    overrides = {e.get("PartName").lower(): e.get("ContentType") for e in ct.findall(ns + "Override")}
    dx = [e.get("Extension").lower() for e in ct.findall(ns + "Default")]
    if len(dx) != len(set(dx)):
        bad.append("duplicate Default entries: %s" % sorted(x for x in set(dx) if dx.count(x) > 1))
    lower_names = {("/" + n).lower() for n in names}
    phantom = sorted(x for x in ov if x.lower() not in lower_names)
    if phantom:
        bad.append("Override entries for parts the file does not contain: %s" % phantom[:3])
    for n in names:
        if n == "[Content_Types].xml":
            continue
        if ("/" + n).lower() not in overrides and n.rsplit(".", 1)[-1].lower() not in defaults:
            bad.append("no content type for %s" % n)
    for n in names:
        if not n.endswith(".rels"):
            continue
        d, f = posixpath.split(n)
        src = posixpath.join(posixpath.dirname(d), f[:-5]) if f != ".rels" else ""
        base = posixpath.dirname(src)
        keys = set()
        for e in etree.fromstring(z.read(n)):
            if e.get("Id") in keys:
                bad.append("duplicate relationship id %s in %s" % (e.get("Id"), n))
            keys.add(e.get("Id"))
            if e.get("TargetMode") != "External":
                t = e.get("Target")
                tgt = posixpath.normpath(posixpath.join(base, t)) if not t.startswith("/") else t[1:]
                if tgt not in nset:
                    bad.append("%s: %s -> %s is not a member" % (n, e.get("Id"), tgt))
        if src and src in nset and src.endswith(".xml"):
            xml = z.read(src)
            for m in set(re.findall(rb'\br:(?:id|embed|link|pict|dm|lo|qs|cs)="([^"]*)"', xml)):
                if m.decode() and m.decode() not in keys:
                    bad.append("%s references %s which is not in its relationships" % (src, m.decode()))
    # parts with r: references but no rels item at all
    for n in names:
        if n.endswith(".xml") and not n.endswith(".rels") and "_rels" not in n:
            d, f = posixpath.split(n)
            if posixpath.join(d, "_rels", f + ".rels") not in nset:
                ms = set(re.findall(rb'\br:(?:id|embed|link|pict)="([^"]+)"', z.read(n)))
                if ms:
                    bad.append("%s references %s but has no relationships item" % (n, sorted(ms)))
    rr = etree.fromstring(z.read("_rels/.rels"))
    od = [e for e in rr if e.get("Type", "").endswith("/officeDocument")]
    if len(od) != 1 or od[0].get("Target").lstrip("/") not in nset:
        bad.append("office-document relationship does not lead to a member")
    return bad


def _deck_summary(prs):
    out = []
    for s in prs.slides:
        shapes = []
        for sh in s.shapes:
            item = [str(sh.shape_type), sh.name, sh.text_frame.text if sh.has_text_frame else None]
            if sh.shape_type is not None and "PICTURE" in str(sh.shape_type):
                item.append(len(sh.image.blob))
            if getattr(sh, "has_chart", False) and sh.has_chart:
                item.append([([str(x) for x in p.categories], [(se.name, list(se.values)) for se in p.series]) for p in sh.chart.plots])
            shapes.append(item)
        out.append((shapes, s.notes_slide.notes_text_frame.text if s.has_notes_slide else None))
    return out


def _native_histories(tier="quick", seed=0):
    import io
    import random
    import struct
    import time as _t
    import zlib

    from pptx import Presentation
    from pptx.chart.data import CategoryChartData, XyChartData
    from pptx.enum.chart import XL_CHART_TYPE
    from pptx.enum.shapes import MSO_CONNECTOR, MSO_SHAPE
    from pptx.util import Inches

    t0 = _t.time()
    obls, evals = [], [0]

    def png(color):
        raw = b"".join(b"\x00" + bytes(color) * 2 for _ in range(2))
        def ch(t, d):
            return struct.pack(">I", len(d)) + t + d + struct.pack(">I", zlib.crc32(t + d) & 0xFFFFFFFF)
        return b"\x89PNG\r\n\x1a\n" + ch(b"IHDR", struct.pack(">IIBBBBB", 2, 2, 8, 2, 0, 0, 0)) + ch(b"IDAT", zlib.compress(raw)) + ch(b"IEND", b"")

    def rec(name, bad):
        r = {"name": name, "base": name, "kind": "bounded", "status": "refuted" if bad else "discharged", "backend": "native", "time": 0, "path": 0}
        if bad:
            r["replay"] = {"confirmed": True, "witness_class": "history", "detail": bad}
            r["model"] = None
        obls.append(r)

    def cd():
        d = CategoryChartData()
        d.categories = ["a", "b", "c"]
        d.add_series("s1", (1, 2, 3))
        return d

    def op_slide(prs, rnd):
        prs.slides.add_slide(prs.slide_layouts[rnd.choice([0, 1, 5, 6])])

    def last(prs, rnd):
        if not len(prs.slides):
            prs.slides.add_slide(prs.slide_layouts[6])
        return prs.slides[rnd.randrange(len(prs.slides))]

    def op_shape(prs, rnd):
        sh = last(prs, rnd).shapes
        k = rnd.randrange(6)
        if k == 0:
            sh.add_shape(MSO_SHAPE.RECTANGLE, 0, 0, 100, 100).text_frame.text = "r"
        elif k == 1:
            sh.add_textbox(0, 0, 100, 100).text_frame.text = "tb"
        elif k == 2:
            sh.add_connector(MSO_CONNECTOR.STRAIGHT, 0, 0, 10, 10)
        elif k == 3:
            sh.add_table(2, 2, 0, 0, 1000, 1000)
        elif k == 4:
            g = sh.add_group_shape()
            g.shapes.add_textbox(0, 0, 10, 10)
        else:
            sh.build_freeform(0, 0).add_line_segments([(10, 10), (20, 0)]).convert_to_shape()

    def op_picture(prs, rnd):
        last(prs, rnd).shapes.add_picture(io.BytesIO(png(rnd.choice([(255, 0, 0), (0, 255, 0)]))), 0, 0)

    def op_movie(prs, rnd):
        last(prs, rnd).shapes.add_movie(io.BytesIO(b"\x00\x00\x00\x18ftypmp42" + bytes([rnd.randrange(2)])), 0, 0, 100, 100, poster_frame_image=None, mime_type="video/mp4")

    def op_chart(prs, rnd):
        last(prs, rnd).shapes.add_chart(rnd.choice([XL_CHART_TYPE.COLUMN_CLUSTERED, XL_CHART_TYPE.PIE, XL_CHART_TYPE.LINE]), 0, 0, Inches(2), Inches(2), cd())

    def op_replace(prs, rnd):
        for s in prs.slides:
            for shp in s.shapes:
                if getattr(shp, "has_chart", False) and shp.has_chart:
                    d = CategoryChartData()
                    d.categories = ["x", "y"]
                    d.add_series("n1", (5, 6))
                    d.add_series("n2", (7, None))
                    shp.chart.replace_data(d)
                    return

    def op_ole(prs, rnd):
        from pptx.enum.shapes import PROG_ID

        last(prs, rnd).shapes.add_ole_object(io.BytesIO(b"PK\x03\x04fake"), rnd.choice([PROG_ID.XLSX, "Some.ProgId"]), 0, 0, 100, 100)

    def op_notes(prs, rnd):
        last(prs, rnd).notes_slide.notes_text_frame.text = "n"

    def op_link(prs, rnd):
        s = last(prs, rnd)
        tb = s.shapes.add_textbox(0, 0, 10, 10)
        r = tb.text_frame.paragraphs[0].add_run()
        r.text = "link"
        r.hyperlink.address = rnd.choice(["http://a/", "http://b/"])
        if rnd.random() < 0.5:
            r.hyperlink.address = rnd.choice([None, "http://a/", "http://c/"])
        sh = s.shapes.add_shape(MSO_SHAPE.OVAL, 0, 0, 10, 10)
        sh.click_action.hyperlink.address = rnd.choice(["http://a/", "http://d/"])
        if rnd.random() < 0.5:
            sh.click_action.hyperlink.address = None

    def op_relink(prs, rnd):
        """set, read something that looks relationships up by type, clear, set the same target again"""
        s = last(prs, rnd)
        tb = s.shapes.add_textbox(0, 0, 10, 10)
        r = tb.text_frame.paragraphs[0].add_run()
        r.text = "again"
        sh = s.shapes.add_shape(MSO_SHAPE.OVAL, 0, 0, 10, 10)
        other = last(prs, rnd)
        r.hyperlink.address = "http://again/"
        sh.click_action.target_slide = other
        _ = s.slide_layout, s.has_notes_slide
        r.hyperlink.address = None
        sh.click_action.target_slide = None
        r.hyperlink.address = "http://again/"
        sh.click_action.target_slide = other
        if r.hyperlink.address != "http://again/" or sh.click_action.target_slide is not other:
            raise AssertionError("hyperlink / slide jump set again after clearing reads back %r / %r" % (r.hyperlink.address, sh.click_action.target_slide))

    def op_jump(prs, rnd):
        s = last(prs, rnd)
        sh = s.shapes.add_shape(MSO_SHAPE.OVAL, 0, 0, 10, 10)
        sh.click_action.target_slide = last(prs, rnd)
        if rnd.random() < 0.4:
            sh.click_action.target_slide = rnd.choice([None, last(prs, rnd)])

    def op_layout_remove(prs, rnd):
        lays = prs.slide_layouts
        unused = [l for l in lays if not l.used_by_slides]
        if len(unused) > 1:
            lays.remove(unused[-1])

    def op_rejected(prs, rnd):
        try:
            prs.slide_layouts.remove(prs.slides[0].slide_layout) if len(prs.slides) else None
        except ValueError:
            pass
        try:
            prs.slides[99]
        except IndexError:
            pass

    def op_core(prs, rnd):
        prs.core_properties.title = "t%d" % rnd.randrange(9)

    def op_read(prs, rnd):
        _deck_summary(prs)

    ops = [op_slide, op_shape, op_picture, op_movie, op_chart, op_replace, op_ole, op_notes, op_link, op_relink, op_jump, op_layout_remove, op_rejected, op_core, op_read]

    def out_of_order_deck(names=(7, 3, 9)):
        import re
        import zipfile

        prs = Presentation()
        for i in range(len(names)):
            prs.slides.add_slide(prs.slide_layouts[6]).shapes.add_textbox(0, 0, 10, 10).text_frame.text = "s%d" % i
        buf = io.BytesIO()
        prs.save(buf)
        ren = {"slide%d.xml" % (i + 1): "slide%d.xml" % k for i, k in enumerate(names)}
        src = zipfile.ZipFile(io.BytesIO(buf.getvalue()))
        out = io.BytesIO()
        with zipfile.ZipFile(out, "w") as z:
            for n in src.namelist():
                d = src.read(n)
                n2 = n
                m = re.fullmatch(r"ppt/slides/(_rels/)?(slide\d+\.xml)(\.rels)?", n)
                if m:
                    n2 = "ppt/slides/%s%s%s" % (m.group(1) or "", "TMP" + ren[m.group(2)], m.group(3) or "")
                # one pass, so that a name is never renamed twice
                d = re.sub(rb'(["/])(slide\d+\.xml)"', lambda mm: mm.group(1) + b"TMP" + ren.get(mm.group(2).decode(), mm.group(2).decode()).encode() + b'"', d)
                z.writestr(n2.replace("TMP", ""), d.replace(b"TMP", b""))
        return out.getvalue()

    def layout_picture_deck():
        """the last (unused) layout shows a picture that no slide uses: its image part is reachable through that layout only"""
        from pptx.oxml.shapes.picture import CT_Picture

        prs = Presentation()
        lay = prs.slide_layouts[len(prs.slide_layouts) - 1]
        image_part, rId = lay.part.get_or_add_image_part(io.BytesIO(png((255, 0, 0))))
        lay.shapes._spTree.append(CT_Picture.new_pic(900, "Layout Picture", "red.png", rId, 0, 0, 100, 100))
        prs.slides.add_slide(prs.slide_layouts[0])
        buf = io.BytesIO()
        prs.save(buf)
        return buf.getvalue()

    def odd_names_deck():
        """media and slide parts named the way users name files (a blank, a percent sign, an accent, brackets): renamed in the zip -- member,
        relationship targets and Override entries alike, each spelled verbatim"""
        import re
        import zipfile

        prs = Presentation()
        for i in range(2):
            sl = prs.slides.add_slide(prs.slide_layouts[6])
            sl.shapes.add_picture(io.BytesIO(png((20 * i, 3, 4))), 0, 0)
        buf = io.BytesIO()
        prs.save(buf)
        ren = {"image1.png": "company logo.png", "image2.png": "100% \u00e9t\u00e9 [2].png", "slide2.xml": "my slide (2).xml"}
        out = io.BytesIO()
        with zipfile.ZipFile(io.BytesIO(buf.getvalue())) as zin, zipfile.ZipFile(out, "w", zipfile.ZIP_DEFLATED) as z:
            for n in zin.namelist():
                d = zin.read(n)
                n2 = n
                for a_, b_ in ren.items():
                    if n.endswith("/" + a_) or n.endswith("/" + a_ + ".rels"):
                        n2 = n.replace(a_, b_)
                    if n.endswith((".rels", "[Content_Types].xml")):
                        d = d.replace(("/" + a_ + '"').encode(), ("/" + b_ + '"').encode())
                z.writestr(n2, d)
        return out.getvalue()

    def odd_rids_deck():
        """relationship ids as other producers write them (Open XML SDK 'R<hex>', zero-padded, unprefixed, mixed): re-spelled in the zip,
        in every .rels item and at every reference in the part XML"""
        import re
        import zipfile

        prs = Presentation()
        for i in range(2):
            sl = prs.slides.add_slide(prs.slide_layouts[1])
            sl.shapes.add_picture(io.BytesIO(png((10 * i, 1, 2))), 0, 0)
            sl.shapes.add_textbox(0, 0, 10, 10).text_frame.paragraphs[0].add_run().hyperlink.address = "http://x/%d" % i
            sl.shapes.add_chart(XL_CHART_TYPE.PIE, 0, 0, Inches(1), Inches(1), cd())
        buf = io.BytesIO()
        prs.save(buf)
        src = zipfile.ZipFile(io.BytesIO(buf.getvalue()))
        out = io.BytesIO()
        spell = lambda n, k: ["R%x%s" % (0xabc0 + n, "de"), "rId0%d" % n, "id%d" % n, "rId%da" % n, "Rel-%d" % n][k % 5]
        with zipfile.ZipFile(out, "w") as z:
            for n in src.namelist():
                d = src.read(n)
                m = re.fullmatch(r"(.*/)?_rels/([^/]+)\.rels", n)
                if m and "slides/" in n and "slideLayouts" not in n and "notes" not in n:
                    k = int(re.findall(r"\d+", m.group(2))[-1])
                    d = re.sub(rb'Id="rId(\d+)"', lambda mm: b'Id="%s"' % spell(int(mm.group(1)), int(mm.group(1)) + k).encode(), d)
                elif re.fullmatch(r"ppt/slides/slide\d+\.xml", n):
                    k = int(re.findall(r"\d+", n)[-1])
                    d = re.sub(rb'(r:(?:id|embed|link|pict))="rId(\d+)"', lambda mm: mm.group(1) + b'="%s"' % spell(int(mm.group(2)), int(mm.group(2)) + k).encode(), d)
                z.writestr(n, d)
        return out.getvalue()

    N = 40 if tier == "quick" else 600
    L = 10 if tier == "quick" else 16
    perms = [(7, 3, 9), (1, 4, 3), (2, 1, 3), (1, 3, 2), (3, 2, 1), (2, 3, 4), (1, 2, 4), (1, 5, 3, 4)]
    starts = [("default_template", None), ("unused_layout_with_picture", layout_picture_deck()), ("relationship_ids_in_other_spellings", odd_rids_deck()), ("parts_named_like_user_files", odd_names_deck())] + [("slide_parts_named_%s" % "_".join(map(str, q)), out_of_order_deck(q)) for q in perms]
    for label, start in starts:
        rnd = random.Random(seed * 7919 + (1 if start else 0))
        bad = None
        for h in range(N if start is None or label.endswith(("7_3_9", "with_picture")) else max(4, N // 8)):
            prs = Presentation(io.BytesIO(start)) if start else Presentation()
            hist = []
            save_each = h % 3 == 0
            last_buf = [None]
            for step in range(L):
                op = rnd.choice(ops)
                hist.append(op.__name__)
                try:
                    op(prs, rnd)
                except Exception as e:
                    bad = bad or "history %s: %s raised %r" % (hist, op.__name__, e)
                    break
                if save_each or step == L - 1:
                    # every other save goes into the stream the previous save went into (a caller's re-used buffer, positioned at its end)
                    buf = io.BytesIO() if (step % 2 == 0 or last_buf[0] is None) else last_buf[0]
                    last_buf[0] = buf
                    evals[0] += 1
                    try:
                        prs.save(buf)
                        v = _closed_violations(buf.getvalue())
                        if v:
                            bad = bad or "history %s: saved file not closed: %s" % (hist, v[:3])
                            break
                        want = _deck_summary(prs)
                        got = _deck_summary(Presentation(io.BytesIO(buf.getvalue())))
                        if got != want:
                            bad = bad or "history %s: re-opened deck differs from the in-memory one" % (hist,)
                            break
                    except Exception as e:
                        bad = bad or "history %s: save / inspect / re-open raised %r" % (hist, e)
                        break
            if bad:
                break
        rec("C02.native.histories[%s]" % label, bad)
    # every PowerPoint-authored deck of the corpus: opened and saved (and opened, one slide added, saved) it is a closed package
    import glob
    import os

    repo = os.environ.get("PPTX_REPO", "/repo")
    bad = None
    files = sorted(glob.glob(os.path.join(repo, "features", "steps", "test_files", "*.pptx")))
    for f in files:
        for add in (False, True):
            evals[0] += 1
            try:
                prs = Presentation(f)
                if add and len(prs.slide_layouts):
                    prs.slides.add_slide(prs.slide_layouts[0]).notes_slide.notes_text_frame.text = "n"
                buf = io.BytesIO()
                prs.save(buf)
                v = _closed_violations(buf.getvalue())
                if v:
                    bad = bad or "%s%s: saved file not closed: %s" % (os.path.basename(f), " + a slide with notes" if add else "", v[:3])
                else:
                    try:
                        same = _deck_summary(Presentation(io.BytesIO(buf.getvalue()))) == _deck_summary(prs)
                    except NotImplementedError:
                        same = True  # a chart kind the library does not read: only closure is judged for this deck
                    if not same:
                        bad = bad or "%s%s: re-opened deck differs from the in-memory one" % (os.path.basename(f), " + a slide with notes" if add else "")
            except Exception as e:
                bad = bad or "%s%s: raised %r" % (os.path.basename(f), " + a slide with notes" if add else "", e)
    rec("C02.native.corpus_decks_open_save_closed", bad)
    # scripted histories: part reuse after the only route to a part has been removed
    def scripted_image_reuse():
        prs = Presentation(io.BytesIO(layout_picture_deck()))
        sl = prs.slides[0]
        sl.shapes.add_picture(io.BytesIO(png((0, 255, 0))), 0, 0)            # looks the package's images up
        prs.slide_layouts.remove(prs.slide_layouts[len(prs.slide_layouts) - 1])   # the red image is no longer reachable
        sl.shapes.add_picture(io.BytesIO(png((0, 0, 255))), 0, 0)            # a new image part; may take the freed name
        sl.shapes.add_picture(io.BytesIO(png((255, 0, 0))), 0, 0)            # the removed layout's image again
        return prs

    def scripted_media_reuse():
        prs = Presentation()
        a = prs.slides.add_slide(prs.slide_layouts[6])
        b = prs.slides.add_slide(prs.slide_layouts[6])
        mv = lambda k: io.BytesIO(b"\x00\x00\x00\x18ftypmp42" + bytes([k]))
        m1 = a.shapes.add_movie(mv(1), 0, 0, 100, 100, poster_frame_image=None, mime_type="video/mp4")
        b.shapes.add_movie(mv(2), 0, 0, 100, 100, poster_frame_image=None, mime_type="video/mp4")
        # drop the first slide altogether (its media is then unreachable), add new media, then the dropped one again
        sldIdLst = prs.slides._sldIdLst
        prs.part.drop_rel(sldIdLst.sldId_lst[0].rId)
        sldIdLst.remove(sldIdLst.sldId_lst[0])
        b.shapes.add_movie(mv(3), 0, 0, 100, 100, poster_frame_image=None, mime_type="video/mp4")
        b.shapes.add_movie(mv(1), 0, 0, 100, 100, poster_frame_image=None, mime_type="video/mp4")
        return prs

    def scripted_actions_on_layout_placeholders():
        # what a layout placeholder refers to through ITS part's relationships (a click action, a hover action) means nothing in a slide
        # made from that layout: the slide must not end up referring to relationship ids it does not have
        prs = Presentation()
        for li in (0, 1):
            lay = prs.slide_layouts[li]
            for k, ph in enumerate(lay.placeholders):
                ph.click_action.hyperlink.address = "http://example.com/layout%d/%d" % (li, k)
            nm = prs.notes_master
            for ph in nm.placeholders:
                ph.click_action.hyperlink.address = "http://example.com/notes-master"
            sl = prs.slides.add_slide(lay)
            sl.shapes.add_picture(io.BytesIO(png((1, 2, li))), 0, 0)
            sl.notes_slide.notes_text_frame.text = "n"
            for part_ in (sl.part, sl.notes_slide.part):
                refs = part_._element.xpath("//a:hlinkClick/@r:id | //a:hlinkHover/@r:id")
                if refs:
                    raise AssertionError("a slide / notes slide just made from a layout / notes master whose placeholders carry click actions refers to %s of its own part %s (%s)" % (
                        refs, part_.partname, [part_.rels[r_].reltype.split("/")[-1] if r_ in part_.rels else "no such relationship" for r_ in refs]))
        return prs

    for label, script in (("image_reused_after_its_layout_was_removed", scripted_image_reuse), ("media_reused_after_its_slide_was_dropped", scripted_media_reuse),
                          ("slides_made_from_layouts_whose_placeholders_carry_actions", scripted_actions_on_layout_placeholders)):
        bad = None
        try:
            prs = script()
            buf = io.BytesIO()
            prs.save(buf)
            evals[0] += 1
            v = _closed_violations(buf.getvalue())
            if v:
                bad = "%s: saved file not closed: %s" % (label, v[:3])
            elif _deck_summary(Presentation(io.BytesIO(buf.getvalue()))) != _deck_summary(prs):
                bad = "%s: re-opened deck differs from the in-memory one" % label
        except Exception as e:
            bad = "%s: raised %r" % (label, e)
        rec("C02.native.scripted[%s]" % label, bad)
    return {"contract": "C02.native_histories", "prop": "C02", "status": "ok", "obligations": obls, "paths": 0, "assumed": [], "functions": {},
            "notes": [], "solver_s": 0.0, "wall_s": _t.time() - t0,
            "bounded": {"name": "C02.native_histories", "bound": "%d random histories of %d operations over 15 operation kinds, from the default template and from decks whose slide parts are named 7,3,9 / 1,4,3 / 2,1,3 / 1,3,2 / 3,2,1 / 2,3,4 / 1,2,4 / 1,5,3,4 in presentation order; "
                        "a third of the histories save (and inspect, re-open, compare) after every step, the rest at the end" % (sum(N if (st is None or lb.endswith(('7_3_9', 'with_picture'))) else max(4, N // 8) for lb, st in starts), L),
                        "evaluations": evals[0], "samples": [], "counted_as_proved": False}}


JOBS = {"C02.native_histories": _native_histories}

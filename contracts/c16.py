"""C16 -- recoverable irregular packages open intact; non-packages are refused cleanly.  DESIGN.md 5/C16.

One contract per tolerance and per refusal, each on the real function that implements it:
content-type lookup (override, then default by extension, both case-insensitive; KeyError otherwise),
rels item absent => empty relationships, dangling internal target => relationship skipped (the membership guard
dominates the dict lookup), unknown content type => base Part, exception mapping of the physical reader factory,
of Presentation() and of part_with_reltype, default core-properties part created once."""
from __future__ import annotations

import z3

from pyvc.engine import Atom, GhostFn, SObj, SSeq, SStr
from pyvc.gsets import GDict, str_key
from pyvc.verify import contract

from .opc import BASE_URI, EXT, LOWER, OPTIONS, RELS_URI, GName, GReader, ci_dict, name_key

META = {
    "residual": [
        "zipfile / os.path / open() behaviour is assumed (BadZipFile for a non-zip stream, is_zipfile, isdir); probed natively by C16.native_irregular",
        "PackURI.ext / rels_uri / baseURI / from_rel_ref enter as uninterpreted functions of the name (their contracts are C19)",
        "str.lower enters as an uninterpreted function; the contracts state results in terms of lower(name), lower(ext) only",
    ],
    "trusted_base": ["z3 (arrays, strings as uninterpreted keys)", "zipfile, os.path", "C19 part-name contracts"],
}


# ---------------------------------------------------------------------------------------------------------
# content types


def _replay_ct(model, rec):
    from pptx.opc.package import _ContentTypeMap
    from pptx.opc.packuri import PackURI

    xml = (b'<Types xmlns="http://schemas.openxmlformats.org/package/2006/content-types">'
           b'<Default Extension="XML" ContentType="application/xml"/><Default Extension="Png" ContentType="image/png"/>'
           b'<Override PartName="/PPT/Presentation.XML" ContentType="application/x-main"/></Types>')
    m = _ContentTypeMap.from_xml(xml)
    for pn, want in (("/ppt/presentation.xml", "application/x-main"), ("/ppt/PRESENTATION.xml", "application/x-main"),
                     ("/ppt/slides/slide1.xml", "application/xml"), ("/ppt/media/image1.PNG", "image/png"), ("/ppt/media/image1.png", "image/png")):
        try:
            got = m[PackURI(pn)]
        except Exception as e:
            return {"confirmed": True, "witness_class": "content-type-lookup", "detail": "lookup of %s raised %r" % (pn, e)}
        if got != want:
            return {"confirmed": True, "witness_class": "content-type-lookup", "detail": "lookup of %s gave %r, declared %r" % (pn, got, want)}
    # names outside ASCII, as other producers write them: an Override is found under the spelling used in the file and under any other
    # case spelling of it (letters for which the several notions of "caseless" differ included: sharp s, final sigma, dotted I)
    names = ["/ppt/slides/Ma\u00dfe1.xml", "/ppt/slideLayouts/\u0394\u03b9\u03ac\u03c4\u03b1\u03be\u03b7\u03c21.xml", "/ppt/media/\u0130stanbul.png", "/ppt/\u00c9t\u00e9.xml"]
    xml2 = ('<Types xmlns="http://schemas.openxmlformats.org/package/2006/content-types"><Default Extension="xml" ContentType="application/xml"/>'
            '<Default Extension="png" ContentType="image/png"/>%s</Types>' % "".join('<Override PartName="%s" ContentType="application/x-%d"/>' % (n_, i_) for i_, n_ in enumerate(names))).encode("utf-8")
    m2 = _ContentTypeMap.from_xml(xml2)
    for i_, n_ in enumerate(names):
        for spelled in (n_, n_.upper() if n_.upper().lower() == n_.lower() else n_, n_.lower() if n_.lower().upper() == n_.upper() else n_, n_.swapcase() if n_.swapcase().lower() == n_.lower() else n_):
            try:
                got = m2[PackURI(spelled)]
            except Exception as e:
                return {"confirmed": True, "witness_class": "content-type-lookup", "detail": "Override for %r: lookup of %r raised %r" % (n_, spelled, e)}
            if got != "application/x-%d" % i_:
                return {"confirmed": True, "witness_class": "content-type-lookup", "detail": "Override for %r: lookup of %r gave %r, declared application/x-%d" % (n_, spelled, got, i_)}
    try:
        m[PackURI("/ppt/x.unknown")]
        return {"confirmed": True, "witness_class": "content-type-lookup", "detail": "undeclared extension did not raise KeyError"}
    except KeyError:
        pass
    try:
        m["/ppt/presentation.xml"]
        return {"confirmed": True, "witness_class": "content-type-lookup", "detail": "str key accepted"}
    except TypeError:
        pass
    return {"confirmed": False, "detail": "case-insensitive lookups behave"}


@contract("C16", "C16.opc.package._ContentTypeMap.__getitem__", replay=_replay_ct)
def _ct_getitem(c):
    """override (keyed by lower(name)) wins, else default keyed by lower(ext), else KeyError -- nothing else is
    raised and the result depends on the name only through lower(name) and lower(ext)."""
    from pptx.opc.package import _ContentTypeMap

    c.summaries.update(OPTIONS)
    ov, O = ci_dict("overrides")
    df, D = ci_dict("defaults")
    pn = GName(c.input("partname", z3.String("partname")))
    m = SObj(_ContentTypeMap, "content_types", _overrides=ov, _defaults=df)
    out = c.run(_ContentTypeMap.__getitem__, m, pn)
    ko, kd = LOWER(pn.zs), LOWER(EXT(pn.zs))
    if out.raised:
        c.ensures("post.only_KeyError", out.exc.exc_cls is KeyError)
        c.ensures("post.KeyError_only_when_undeclared", z3.And(z3.Not(O.has(ko)), z3.Not(D.has(kd))))
        return
    z = name_key(out.value)
    c.ensures("post.override_else_default", z == z3.If(O.has(ko), O.val(ko), D.val(kd)))
    c.ensures("post.declared", z3.Or(O.has(ko), D.has(kd)))


@contract("C16", "C16.opc.package._ContentTypeMap.__getitem__[str key]", replay=_replay_ct)
def _ct_getitem_str(c):
    """a key that is not a PackURI is refused with TypeError."""
    from pptx.opc.package import _ContentTypeMap

    c.summaries.update(OPTIONS)
    ov, O = ci_dict("overrides")
    df, D = ci_dict("defaults")
    m = SObj(_ContentTypeMap, "content_types", _overrides=ov, _defaults=df)
    out = c.run(_ContentTypeMap.__getitem__, m, SStr([Atom("key", zs=z3.String("key"))]))
    c.ensures("post.TypeError", out.raised and out.exc.exc_cls is TypeError)


@contract("C16", "C16.opc.package._ContentTypeMap.from_xml", replay=_replay_ct, timeout_ms=30000)
def _ct_from_xml(c):
    """for any number of Override and Default elements in any spelling, asked for any part name: the map built by
    from_xml answers with the content type of the LAST Override whose PartName equals the name up to case, else of the
    LAST Default whose Extension equals the name's extension up to case, else KeyError -- composed with __getitem__, so
    the two dicts only occur as what from_xml really built (dict(pairs) does not go through __setitem__)."""
    from pptx.opc.package import _ContentTypeMap

    c.summaries.update(OPTIONS)
    made = []

    def mk(tag):
        if tag != "CaseInsensitiveDict":
            return None
        made.append(GDict(("overrides", "defaults", "extra")[min(len(made), 2)], key_of=name_key))
        return made[-1]

    c.summaries["<option>ghost_dicts"] = mk
    no, nd = c.int("n_overrides"), c.int("n_defaults")
    c.requires(z3.And(no >= 0, nd >= 0))
    OPN = z3.Function("OVERRIDE_PARTNAME", z3.IntSort(), z3.StringSort())
    OCT = z3.Function("OVERRIDE_CONTENT_TYPE", z3.IntSort(), z3.StringSort())
    DEX = z3.Function("DEFAULT_EXTENSION", z3.IntSort(), z3.StringSort())
    DCT = z3.Function("DEFAULT_CONTENT_TYPE", z3.IntSort(), z3.StringSort())
    s_ = lambda nm, t: SStr([Atom(nm, zs=t)])
    ovs = SSeq(no, lambda j: SObj(None, "override", partName=s_("PartName", OPN(j)), contentType=s_("ContentType", OCT(j))), name="override_lst")
    dfs = SSeq(nd, lambda j: SObj(None, "default", extension=s_("Extension", DEX(j)), contentType=s_("ContentType", DCT(j))), name="default_lst")
    types = SObj(None, "types_elm", override_lst=ovs, default_lst=dfs)
    c.summaries["pptx.oxml:parse_xml"] = lambda it, a, k: types
    c.summaries["pptx.opc.package:parse_xml"] = c.summaries["pptx.oxml:parse_xml"]
    built = c.run(_ContentTypeMap.from_xml.__func__, _ContentTypeMap, SObj(None, "content_types_xml"))
    if built.raised:
        c.fails("from_xml_never_raises", "raised %s" % built.exc)
        return
    m = built.value
    ok = isinstance(m, SObj) and m.cls is _ContentTypeMap and len(made) == 2
    c.ensures("post.builds_a_map_over_two_case_insensitive_dicts", ok)
    if not ok:
        return
    pn = GName(c.input("partname", z3.String("partname")))
    ko, kd = LOWER(pn.zs), LOWER(EXT(pn.zs))
    j = z3.Int("cj")
    o_hit = lambda q: z3.And(0 <= q, q < no, LOWER(OPN(q)) == ko)
    d_hit = lambda q: z3.And(0 <= q, q < nd, LOWER(DEX(q)) == kd)
    any_o = z3.Exists([j], o_hit(j))
    any_d = z3.Exists([j], d_hit(j))
    out = c.run(_ContentTypeMap.__getitem__, m, pn)
    if out.raised:
        c.ensures("post.only_KeyError", out.exc.exc_cls is KeyError)
        c.ensures("post.KeyError_only_when_no_element_declares_it", z3.And(z3.Not(any_o), z3.Not(any_d)))
        return
    z = name_key(out.value)
    w = c.int("witness")
    last_o = z3.And(o_hit(w), z3.ForAll([j], z3.Implies(z3.And(o_hit(j)), j <= w)), z == OCT(w))
    last_d = z3.And(z3.Not(any_o), d_hit(w), z3.ForAll([j], z3.Implies(d_hit(j), j <= w)), z == DCT(w))
    c.ensures("post.last_matching_override_else_last_matching_default", z3.Exists([w], z3.Or(last_o, last_d)))


@contract("C16", "C16.opc.shared.CaseInsensitiveDict")
def _ci_dict(c):
    """store then look up under any spelling with the same lower(): found, same value; keys are stored lowered."""
    from pptx.opc.shared import CaseInsensitiveDict

    c.summaries.update(OPTIONS)
    d, G = ci_dict("d", symbolic=False)
    k1 = SStr([Atom("k1", zs=c.input("k1", z3.String("k1")))])
    k2 = SStr([Atom("k2", zs=c.input("k2", z3.String("k2")))])
    v = SStr([Atom("v", zs=z3.String("v"))])
    c.requires(LOWER(k1.z3()) == LOWER(k2.z3()))
    out = c.run(CaseInsensitiveDict.__setitem__, d, k1, v)
    if out.raised:
        c.fails("never_raises", "raised %s" % out.exc)
        return
    c.ensures("post.stored_under_lowered_key", z3.And(G.has(LOWER(k1.z3())), G.val(LOWER(k1.z3())) == z3.String("v")))
    r = c.run(CaseInsensitiveDict.__contains__, d, k2)
    c.ensures("post.contains_other_spelling", (not r.raised) and (r.value is True or z3.is_expr(r.value) and r.value))
    g = c.run(CaseInsensitiveDict.__getitem__, d, k2)
    c.ensures("post.getitem_other_spelling", (not g.raised) and name_key(g.value) == z3.String("v"))


# ---------------------------------------------------------------------------------------------------------
# reader


def _replay_reader(model, rec):
    import io
    import zipfile

    from pptx.opc.packuri import PackURI
    from pptx.opc.serialized import PackageReader

    buf = io.BytesIO()
    with zipfile.ZipFile(buf, "w") as z:
        z.writestr("ppt/a.xml", b"<a/>")
        z.writestr("ppt/_rels/a.xml.rels", b"<r/>")
        z.writestr("ppt/b.xml", b"<b/>")
    r = PackageReader(io.BytesIO(buf.getvalue()))
    if r.rels_xml_for(PackURI("/ppt/a.xml")) != b"<r/>" or r.rels_xml_for(PackURI("/ppt/b.xml")) is not None:
        return {"confirmed": True, "witness_class": "rels-xml-for", "detail": "rels_xml_for wrong on a two-part zip"}
    try:
        r[PackURI("/ppt/c.xml")]
        return {"confirmed": True, "witness_class": "reader-missing", "detail": "missing member did not raise KeyError"}
    except KeyError:
        pass
    return {"confirmed": False, "detail": "reader behaves"}


@contract("C16", "C16.opc.serialized.PackageReader.rels_xml_for", replay=_replay_reader)
def _rels_xml_for(c):
    """None iff the package has no rels item for the part (never KeyError); otherwise that item's bytes."""
    from pptx.opc.serialized import PackageReader

    rd = GReader()
    pn = GName(c.input("partname", z3.String("partname")))
    pr = SObj(PackageReader, "package_reader", _blob_reader=rd)
    out = c.run(PackageReader.rels_xml_for, pr, pn)
    if out.raised:
        c.fails("never_raises", "raised %s" % out.exc)
        return
    ru = RELS_URI(pn.zs)
    if out.value is None:
        c.ensures("post.none_iff_absent", z3.Not(rd.PRESENT(ru)))
    else:
        c.ensures("post.is_that_item", z3.And(rd.PRESENT(ru), out.value.fields["blob_id"] == rd.BLOB(ru)))


@contract("C16", "C16.opc.package._PackageLoader._xml_rels_for", replay=_replay_reader)
def _xml_rels_for(c):
    """a part without a rels item gets an empty CT_Relationships; otherwise its rels item is parsed."""
    from pptx.opc.package import _PackageLoader

    has = c.bool("has_rels_item")
    blob = SObj(None, "rels_blob")
    empty = SObj(None, "empty_rels")
    parsed = []
    reader = SObj(None, "package_reader", rels_xml_for=GhostFn(lambda it, a, k: blob if it.path.branch(has) else None))
    c.summaries["pptx.opc.oxml:CT_Relationships.new"] = lambda it, a, k: empty
    c.summaries["pptx.oxml:parse_xml"] = lambda it, a, k: (parsed.append(a[0]), SObj(None, "parsed"))[1]
    c.summaries["pptx.opc.oxml:parse_xml"] = c.summaries["pptx.oxml:parse_xml"]
    ld = SObj(_PackageLoader, "loader", _package_reader=reader)
    out = c.run(_PackageLoader._xml_rels_for, ld, GName(z3.String("partname")))
    if out.raised:
        c.fails("never_raises", "raised %s" % out.exc)
        return
    if parsed:
        c.ensures("post.parsed_when_present", z3.And(has, parsed[0] is blob))
    else:
        c.ensures("post.empty_when_absent", z3.And(z3.Not(has), out.value is empty))


def _replay_factory(model, rec):
    import io
    import os
    import tempfile

    from pptx.exc import PackageNotFoundError
    from pptx.opc.serialized import _DirPkgReader, _PhysPkgReader, _ZipPkgReader

    d = tempfile.mkdtemp()
    try:
        p = os.path.join(d, "notzip.pptx")
        open(p, "wb").write(b"hello")
        import zipfile as _zf

        good = io.BytesIO()
        with _zf.ZipFile(good, "w") as z:
            z.writestr("[Content_Types].xml", b"<Types/>" * 40)
            z.writestr("_rels/.rels", b"<Relationships/>" * 40)
        cut = []
        for frac, nm in ((0.5, "half.pptx"), (0.9, "most.pptx")):
            q = os.path.join(d, nm)
            open(q, "wb").write(good.getvalue()[: int(len(good.getvalue()) * frac)])
            cut.append(q)
        q = os.path.join(d, "tail.pptx")
        open(q, "wb").write(good.getvalue()[:-30])
        cut.append(q)
        for arg, want in [(p, PackageNotFoundError), (os.path.join(d, "missing.pptx"), PackageNotFoundError)] + [(q, PackageNotFoundError) for q in cut]:
            try:
                _PhysPkgReader.factory(arg)
                return {"confirmed": True, "witness_class": "factory", "detail": "factory(%r) did not raise" % arg}
            except want:
                pass
            except Exception as e:
                return {"confirmed": True, "witness_class": "factory", "detail": "factory(%r) raised %r" % (arg, e)}
        if not isinstance(_PhysPkgReader.factory(d), _DirPkgReader) or not isinstance(_PhysPkgReader.factory(io.BytesIO(b"x")), _ZipPkgReader):
            return {"confirmed": True, "witness_class": "factory", "detail": "wrong reader class"}
    finally:
        import shutil

        shutil.rmtree(d, ignore_errors=True)
    return {"confirmed": False, "detail": "factory maps as documented"}


@contract("C16", "C16.opc.serialized._PhysPkgReader.factory", replay=_replay_factory)
def _factory(c):
    """a str path that is neither a directory nor a zip file => PackageNotFoundError (and nothing else); a directory
    => directory reader; a zip file or any non-str object => zip reader (which reports BadZipFile itself)."""
    import io

    from pptx.exc import PackageNotFoundError
    from pptx.opc.serialized import _DirPkgReader, _PhysPkgReader, _ZipPkgReader

    isdir, iszip = c.bool("isdir"), c.bool("is_zipfile")
    c.summaries["genericpath:isdir"] = lambda it, a, k: isdir
    c.summaries["zipfile:is_zipfile"] = lambda it, a, k: iszip
    c.summaries["posixpath:abspath"] = lambda it, a, k: a[0]
    c.path.assumed.add("os.path.isdir / zipfile.is_zipfile: total boolean functions of the path")
    is_path = c.bool("is_str")
    arg = SStr([Atom("path", zs=z3.String("path"))]) if c.branch(is_path) else SObj(io.BytesIO, "stream")
    out = c.run(_PhysPkgReader.factory.__func__, _PhysPkgReader, arg)
    if out.raised:
        c.ensures("post.only_PackageNotFoundError", out.exc.exc_cls is PackageNotFoundError)
        c.ensures("post.refused_only_when_neither", z3.And(is_path, z3.Not(isdir), z3.Not(iszip)))
        return
    r = out.value
    cls = getattr(r, "cls", None)
    c.ensures("post.reader_class", z3.If(z3.Not(is_path), cls is _ZipPkgReader, z3.If(isdir, cls is _DirPkgReader, z3.And(iszip, cls is _ZipPkgReader))))
    c.ensures("post.reader_reads_that_file", (r.fields.get("_pkg_file") is arg) or (r.fields.get("_path") is arg))


def _replay_dir_contains(model, rec):
    import os
    import shutil
    import tempfile

    from pptx.opc.packuri import PackURI
    from pptx.opc.serialized import _DirPkgReader

    hold = tempfile.mkdtemp()
    try:
        os.makedirs(os.path.join(hold, "real", "ppt"))
        open(os.path.join(hold, "real", "ppt", "a.xml"), "wb").write(b"<a/>")
        os.symlink(os.path.join(hold, "real"), os.path.join(hold, "link"))
        for path_, what in ((os.path.join(hold, "real"), "plain directory"), (os.path.join(hold, "link"), "symbolic link to the directory"), (os.path.join(hold, "real") + os.sep, "trailing separator")):
            r = _DirPkgReader(path_)
            if PackURI("/ppt/a.xml") not in r or PackURI("/ppt/b.xml") in r or "/ppt/a.xml" in r:
                return {"confirmed": True, "witness_class": "dir-contains", "detail": "directory reader on a %s: present member in = %r, absent member in = %r, plain str in = %r"
                        % (what, PackURI("/ppt/a.xml") in r, PackURI("/ppt/b.xml") in r, "/ppt/a.xml" in r)}
    finally:
        shutil.rmtree(hold, ignore_errors=True)
    return {"confirmed": False, "detail": "directory reader membership follows the files"}


@contract("C16", "C16.opc.serialized._DirPkgReader.__contains__", replay=_replay_dir_contains)
def _dir_contains(c):
    """a part name is in the directory reader exactly when the file <directory>/<member name> exists, whatever the directory path is
    (no other condition on the path); anything that is not a part name is not."""
    from pptx.opc.serialized import _DirPkgReader

    from .opc import MEMBER

    EXISTS = z3.Function("FILE_EXISTS", z3.StringSort(), z3.BoolSort())
    c.summaries["genericpath:exists"] = lambda it, a, k: EXISTS(str_key(a[0]))
    c.summaries["posixpath:join"] = lambda it, a, k: SStr([a[0], "/", a[1]]) if isinstance(a[0], str) else SStr(list(a[0].parts) + ["/"] + list(a[1].parts))
    c.path.assumed.add("os.path.exists is a total boolean function of the path text; posixpath.join(dir, member) = dir + '/' + member for a directory path "
                       "without trailing separator (as abspath returns) and a relative member name")
    path = SStr([Atom("dirpath", zs=z3.String("dirpath"))])
    r = SObj(_DirPkgReader, "dir_reader", _path=path)
    is_name = c.bool("is_packuri")
    pn = GName(z3.String("partname"))
    arg = pn if c.branch(is_name) else SStr([Atom("some_str", zs=z3.String("some_str"))])
    out = c.run(_DirPkgReader.__contains__, r, arg)
    if out.raised:
        c.fails("never_raises", "raised %s" % out.exc)
        return
    v = out.value
    v = v if z3.is_expr(v) else z3.BoolVal(bool(v))
    want = z3.And(is_name, EXISTS(z3.Concat(z3.String("dirpath"), z3.StringVal("/"), MEMBER(pn.zs))))
    c.ensures("post.member_iff_file_exists", v == want)


@contract("C16", "C16.opc.serialized._ZipPkgReader.__getitem__", replay=_replay_reader)
def _zip_getitem(c):
    """a member that is absent is reported as KeyError; a present one is returned."""
    from pptx.opc.serialized import _ZipPkgReader

    blobs = GDict.symbolic("blobs", key_of=name_key, vsort=z3.IntSort(), wrap=lambda v: v, unwrap=lambda t: SObj(None, "blob", blob_id=t))
    r = SObj(_ZipPkgReader, "zip_reader", _blobs=blobs)
    pn = GName(z3.String("partname"))
    out = c.run(_ZipPkgReader.__getitem__, r, pn)
    if out.raised:
        c.ensures("post.only_KeyError", out.exc.exc_cls is KeyError)
        c.ensures("post.KeyError_iff_absent", z3.Not(blobs.has(pn.zs)))
        return
    c.ensures("post.that_member", z3.And(blobs.has(pn.zs), out.value.fields["blob_id"] == blobs.val(pn.zs)))


# ---------------------------------------------------------------------------------------------------------
# relationships


class _GRel:
    """CT_Relationship element j of a rels item: targetMode, target_ref, rId, reltype as functions of j."""

    __pyvc_symbolic__ = True

    def __init__(self, j, F):
        self.j, self.F = j, F

    def sym_getattr(self, it, name):
        from pptx.opc.constants import RELATIONSHIP_TARGET_MODE as RTM

        F, j = self.F, self.j
        if name == "targetMode":
            return RTM.EXTERNAL if it.path.branch(F["EXT"](j)) else RTM.INTERNAL
        if name == "target_ref":
            return SStr([Atom("target_ref[%s]" % j, zs=F["REF"](j))])
        if name == "rId":
            return SStr([Atom("rId[%s]" % j, zs=F["RID"](j))])
        if name == "reltype":
            return SStr([Atom("reltype[%s]" % j, zs=F["RT"](j))])
        raise Exception("ghost relationship element asked for %s" % name)


def _rel_funcs():
    return {"EXT": z3.Function("REL_EXT", z3.IntSort(), z3.BoolSort()), "REF": z3.Function("REL_REF", z3.IntSort(), z3.StringSort()),
            "RID": z3.Function("REL_RID", z3.IntSort(), z3.StringSort()), "RT": z3.Function("REL_TYPE", z3.IntSort(), z3.StringSort())}


FROM_REF = z3.Function("FROM_REL_REF", z3.StringSort(), z3.StringSort(), z3.StringSort())


def _from_rel_ref_summary(c):
    def h(it, a, k):
        it.path.assumed.add("PackURI.from_rel_ref(base, ref) is a function of (base, ref) (C19 contract)")
        args = [x for x in a if not isinstance(x, type)]
        from pyvc.gsets import str_key

        return GName(FROM_REF(str_key(args[0]), str_key(args[1])), "from_rel_ref")

    c.summaries["pptx.opc.packuri:PackURI.from_rel_ref"] = h


def _parts_dict():
    return GDict.symbolic("parts", key_of=name_key, vsort=z3.IntSort(), wrap=lambda v: v.fields["part_id"],
                          unwrap=lambda t: SObj(None, "part", part_id=t))


def _replay_rels(model, rec):
    from pptx.opc.oxml import CT_Relationships
    from pptx.opc.package import Part, _Relationships
    from pptx.opc.packuri import PackURI
    from pptx.oxml import parse_xml

    rels = CT_Relationships.new()
    rels.add_rel("rId1", "http://t/a", "slides/slide1.xml", False)
    rels.add_rel("rId2", "http://t/b", "slides/NULL", False)
    rels.add_rel("rId3", "http://t/c", "http://example.com/x", True)
    rels.add_rel("rId4", "http://t/d", "../docProps/gone.xml", False)
    part = Part(PackURI("/ppt/slides/slide1.xml"), "application/xml", None, b"<x/>")
    parts = {part.partname: part}
    r = _Relationships("/ppt")
    try:
        r.load_from_xml("/ppt", rels, parts)
    except Exception as e:
        return {"confirmed": True, "witness_class": "dangling-rel-raises", "detail": "load_from_xml with dangling targets raised %r" % (e,)}
    got = {k: (v.is_external, v.reltype, v.target_ref if v.is_external else v.target_part) for k, v in r.items()}
    want = {"rId1": (False, "http://t/a", part), "rId3": (True, "http://t/c", "http://example.com/x")}
    if got != want:
        return {"confirmed": True, "witness_class": "rels-loaded-wrong", "detail": "loaded %r, expected rId1 (internal, present) and rId3 (external) only" % (sorted(got),)}
    # every arrangement of present (P), dangling (D) and external (E) relationships in items of up to four entries: exactly the P and E
    # ones are loaded, in particular when dangling ones are neighbours, first or last
    import itertools

    for n in range(1, 5):
        for kinds in itertools.product("PDE", repeat=n):
            rels = CT_Relationships.new()
            want = {}
            for i, k in enumerate(kinds):
                rid = "rId%d" % (i + 1)
                if k == "P":
                    rels.add_rel(rid, "http://t/%d" % i, "slides/slide1.xml", False)
                    want[rid] = (False, "http://t/%d" % i, part)
                elif k == "D":
                    rels.add_rel(rid, "http://t/%d" % i, "media/gone%d.bin" % i, False)
                else:
                    rels.add_rel(rid, "http://t/%d" % i, "http://example.com/%d" % i, True)
                    want[rid] = (True, "http://t/%d" % i, "http://example.com/%d" % i)
            r = _Relationships("/ppt")
            try:
                r.load_from_xml("/ppt", rels, parts)
            except Exception as e:
                return {"confirmed": True, "witness_class": "dangling-rel-raises", "detail": "load_from_xml of an item with relationships %s (P present, D dangling, E external) raised %r" % ("".join(kinds), e)}
            got = {k: (v.is_external, v.reltype, v.target_ref if v.is_external else v.target_part) for k, v in r.items()}
            if got != want:
                return {"confirmed": True, "witness_class": "rels-loaded-wrong", "detail": "item with relationships %s (P present, D dangling, E external): loaded %s, expected %s" % ("".join(kinds), sorted(got), sorted(want))}
    return {"confirmed": False, "detail": "dangling internal targets skipped, others loaded"}


@contract("C16", "C16.opc.package._Relationship.from_xml", replay=_replay_rels)
def _rel_from_xml(c):
    """external: target is the reference text verbatim; internal with the target part present: target is that part;
    id, type and mode are copied.  (KeyError for an absent internal target is what the caller's guard excludes.)"""
    from pptx.opc.constants import RELATIONSHIP_TARGET_MODE as RTM
    from pptx.opc.package import _Relationship

    c.summaries.update(OPTIONS)
    _from_rel_ref_summary(c)
    F = _rel_funcs()
    j = z3.IntVal(0)
    rel = _GRel(j, F)
    parts = _parts_dict()
    base = SStr([Atom("base_uri", zs=z3.String("base_uri"))])
    out = c.run(_Relationship.from_xml.__func__, _Relationship, base, rel, parts)
    tgt = FROM_REF(z3.String("base_uri"), F["REF"](j))
    if out.raised:
        c.ensures("post.only_KeyError_for_absent_internal_target", out.exc.exc_cls is KeyError)
        c.ensures("post.raises_only_if_internal_and_absent", z3.And(z3.Not(F["EXT"](j)), z3.Not(parts.has(tgt))))
        return
    r = out.value
    f = r.fields
    c.ensures("post.id_and_type_copied", z3.And(name_key(f["_rId"]) == F["RID"](j), name_key(f["_reltype"]) == F["RT"](j)))
    mode = f["_target_mode"]
    c.ensures("post.mode_copied", z3.If(F["EXT"](j), mode == RTM.EXTERNAL, mode == RTM.INTERNAL))
    t = f["_target"]
    if isinstance(t, SObj):
        c.ensures("post.internal_target_is_the_part", z3.And(z3.Not(F["EXT"](j)), parts.has(tgt), t.fields["part_id"] == parts.val(tgt)))
    else:
        c.ensures("post.external_target_verbatim", z3.And(F["EXT"](j), name_key(t) == F["REF"](j)))
    c.ensures("post.base_uri_kept", f["_base_uri"] is base)


@contract("C16", "C16.opc.package._Relationships.load_from_xml", replay=_replay_rels, timeout_ms=20000)
def _load_from_xml(c):
    """for any number of relationship elements: the collection is cleared, then holds exactly the relationships that
    are external or whose internal target part is present -- a dangling internal target is skipped, never a KeyError --
    each keyed by its own rId and carrying its own type, mode and target."""
    from pptx.opc.package import _Relationships

    c.summaries.update(OPTIONS)
    _from_rel_ref_summary(c)
    F = _rel_funcs()
    n = c.int("n_rels")
    c.requires(n >= 0)
    seq = SSeq(n, lambda j: _GRel(j, F), name="relationship_lst")
    xml_rels = SObj(None, "xml_rels", relationship_lst=seq)
    parts = _parts_dict()
    events = []

    class _Store:
        __pyvc_symbolic__ = True

        def sym_getattr(self, it, name):
            if name == "clear":
                return GhostFn(lambda i2, a, k: events.append(("clear",)), "dict.clear")
            if name == "update":
                return GhostFn(lambda i2, a, k: events.append(("update", i2, a[0])), "dict.update")
            raise Exception("ghost _rels asked for %s" % name)

    rels = SObj(_Relationships, "relationships", _rels=_Store(), _base_uri=SStr([Atom("own_base", zs=z3.String("own_base"))]))
    base = SStr([Atom("base_uri", zs=z3.String("base_uri"))])
    out = c.run(_Relationships.load_from_xml, rels, base, xml_rels, parts)
    if out.raised:
        c.fails("never_raises", "load_from_xml raised %s" % out.exc)
        return
    ok = len(events) == 2 and events[0][0] == "clear" and events[1][0] == "update"
    c.ensures("post.cleared_then_updated_once", ok)
    if not ok:
        return
    it2, src = events[1][1], events[1][2]
    f = getattr(src, "filtered", src)
    good = type(f).__name__ == "SFiltered"
    c.ensures("post.update_source_is_filtered_map_of_the_elements", good)
    if not good:
        return
    j = z3.Int("vj")
    tgt = lambda q: FROM_REF(z3.String("base_uri"), F["REF"](q))
    c.ensures("post.same_number_of_candidates", f.n == n)
    c.ensures("post.kept_iff_external_or_target_present",
              z3.ForAll([j], z3.Implies(z3.And(0 <= j, j < n), f.cond(j) == z3.Or(F["EXT"](j), parts.has(tgt(j))))))
    # a generic kept element: the pair (rId, relationship) the dict receives
    k = c.int("probe")
    c.requires(z3.And(0 <= k, k < n, f.cond(k)))
    pair = f.elt_it(it2, k)
    okp = isinstance(pair, tuple) and len(pair) == 2 and isinstance(pair[1], SObj)
    c.ensures("post.items_are_(rId, relationship)_pairs", okp)
    if not okp:
        return
    rid, r = pair
    fl = r.fields
    c.ensures("post.keyed_by_own_rId", z3.And(name_key(rid) == F["RID"](k), name_key(fl["_rId"]) == F["RID"](k)))
    c.ensures("post.type_copied", name_key(fl["_reltype"]) == F["RT"](k))
    t = fl["_target"]
    if isinstance(t, SObj):
        c.ensures("post.internal_target_is_the_part_named", z3.And(z3.Not(F["EXT"](k)), t.fields["part_id"] == parts.val(tgt(k))))
    else:
        c.ensures("post.external_target_verbatim", z3.And(F["EXT"](k), name_key(t) == F["REF"](k)))


def _replay_reltype(model, rec):
    from pptx.opc.package import Part, _Relationships
    from pptx.opc.packuri import PackURI

    p = Part(PackURI("/a.xml"), "x", None, b"")
    r = _Relationships("/")
    try:
        r.part_with_reltype("t")
        return {"confirmed": True, "witness_class": "reltype", "detail": "no KeyError for missing type"}
    except KeyError:
        pass
    r._add_relationship("t", p)
    if r.part_with_reltype("t") is not p:
        return {"confirmed": True, "witness_class": "reltype", "detail": "single relationship not returned"}
    r._add_relationship("t", Part(PackURI("/b.xml"), "x", None, b""))
    try:
        r.part_with_reltype("t")
        return {"confirmed": True, "witness_class": "reltype", "detail": "no ValueError for two"}
    except ValueError:
        pass
    return {"confirmed": False, "detail": "0 -> KeyError, 1 -> part, 2 -> ValueError"}


@contract("C16", "C16.opc.package.OpcPackage.main_document_part.fget", replay=_replay_reltype)
def _main_document_part(c):
    """zero office-document relationships => KeyError, several => ValueError, exactly one => its target part
    (through part_related_by and part_with_reltype, both run from source)."""
    from pptx.opc.constants import RELATIONSHIP_TYPE as RT
    from pptx.opc.package import OpcPackage, _Relationships

    L = c.int("n_office_document_rels")
    c.requires(L >= 0)
    asked = []
    target = SObj(None, "main_part")
    seq = SSeq(L, lambda j: SObj(None, "rel[%s]" % j, target_part=target, j=j), name="rels_of_reltype")

    class _ByType:
        __pyvc_symbolic__ = True

        def sym_getitem(self, it, key):
            asked.append(key)
            return seq

    rels = SObj(_Relationships, "pkg_rels", _rels_by_reltype=_ByType())
    pkg = SObj(OpcPackage, "package", _rels=rels)
    out = c.run(OpcPackage.main_document_part.fget, pkg)
    c.ensures("post.asks_for_office_document_type", asked == [RT.OFFICE_DOCUMENT])
    if out.raised:
        c.ensures("post.KeyError_iff_none_ValueError_iff_several",
                  z3.Or(z3.And(L == 0, out.exc.exc_cls is KeyError), z3.And(L > 1, out.exc.exc_cls is ValueError)))
        return
    c.ensures("post.exactly_one", L == 1)
    c.ensures("post.its_target_part", out.value is target)


def _replay_api(model, rec):
    import io

    from pptx import Presentation
    from pptx.opc.constants import CONTENT_TYPE as CT

    prs = Presentation()
    prs.part._content_type = CT.PML_TEMPLATE_MAIN if hasattr(CT, "PML_TEMPLATE_MAIN") else "application/x-other"
    buf = io.BytesIO()
    prs.save(buf)
    try:
        Presentation(io.BytesIO(buf.getvalue()))
        return {"confirmed": True, "witness_class": "api-valueerror", "detail": "a package whose main part is not a presentation was accepted"}
    except ValueError:
        pass
    except Exception as e:
        return {"confirmed": True, "witness_class": "api-valueerror", "detail": "non-presentation main part raised %r instead of ValueError" % (e,)}
    return {"confirmed": False, "detail": "non-presentation main part refused with ValueError"}


@contract("C16", "C16.api.Presentation", replay=_replay_api)
def _api(c):
    """the main part's content type decides: presentation (plain or macro-enabled) => its Presentation object;
    anything else => ValueError."""
    import pptx.api as api
    from pptx.opc.constants import CONTENT_TYPE as CT

    ct = c.input("content_type", z3.String("content_type"))
    prs_obj = SObj(None, "presentation")
    part = SObj(None, "main_part", content_type=SStr([Atom("content_type", zs=ct)]), presentation=prs_obj)
    opened = []
    c.summaries["pptx.opc.package:OpcPackage.open"] = lambda it, a, k: (opened.append(a), SObj(None, "package", main_document_part=part))[1]
    arg = SStr([Atom("path", zs=z3.String("path"))])
    out = c.run(api.Presentation, arg)
    valid = z3.Or(ct == z3.StringVal(CT.PML_PRESENTATION_MAIN), ct == z3.StringVal(CT.PML_PRES_MACRO_MAIN))
    if out.raised:
        c.ensures("post.only_ValueError", out.exc.exc_cls is ValueError)
        c.ensures("post.refused_iff_not_a_presentation", z3.Not(valid))
        return
    c.ensures("post.accepted_iff_presentation", valid)
    c.ensures("post.returns_its_presentation", out.value is prs_obj)
    c.ensures("post.opened_the_file_given", len(opened) == 1 and opened[0][-1] is arg)


def _replay_core(model, rec):
    import io
    import zipfile

    from pptx import Presentation

    prs = Presentation()
    buf = io.BytesIO()
    prs.save(buf)
    # strip the core-properties relationship and member
    src = zipfile.ZipFile(io.BytesIO(buf.getvalue()))
    out = io.BytesIO()
    with zipfile.ZipFile(out, "w") as z:
        for nm in src.namelist():
            data = src.read(nm)
            if nm == "docProps/core.xml":
                continue
            if nm == "_rels/.rels":
                import re

                data = re.sub(rb'<Relationship [^>]*core-properties[^>]*/>', b"", data)
            z.writestr(nm, data)
    try:
        p2 = Presentation(io.BytesIO(out.getvalue()))
        cp = p2.core_properties
        cp2 = p2.core_properties
        n = sum(1 for r in p2.part.package._rels.values() if r.reltype.endswith("core-properties"))
    except Exception as e:
        return {"confirmed": True, "witness_class": "core-props", "detail": "package without core properties: %r" % (e,)}
    if n != 1:
        return {"confirmed": True, "witness_class": "core-props", "detail": "%d core-properties relationships after two accesses" % n}
    return {"confirmed": False, "detail": "default core properties created once"}


@contract("C16", "C16.package.Package.core_properties", replay=_replay_core)
def _core_properties(c):
    """no core-properties relationship => a default part is created and related exactly once and returned; otherwise
    the related part is returned and nothing is created."""
    from pptx.opc.constants import RELATIONSHIP_TYPE as RT
    from pptx.package import Package
    from pyvc.engine import PyRaise

    present = c.bool("has_core_props")
    existing = SObj(None, "existing_core_part")
    created = SObj(None, "default_core_part")
    events = []

    def part_related_by(it, a, k):
        events.append(("lookup", a[0]))
        if it.path.branch(present):
            return existing
        raise PyRaise(KeyError, ("no relationship of type",))

    c.summaries["pptx.parts.coreprops:CorePropertiesPart.default"] = lambda it, a, k: (events.append(("default", a)), created)[1]
    pkg = SObj(Package, "package", part_related_by=GhostFn(part_related_by, "part_related_by"),
               relate_to=GhostFn(lambda it, a, k: events.append(("relate_to", a)), "relate_to"))
    out = c.run(Package.__dict__["core_properties"]._fget, pkg)
    if out.raised:
        c.fails("never_raises", "raised %s" % out.exc)
        return
    kinds = [e[0] for e in events]
    if out.value is existing:
        c.ensures("post.existing_returned_nothing_created", z3.And(present, kinds == ["lookup"]))
    else:
        c.ensures("post.created_once_and_related", z3.And(z3.Not(present), kinds == ["lookup", "default", "relate_to"] and out.value is created))
        if kinds == ["lookup", "default", "relate_to"]:
            c.ensures("post.related_as_core_properties", events[2][1][0] is created and events[2][1][1] == RT.CORE_PROPERTIES and events[0][1] == RT.CORE_PROPERTIES)


@contract("C16", "C16.opc.package.PartFactory._part_cls_for")
def _part_cls_for(c):
    """an unknown content type gives the base Part class (the part still loads); a registered one its class."""
    from pptx.opc.package import Part, PartFactory

    ct = SStr([Atom("content_type", zs=c.input("content_type", z3.String("content_type")))])
    out = c.run(PartFactory._part_cls_for.__func__, PartFactory, ct)
    if out.raised:
        c.fails("never_raises", "raised %s" % out.exc)
        return
    known = z3.Or(*[z3.String("content_type") == z3.StringVal(k) for k in PartFactory.part_type_for])
    r = out.value
    if r is Part:
        c.ensures("post.base_part_iff_unregistered", z3.Not(known))
    else:
        match = [k for k, v in PartFactory.part_type_for.items() if v is r]
        c.ensures("post.registered_class_for_that_type", z3.Or(*[z3.String("content_type") == z3.StringVal(k) for k in match]) if match else False)


# ---------------------------------------------------------------------------------------------------------
# BOUNDED native job: every irregularity injected at every applicable location


def _members(prs_bytes):
    import io
    import zipfile

    z = zipfile.ZipFile(io.BytesIO(prs_bytes))
    return [(n, z.read(n)) for n in z.namelist()]


def _zip(members):
    import io
    import zipfile

    out = io.BytesIO()
    with zipfile.ZipFile(out, "w", zipfile.ZIP_DEFLATED) as z:
        for n, d in members:
            z.writestr(n, d)
    return out.getvalue()


def _summary(prs):
    """what must be preserved: slides in order with their shapes' names and text"""
    out = []
    for s in prs.slides:
        out.append([(sh.shape_type, sh.name, sh.text_frame.text if sh.has_text_frame else None) for sh in s.shapes])
    return out


def _decks():
    import io

    from pptx import Presentation
    from pptx.chart.data import CategoryChartData
    from pptx.enum.chart import XL_CHART_TYPE
    from pptx.util import Inches

    decks = []
    prs = Presentation()
    prs.slides.add_slide(prs.slide_layouts[0]).shapes.title.text = "One"
    b = io.BytesIO()
    prs.save(b)
    decks.append(("one-slide", b.getvalue()))
    prs = Presentation()
    for i in range(3):
        s = prs.slides.add_slide(prs.slide_layouts[1])
        s.shapes.title.text = "Slide %d" % i
        s.shapes.add_textbox(0, 0, 100, 100).text_frame.text = "tb%d" % i
    s.notes_slide.notes_text_frame.text = "note"
    cd = CategoryChartData()
    cd.categories = ["a", "b"]
    cd.add_series("s", (1, 2))
    s.shapes.add_chart(XL_CHART_TYPE.COLUMN_CLUSTERED, 0, 0, Inches(2), Inches(2), cd)
    s.shapes.add_textbox(0, 0, 10, 10).text_frame.paragraphs[0].add_run().hyperlink.address = "http://example.com/"
    b = io.BytesIO()
    prs.save(b)
    decks.append(("three-slides-chart-notes-link", b.getvalue()))
    return decks


def _native_irregular(tier="quick", seed=0):
    import io
    import itertools
    import os
    import re
    import shutil
    import tempfile
    import time as _t
    import zipfile

    from pptx import Presentation
    from pptx.exc import PackageNotFoundError

    t0 = _t.time()
    obls, evals = [], [0]

    def rec(name, bad, wc="native-irregular"):
        r = {"name": name, "base": name, "kind": "bounded", "status": "refuted" if bad else "discharged", "backend": "native", "time": 0, "path": 0}
        if bad:
            r["replay"] = {"confirmed": True, "witness_class": wc, "detail": bad}
            r["model"] = None
        obls.append(r)

    def opens(members, what, want=None, keep_slides=True, grow=False):
        evals[0] += 1
        try:
            prs = Presentation(io.BytesIO(_zip(members)))
            got = _summary(prs)
            buf = io.BytesIO()
            prs.save(buf)
            again = _summary(Presentation(io.BytesIO(buf.getvalue())))
        except Exception as e:
            return "%s: %r" % (what, e)
        if want is not None and keep_slides and got != want:
            return "%s: content differs after opening" % what
        if again != got:
            return "%s: content differs after save and re-open" % what
        if grow:
            # what was opened stays usable: a slide added afterwards does not displace anything that was reachable
            try:
                prs.slides.add_slide(prs.slide_layouts[6]).shapes.add_textbox(0, 0, 10, 10).text_frame.text = "added afterwards"
                buf = io.BytesIO()
                prs.save(buf)
                grown = _summary(Presentation(io.BytesIO(buf.getvalue())))
            except Exception as e:
                return "%s, then a slide added: %r" % (what, e)
            if grown[:-1] != got or [t for _, _, t in grown[-1]] != ["added afterwards"]:
                return "%s, then a slide added: after save and re-open the slides read %r, expected the %d opened ones followed by the new one" % (what, [[t for _, _, t in sl] for sl in grown], len(got))
        return None

    for dname, data in _decks():
        members = _members(data)
        base = _summary(Presentation(io.BytesIO(data)))
        # 1. dangling internal target: per relationship of per rels item, void the Target
        bad = None
        for i, (n, d) in enumerate(members):
            if not n.endswith(".rels"):
                continue
            rels = re.findall(rb'<Relationship [^>]*?/>', d)
            for r in rels:
                if b'TargetMode="External"' in r:
                    continue
                if b"officeDocument" in r:
                    continue
                r2 = re.sub(rb'Target="([^"]*)/[^"/]*"', rb'Target="\1/NULL"', r) if b"/" in re.search(rb'Target="([^"]*)"', r).group(1) else re.sub(rb'Target="[^"]*"', b'Target="NULL"', r)
                m2 = list(members)
                m2[i] = (n, d.replace(r, r2))
                # the slides list may legitimately lose the slide whose relationship was voided: only demand it opens and re-saves
                b = opens(m2, "%s: %s target voided in %s" % (dname, re.search(rb'Id="([^"]*)"', r).group(1).decode(), n), keep_slides=False)
                bad = bad or b
        rec("C16.native[%s].dangling_target_per_relationship" % dname, bad)
        # 2. deleted .rels item per part (not the package's or the presentation's)
        bad = None
        for i, (n, d) in enumerate(members):
            if n.endswith(".rels") and n not in ("_rels/.rels", "ppt/_rels/presentation.xml.rels") and "slides/_rels" not in n:
                m2 = members[:i] + members[i + 1:]
                bad = bad or opens(m2, "%s: rels item %s deleted" % (dname, n), keep_slides=False)
        rec("C16.native[%s].deleted_rels_item_per_part" % dname, bad)
        # 3. case-flipped Default / Override entries, and case-flipped member extension
        bad = None
        ci = [i for i, (n, _) in enumerate(members) if n == "[Content_Types].xml"][0]
        ct = members[ci][1]
        for m in re.finditer(rb'(Extension|PartName)="([^"]*)"', ct):
            flipped = m.group(2).swapcase()
            m2 = list(members)
            m2[ci] = (members[ci][0], ct[:m.start(2)] + flipped + ct[m.end(2):])
            bad = bad or opens(m2, "%s: %s %s case-flipped" % (dname, m.group(1).decode(), m.group(2).decode()), base)
        rec("C16.native[%s].case_flipped_content_type_entries" % dname, bad)
        # 4. unknown content type on a leaf part, extra unreferenced members, no core properties
        bad = None
        m2 = list(members)
        m2[ci] = (members[ci][0], ct.replace(b'ContentType="application/vnd.openxmlformats-officedocument.theme+xml"', b'ContentType="application/x-unknown-thing"'))
        bad = bad or opens(m2, "%s: theme parts declared with an unknown content type" % dname, base)
        m2 = list(members) + [("ppt/unreferenced.bin", b"\x00\x01"), ("junk/readme.txt", b"hi"), ("ppt/slides/slide999.xml", b"<not-even-xml")]
        bad = bad or opens(m2, "%s: extra unreferenced members" % dname, base)
        # a referenced, declared part whose payload is empty (an empty printer-settings blob): it is a part like any other
        pres_rels = [i for i, (n, _) in enumerate(members) if n == "ppt/_rels/presentation.xml.rels"][0]
        m2 = list(members) + [("ppt/printerSettings/printerSettingsEmpty.bin", b"")]
        m2[pres_rels] = (members[pres_rels][0], members[pres_rels][1].replace(b"</Relationships>", b'<Relationship Id="rId991" Type="http://schemas.openxmlformats.org/officeDocument/2006/relationships/printerSettings" Target="printerSettings/printerSettingsEmpty.bin"/></Relationships>'))
        m2[ci] = (members[ci][0], ct.replace(b"</Types>", b'<Default Extension="bin" ContentType="application/vnd.openxmlformats-officedocument.presentationml.printerSettings"/></Types>') if b'Extension="bin"' not in ct else ct)
        bad = bad or opens(m2, "%s: a referenced part with an empty payload" % dname, base)
        if not bad:
            try:
                prs_e = Presentation(io.BytesIO(_zip(m2)))
                be = io.BytesIO()
                prs_e.save(be)
                if "ppt/printerSettings/printerSettingsEmpty.bin" not in zipfile.ZipFile(io.BytesIO(be.getvalue())).namelist():
                    bad = "%s: a referenced part with an empty payload is gone after open and save" % dname
            except Exception as e:
                bad = "%s: a referenced part with an empty payload: %r" % (dname, e)
        m2 = [(n, re.sub(rb'<Relationship [^>]*core-properties[^>]*/>', b"", d) if n == "_rels/.rels" else d) for n, d in members if n != "docProps/core.xml"]
        bad = bad or opens(m2, "%s: no core properties" % dname, base)
        rec("C16.native[%s].unknown_type_extra_members_no_core_props" % dname, bad)
        # 5. slide parts renamed non-contiguously / out of order (all permutations for <= 3 slides)
        bad = None
        slides = sorted(n for n, _ in members if re.fullmatch(r"ppt/slides/slide\d+\.xml", n))
        if slides:
            # every order of three unrelated numbers, and ascending numbers with gaps (slides were deleted by another producer)
            newnums_list = list(itertools.permutations([7, 3, 12][:len(slides)])) + [tuple([1, 2, 4][:len(slides)]), tuple([2, 3, 4][:len(slides)]), tuple([1, 3, 4][:len(slides)])]
            for newnums in newnums_list:
                ren = {s: "ppt/slides/slide%d.xml" % k for s, k in zip(slides, newnums)}
                m2 = []
                for n, d in members:
                    n2 = ren.get(n, n)
                    mm = re.fullmatch(r"ppt/slides/_rels/(slide\d+\.xml)\.rels", n)
                    if mm:
                        n2 = "ppt/slides/_rels/%s.rels" % ren["ppt/slides/" + mm.group(1)].split("/")[-1]
                    for s, t in ren.items():
                        sb, tb = s.split("/")[-1].encode(), t.split("/")[-1].encode()
                        d = re.sub(rb'(["/])' + re.escape(sb) + rb'"', lambda m_: m_.group(1) + b"@@" + tb + b'"', d)
                    d = d.replace(b"@@", b"")
                    m2.append((n2, d))
                bad = bad or opens(m2, "%s: slide parts renamed to %s" % (dname, list(newnums)), base, grow=True)
        rec("C16.native[%s].slide_parts_renamed_every_permutation" % dname, bad)
        # 6. directory form
        bad = None
        d = tempfile.mkdtemp()
        try:
            zipfile.ZipFile(io.BytesIO(data)).extractall(d)
            evals[0] += 1
            try:
                if _summary(Presentation(d)) != base:
                    bad = "%s: directory-form package content differs" % dname
            except Exception as e:
                bad = "%s: directory-form package: %r" % (dname, e)
            # the same directory named in other ways: trailing separator, through '..', relative to the working directory, through a
            # symbolic link to the directory, inside a symbolically linked parent, with one member being a link to a file stored elsewhere
            hold = tempfile.mkdtemp()
            cwd = os.getcwd()
            try:
                os.symlink(d, os.path.join(hold, "link"))
                os.mkdir(os.path.join(hold, "real"))
                shutil.copytree(d, os.path.join(hold, "real", "deck"))
                os.symlink(os.path.join(hold, "real"), os.path.join(hold, "parent"))
                shutil.copytree(d, os.path.join(hold, "withlink"))
                mem = os.path.join(hold, "withlink", "ppt", "presentation.xml")
                shutil.move(mem, os.path.join(hold, "presentation.elsewhere"))
                os.symlink(os.path.join(hold, "presentation.elsewhere"), mem)
                shutil.copytree(d, os.path.join(hold, "withdirlink"))
                sub = os.path.join(hold, "withdirlink", "ppt", "slides")
                shutil.move(sub, os.path.join(hold, "slides.elsewhere"))
                os.symlink(os.path.join(hold, "slides.elsewhere"), sub)
                spellings = [(os.path.join(hold, "withdirlink"), "one sub-directory is a symbolic link"), (d + os.sep, "trailing separator"), (os.path.join(d, "ppt", ".."), "through '..'"), (os.path.join(hold, "link"), "symbolic link to the directory"),
                             (os.path.join(hold, "parent", "deck"), "directory under a symbolically linked parent"), (os.path.join(hold, "withlink"), "one member is a symbolic link"),
                             (os.path.relpath(d, hold), "relative path")]
                os.chdir(hold)
                for path_, what_ in spellings:
                    evals[0] += 1
                    try:
                        if _summary(Presentation(path_)) != base:
                            bad = bad or "%s: directory-form package named by %s: content differs" % (dname, what_)
                    except Exception as e:
                        bad = bad or "%s: directory-form package named by %s: %r" % (dname, what_, e)
            finally:
                os.chdir(cwd)
                shutil.rmtree(hold, ignore_errors=True)
        finally:
            shutil.rmtree(d, ignore_errors=True)
        rec("C16.native[%s].directory_form" % dname, bad)
        # 7. refusals
        bad = None
        d = tempfile.mkdtemp()
        try:
            cases = []
            p = os.path.join(d, "nonzip.pptx")
            open(p, "wb").write(b"this is not a zip")
            cases.append((p, PackageNotFoundError, "non-zip file path"))
            cases.append((os.path.join(d, "absent.pptx"), PackageNotFoundError, "absent path"))
            for frac in (0.25, 0.5, 0.97):
                q = os.path.join(d, "cut%d.pptx" % int(frac * 100))
                open(q, "wb").write(data[: int(len(data) * frac)])
                cases.append((q, PackageNotFoundError, "zip file truncated to %d%% at a path" % int(frac * 100)))
            q = os.path.join(d, "empty.pptx")
            open(q, "wb").write(b"")
            cases.append((q, PackageNotFoundError, "empty file at a path"))
            cases.append((io.BytesIO(b"this is not a zip"), zipfile.BadZipFile, "non-zip stream"))
            cases.append((io.BytesIO(data[:len(data) // 2]), zipfile.BadZipFile, "truncated zip stream"))
            cases.append((io.BytesIO(_zip([(n, x) for n, x in members if n != "[Content_Types].xml"])), KeyError, "no [Content_Types].xml"))
            cases.append((io.BytesIO(_zip([(n, x) for n, x in members if n != "_rels/.rels"])), KeyError, "no package relationships"))
            cases.append((io.BytesIO(_zip([(n, x.replace(b"presentationml.presentation.main+xml", b"wordprocessingml.document.main+xml") if n == "[Content_Types].xml" else x) for n, x in members])),
                          ValueError, "main part declared as a Word document"))
            for arg, exc, what in cases:
                evals[0] += 1
                try:
                    Presentation(arg)
                    bad = bad or "%s: %s was accepted" % (dname, what)
                except exc:
                    pass
                except Exception as e:
                    bad = bad or "%s: %s raised %r, documented is %s" % (dname, what, e, exc.__name__)
        finally:
            shutil.rmtree(d, ignore_errors=True)
        rec("C16.native[%s].refusals" % dname, bad)
        # 9. equivalent spellings of an internal Target (absolute, "./", a detour through the parent), one relationship at a time;
        #    Override entries for parts that do not exist; an external relationship with an odd target
        import posixpath

        bad = None
        for i, (n, d) in enumerate(members):
            if not n.endswith(".rels"):
                continue
            basedir = "/" if n == "_rels/.rels" else "/" + posixpath.dirname(posixpath.dirname(n))
            for r in re.findall(rb'<Relationship [^>]*?/>', d):
                if b'TargetMode="External"' in r:
                    continue
                tgt = re.search(rb'Target="([^"]*)"', r).group(1).decode()
                absolute = posixpath.normpath(posixpath.join(basedir, tgt))
                rid = re.search(rb'Id="([^"]*)"', r).group(1).decode()
                forms = [absolute, "./" + tgt if not tgt.startswith(("/", ".")) else None,
                         posixpath.join(posixpath.dirname(tgt), "..", posixpath.basename(posixpath.dirname(absolute)), posixpath.basename(tgt)) if posixpath.dirname(absolute) != "/" and not tgt.startswith("/") else None]
                for f in forms:
                    if f is None or f == tgt:
                        continue
                    m2 = list(members)
                    m2[i] = (n, d.replace(r, r.replace(b'Target="%s"' % tgt.encode(), b'Target="%s"' % f.encode())))
                    bad = bad or opens(m2, "%s: %s in %s written as Target=%r instead of %r" % (dname, rid, n, f, tgt), base)
        rec("C16.native[%s].equivalent_target_spellings" % dname, bad)
        bad = None
        m2 = list(members)
        m2[ci] = (members[ci][0], ct.replace(b"</Types>", b'<Override PartName="/ppt/slides/slide77.xml" ContentType="application/vnd.openxmlformats-officedocument.presentationml.slide+xml"/>'
                                                           b'<Override PartName="/nowhere/x.bin" ContentType="application/x-thing"/></Types>'))
        bad = bad or opens(m2, "%s: Override entries for parts that do not exist" % dname, base)
        pi = [i for i, (n, _) in enumerate(members) if n == "ppt/_rels/presentation.xml.rels"][0]
        odd = b'<Relationship Id="rId9999" Type="http://schemas.openxmlformats.org/officeDocument/2006/relationships/hyperlink" Target="file:///C:/x y/%C3%A9.txt#frag" TargetMode="External"/></Relationships>'
        m2 = list(members)
        m2[pi] = (members[pi][0], members[pi][1].replace(b"</Relationships>", odd))
        bad = bad or opens(m2, "%s: external relationship with an odd target on the presentation part" % dname, base)
        rec("C16.native[%s].phantom_overrides_and_odd_external_target" % dname, bad)
        # 10. a zip written by a general-purpose archiver: directory entries, members in another order, stored (not deflated), a comment
        bad = None
        dirs = sorted({n[: n.rfind("/") + 1] for n, _ in members if "/" in n} | {"ppt/", "docProps/", "_rels/"})
        buf10 = io.BytesIO()
        with zipfile.ZipFile(buf10, "w", zipfile.ZIP_STORED) as z10:
            for dn in dirs:
                z10.writestr(zipfile.ZipInfo(dn), b"")
            for n, d in sorted(members, reverse=True):
                z10.writestr(n, d)
            z10.comment = b"made by some archiver"
        evals[0] += 1
        try:
            got10 = _summary(Presentation(io.BytesIO(buf10.getvalue())))
            if got10 != base:
                bad = "%s: zip with directory entries, reversed member order, stored members: content differs" % dname
        except Exception as e:
            bad = "%s: zip with directory entries, reversed member order, stored members: %r" % (dname, e)
        rec("C16.native[%s].zip_from_a_general_purpose_archiver" % dname, bad)
        # 8. pairs (thorough): dangling target x case flip, no-core x extra members
        if tier == "thorough":
            bad = None
            m2 = [(n, re.sub(rb'<Relationship [^>]*core-properties[^>]*/>', b"", x) if n == "_rels/.rels" else x) for n, x in members if n != "docProps/core.xml"]
            m2 += [("junk/readme.txt", b"hi")]
            ci2 = [i for i, (n, _) in enumerate(m2) if n == "[Content_Types].xml"][0]
            for m in list(re.finditer(rb'(Extension|PartName)="([^"]*)"', m2[ci2][1]))[:12]:
                m3 = list(m2)
                c2 = m2[ci2][1]
                m3[ci2] = (m2[ci2][0], c2[:m.start(2)] + m.group(2).swapcase() + c2[m.end(2):])
                bad = bad or opens(m3, "%s: no core props + extra member + %s case-flipped" % (dname, m.group(2).decode()), base)
            rec("C16.native[%s].pairs" % dname, bad)
    # corpus decks (PowerPoint-authored: parts of kinds the library has no class for, reachable only through such parts): every member
    # reachable through the relationship items -- computed here from the zip alone -- is a part after opening, and is written again
    import glob
    import posixpath as _pp

    repo = os.environ.get("PPTX_REPO", "/repo")
    bad = None

    def reachable(z):
        names = {n.lower(): n for n in z.namelist()}
        seen, todo = set(), [("/", "_rels/.rels")]
        while todo:
            src, relsname = todo.pop()
            key = names.get(relsname.lower())
            if key is None:
                continue
            for m in re.finditer(rb'<Relationship [^>]*?/?>', z.read(key)):
                r = m.group(0)
                if b'TargetMode="External"' in r:
                    continue
                tgt = re.search(rb'Target="([^"]*)"', r).group(1).decode()
                base_ = "/" if src == "/" else _pp.dirname(src)
                pn = _pp.normpath(_pp.join(base_, tgt))
                if pn.lower().lstrip("/") not in names or pn in seen:
                    continue
                seen.add(pn)
                todo.append((pn, _pp.join(_pp.dirname(pn).lstrip("/"), "_rels", _pp.basename(pn) + ".rels")))
        return seen

    for f in sorted(glob.glob(os.path.join(repo, "features", "steps", "test_files", "*.pptx"))):
        evals[0] += 1
        try:
            want = {p.lower() for p in reachable(zipfile.ZipFile(f))}
            prs = Presentation(f)
            got = {str(p.partname).lower() for p in prs.part.package.iter_parts()}
            if got != want:
                bad = bad or "%s: parts after opening differ from the members reachable in the file: missing %s, extra %s" % (os.path.basename(f), sorted(want - got)[:4], sorted(got - want)[:4])
                continue
            buf = io.BytesIO()
            prs.save(buf)
            again = {("/" + n).lower() for n in zipfile.ZipFile(io.BytesIO(buf.getvalue())).namelist() if not n.endswith(".rels") and n != "[Content_Types].xml"}
            if again != want:
                bad = bad or "%s: members written differ from the parts reachable in the original: missing %s, extra %s" % (os.path.basename(f), sorted(want - again)[:4], sorted(again - want)[:4])
        except Exception as e:
            bad = bad or "%s: %r" % (os.path.basename(f), e)
    rec("C16.native.corpus_decks_open_with_every_reachable_part", bad)
    return {"contract": "C16.native_irregular", "prop": "C16", "status": "ok", "obligations": obls, "paths": 0, "assumed": [], "functions": {},
            "notes": [], "solver_s": 0.0, "wall_s": _t.time() - t0,
            "bounded": {"name": "C16.native_irregular", "bound": "two generated decks (1 slide; 3 slides + chart + notes + hyperlink); each irregularity at every applicable location, singly (pairs in the thorough tier)",
                        "evaluations": evals[0], "samples": [], "counted_as_proved": False}}


JOBS = {"C16.native_irregular": _native_irregular}


# ---------------------------------------------------------------------------------------------------------
# _PackageLoader._parts: which members become parts, and which look-ups may fail


@contract("C16", "C16.opc.package._PackageLoader._parts", replay=_replay_rels, timeout_ms=30000)
def _loader_parts(c):
    """parts = one part per name that the relationship walk reached, other than the package itself, and that the physical
    package contains -- each built from its own name, its own content type and its own bytes.  A reached name that is NOT in
    the package (dangling target) is skipped without any look-up for it: a KeyError can only come from a member that is
    present but has no content type."""
    from pptx.opc.package import _PackageLoader
    from pyvc.gsets import str_key

    c.summaries.update(OPTIONS)
    rd = GReader()
    DECL = z3.Function("CONTENT_TYPE_DECLARED", z3.StringSort(), z3.BoolSort())
    CTOF = z3.Function("CONTENT_TYPE_OF", z3.StringSort(), z3.StringSort())
    PARTID = z3.Function("PART_BUILT", z3.StringSort(), z3.StringSort(), z3.IntSort(), z3.IntSort())  # (name, content type, blob) -> part identity

    class _CT:
        __pyvc_symbolic__ = True

        def sym_getitem(self, it, key):
            from pyvc.engine import PyRaise

            k = name_key(key)
            if not it.path.branch(DECL(k)):
                raise PyRaise(KeyError, ("no content-type for partname",))
            return SStr([Atom("content_type", zs=CTOF(k))])

    xml_rels = GDict.symbolic("xml_rels", key_of=name_key, vsort=z3.IntSort(), wrap=lambda v: z3.IntVal(0), unwrap=lambda t: SObj(None, "rels"))
    xml_rels.key_obj = lambda term: GName(term, "reached_name")
    xml_rels.vsort_out = z3.IntSort()
    xml_rels.wrap_out = lambda part: part.fields["part_id"]
    xml_rels.unwrap_out = lambda t: SObj(None, "part", part_id=t)
    made = []

    def part_factory(it, a, k):
        args = [x for x in a if not isinstance(x, type)]
        name, ct, pkg = args[0], args[1], args[2]
        blob = k.get("blob", args[3] if len(args) > 3 else None)
        made.append((name, ct, pkg, blob))
        return SObj(None, "part", part_id=PARTID(name_key(name), str_key(ct), blob.fields["blob_id"]), built_for=name)

    c.summaries["pptx.opc.package:PartFactory.__new__"] = part_factory
    c.summaries["pptx.opc.package:PartFactory"] = part_factory
    pkg = SObj(None, "package")
    loader = SObj(_PackageLoader, "loader", _content_types=_CT(), _package=pkg, _package_reader=rd, _xml_rels=xml_rels)
    out = c.run(_PackageLoader.__dict__["_parts"]._fget, loader)
    if out.raised:
        c.ensures("post.only_KeyError", out.exc.exc_cls is KeyError)
        w = (c.path.ghost.get("dictcomp_raise_witness") or [None])[-1]
        c.ensures("post.raise_has_a_witness_key", w is not None)
        if w is not None:
            c.ensures("post.KeyError_only_for_a_member_that_is_present", z3.And(rd.PRESENT(w), xml_rels.has(w), w != z3.StringVal("/"), z3.Not(DECL(w))))
        return
    r = out.value
    ok = type(r).__name__ == "GDict"
    c.ensures("post.is_a_mapping_by_name", ok)
    if not ok:
        return
    k = c.input("probe_name", z3.String("probe_name"))
    c.ensures("post.a_part_iff_reached_and_not_root_and_present", z3.Select(r.HAS, k) == z3.And(xml_rels.has(k), k != z3.StringVal("/"), rd.PRESENT(k)))
    c.ensures("post.built_from_own_name_type_and_bytes", z3.Implies(z3.Select(r.HAS, k), z3.Select(r.VAL, k) == PARTID(k, CTOF(k), rd.BLOB(k))))
    c.ensures("post.factory_given_this_package", all(m[2] is pkg for m in made) and len(made) >= 1)


@contract("C16", "C16.opc.package._PackageLoader._load", replay=_replay_rels)
def _loader_load(c):
    """every part gets its relationships loaded from its OWN rels item, resolved against the same parts mapping; the look-up
    xml_rels[partname] cannot fail because every part name is a reached name (post of _parts); the package's own rels item and
    the parts mapping are returned."""
    from pptx.opc.package import _PackageLoader
    from pptx.opc.packuri import PACKAGE_URI
    from pyvc.gsets import foreach_items

    xml_rels = GDict.symbolic("xml_rels", key_of=name_key, vsort=z3.StringSort(), wrap=lambda v: v.fields["owner"], unwrap=lambda t: SObj(None, "rels_item", owner=t))
    calls = []

    def mk_part(t):
        return SObj(None, "part", part_name=t, load_rels_from_xml=GhostFn(lambda it, a, k: calls.append((t, a)), "load_rels_from_xml"))

    parts = GDict.symbolic("parts", key_of=name_key, vsort=z3.StringSort(), wrap=lambda v: v.fields["part_name"], unwrap=mk_part)
    parts.key_obj = lambda term: GName(term, "partname")
    q = z3.String("lq")
    # post of _parts / _xml_rels: every part name is a key of xml_rels, which maps each key to its own rels item; the root is a key
    c.requires(z3.ForAll([q], z3.Implies(parts.has(q), z3.And(xml_rels.has(q), parts.val(q) == q))))
    c.requires(z3.ForAll([q], z3.Implies(xml_rels.has(q), xml_rels.val(q) == q)))
    c.requires(xml_rels.has(z3.StringVal("/")))
    loader = SObj(_PackageLoader, "loader", _parts=parts, _xml_rels=xml_rels)
    c.loop_specs[("pptx.opc.package:_PackageLoader._load", 0)] = foreach_items("C16._load")
    out = c.run(_PackageLoader._load, loader)
    if out.raised:
        c.fails("never_raises", "raised %s" % out.exc)
        return
    if c.path.ghost.get("foreach_done"):
        g = c.path.ghost["generic_item_key"]
        ok = len(calls) == 1
        c.ensures("body.one_load_per_part", ok)
        if ok:
            owner, a = calls[0]
            c.ensures("body.loads_own_rels_item_against_the_parts_mapping", z3.And(owner == g, a[0].fields["owner"] == g) if isinstance(a[0], SObj) and a[1] is parts else False)
        return
    v = out.value
    c.ensures("post.returns_package_rels_and_parts", isinstance(v, tuple) and len(v) == 2 and isinstance(v[0], SObj) and v[1] is parts)
    if isinstance(v, tuple) and isinstance(v[0], SObj):
        c.ensures("post.package_rels_item_is_the_roots", v[0].fields["owner"] == z3.StringVal("/"))

"""C17 -- connector endpoints, group extents, freeform bounds.  DESIGN.md 5/C17."""
from __future__ import annotations

import z3

from pyvc.verify import contract
from pyvc import native

META = {
    "residual": [
        "termination of the upward recursion of CT_GroupShape.recalculate_extents (partial correctness only)",
        "lxml storage of the xfrm attributes: x/y/cx/cy/flipH/flipV are treated as independent abstract fields of the "
        "connector element; that they behave so is the C09 attribute round-trip obligation",
        "IEEE double treated as the reals in the freeform scaling obligations",
    ],
    "trusted_base": ["z3 5.1 unsat answers", "pyvc symbolic executor (cross-checked against CPython in the thorough tier)"],
}

# --------------------------------------------------------------------------------------------
# connector


def _conn(c):
    from pptx.oxml.shapes.connector import CT_Connector
    from pptx.shapes.connector import Connector

    e = c.obj(CT_Connector, "cxnSp", x=c.int("x"), y=c.int("y"), cx=c.int("cx"), cy=c.int("cy"),
              flipH=c.bool("flipH"), flipV=c.bool("flipV"))
    # type invariant of the pre-state: a:ext/@cx, @cy are ST_PositiveCoordinate
    c.requires(e.fields["cx"] >= 0)
    c.requires(e.fields["cy"] >= 0)
    conn = c.obj(Connector, "connector", _element=e)
    return conn, e


def _begin(f, axis):
    p, d, fl = (f["x"], f["cx"], f["flipH"]) if axis == "x" else (f["y"], f["cy"], f["flipV"])
    return z3.If(fl, p + d, p)


def _end(f, axis):
    p, d, fl = (f["x"], f["cx"], f["flipH"]) if axis == "x" else (f["y"], f["cy"], f["flipV"])
    return z3.If(fl, p, p + d)


def _replay_setter(which, axis):
    def replay(model, rec):
        g = lambda k, d=0: native.num(model.get(k, d))
        conn = native.connector_with(g("x"), g("y"), g("cx"), g("cy"), g("flipH", False), g("flipV", False))
        before = dict(bx=conn.begin_x, by=conn.begin_y, ex=conn.end_x, ey=conn.end_y)
        v = g("v")
        setattr(conn, "%s_%s" % (which, axis), v)
        after = dict(bx=conn.begin_x, by=conn.begin_y, ex=conn.end_x, ey=conn.end_y, cx=conn._element.cx, cy=conn._element.cy)
        moved = "%s%s" % (which[0], axis)
        bad = []
        if after[moved] != int(v):
            bad.append("%s reads %s after assigning %s" % (moved, after[moved], v))
        for k in ("bx", "by", "ex", "ey"):
            if k != moved and after[k] != before[k]:
                bad.append("%s changed %s -> %s" % (k, before[k], after[k]))
        if after["cx"] < 0 or after["cy"] < 0:
            bad.append("negative extent cx=%s cy=%s" % (after["cx"], after["cy"]))
        return {"confirmed": bool(bad), "detail": bad or "real code satisfies the clause on this input",
                "witness_class": "connector-%s_%s" % (which, axis), "input": {k: g(k) for k in model}}

    return replay


def _setter_contract(which, axis):
    from pptx.shapes.connector import Connector

    prop = getattr(Connector, "%s_%s" % (which, axis))
    other_axis = "y" if axis == "x" else "x"

    @contract("C17", "C17.shapes.connector.Connector.%s_%s.fset" % (which, axis), replay=_replay_setter(which, axis),
              expect_paths=6)
    def body(c, prop=prop):
        """Moving one endpoint coordinate changes only it; the other endpoint stays; extents stay >= 0."""
        conn, e = _conn(c)
        v = c.int("v")
        pre = e.snapshot()
        out = c.run(prop.fset, conn, v)
        post = e.fields
        if out.raised:
            c.fails("raises", "setter raised %s" % out.exc)
            return
        moved, fixed = (_begin, _end) if which == "begin" else (_end, _begin)
        c.ensures("post.moved", moved(post, axis) == v)
        c.ensures("post.other_endpoint_fixed", fixed(post, axis) == fixed(pre, axis))
        d = "cx" if axis == "x" else "cy"
        c.ensures("post.extent_nonneg", post[d] >= 0)
        oa = other_axis
        od = "cx" if oa == "x" else "cy"
        ofl = "flipH" if oa == "x" else "flipV"
        c.ensures("frame.other_axis", z3.And(post[oa] == pre[oa], post[od] == pre[od], post[ofl] == pre[ofl]))
        c.ensures("frame.no_new_fields", set(post) == set(pre))
        c.mustfail("mustfail.position_unchanged", post[axis] == pre[axis])

    return body


for _w in ("begin", "end"):
    for _a in ("x", "y"):
        _setter_contract(_w, _a)


def _getter_contract(which, axis):
    from pptx.shapes.connector import Connector

    prop = getattr(Connector, "%s_%s" % (which, axis))

    @contract("C17", "C17.shapes.connector.Connector.%s_%s.fget" % (which, axis))
    def body(c, prop=prop):
        """Getter returns the begin/end coordinate of the abstract connector view, changes nothing."""
        conn, e = _conn(c)
        pre = e.snapshot()
        out = c.run(prop.fget, conn)
        if out.raised:
            c.fails("raises", "getter raised %s" % out.exc)
            return
        spec = (_begin if which == "begin" else _end)(pre, axis)
        c.ensures("post.value", out.value == spec)
        c.ensures("frame.pure", z3.And(*[e.fields[k] == pre[k] for k in pre]))

    return body


for _w in ("begin", "end"):
    for _a in ("x", "y"):
        _getter_contract(_w, _a)


def _replay_add(model, rec):
    from pptx.enum.shapes import MSO_CONNECTOR

    g = lambda k: native.num(model.get(k, 0))
    slide = native.blank_slide()
    conn = slide.shapes.add_connector(MSO_CONNECTOR.STRAIGHT, g("bx"), g("by"), g("ex"), g("ey"))
    got = (conn.begin_x, conn.begin_y, conn.end_x, conn.end_y)
    want = (g("bx"), g("by"), g("ex"), g("ey"))
    return {"confirmed": got != want, "detail": "created with %s reads %s" % (want, got), "witness_class": "connector-create"}


@contract("C17", "C17.shapes.shapetree._BaseGroupShapes._add_cxnSp", replay=_replay_add)
def _add_cxnSp(c):
    """A connector reports the begin and end points it was created with (and cx, cy >= 0)."""
    from pptx.shapes.shapetree import _BaseGroupShapes
    from pptx.enum.shapes import MSO_CONNECTOR

    bx, by, ex, ey = c.int("bx"), c.int("by"), c.int("ex"), c.int("ey")
    captured = {}

    from pyvc.engine import SObj, GhostFn

    def add_cxnSp(it, args, kw):
        captured["args"] = args
        return "cxnSp"

    sp = SObj(None, "spTree")
    sp.fields["add_cxnSp"] = GhostFn(add_cxnSp)  # ghost receiver: records what the real code passes on
    shapes = c.obj(_BaseGroupShapes, "shapes", _element=sp, _next_shape_id=c.int("next_id"))
    out = c.run(_BaseGroupShapes._add_cxnSp, shapes, MSO_CONNECTOR.STRAIGHT, bx, by, ex, ey)
    if out.raised:
        c.fails("raises", "raised %s" % out.exc)
        return
    (id_, name, ctype, x, y, cx, cy, flipH, flipV) = captured["args"]
    f = dict(x=x, y=y, cx=cx, cy=cy, flipH=flipH, flipV=flipV)
    c.ensures("post.begin_x", _begin(f, "x") == bx)
    c.ensures("post.begin_y", _begin(f, "y") == by)
    c.ensures("post.end_x", _end(f, "x") == ex)
    c.ensures("post.end_y", _end(f, "y") == ey)
    c.ensures("post.extents_nonneg", z3.And(cx >= 0, cy >= 0))
    c.ensures("post.id_passed", id_ == shapes.fields["_next_shape_id"])




# --------------------------------------------------------------------------------------------
# group extents


def _shape_seq(c, tag):
    """Symbolic-length sequence of member shapes with abstract geometry X,Y,CX,CY (uninterpreted)."""
    from pyvc.engine import SSeq, SObj
    from pptx.oxml.shapes.shared import BaseShapeElement

    n = c.int("n_" + tag)
    X, Y = z3.Function("X_" + tag, z3.IntSort(), z3.IntSort()), z3.Function("Y_" + tag, z3.IntSort(), z3.IntSort())
    CX, CY = z3.Function("CX_" + tag, z3.IntSort(), z3.IntSort()), z3.Function("CY_" + tag, z3.IntSort(), z3.IntSort())
    c.requires(n >= 0)
    seq = SSeq(n, lambda i: SObj(BaseShapeElement, "member", x=X(i), y=Y(i), cx=CX(i), cy=CY(i)), name="members")
    return n, X, Y, CX, CY, seq


def _is_bbox(n, X, Y, CX, CY, x, y, cx, cy):
    """(x, y, cx, cy) is the bounding box of members 0..n-1 (n >= 1)."""
    j = z3.Int("jb")
    inside = z3.ForAll([j], z3.Implies(z3.And(0 <= j, j < n), z3.And(x <= X(j), y <= Y(j), X(j) + CX(j) <= x + cx, Y(j) + CY(j) <= y + cy)))
    a, b, d, e = z3.Ints("wa wb wd we")
    tight = z3.Exists([a, b, d, e], z3.And(0 <= a, a < n, 0 <= b, b < n, 0 <= d, d < n, 0 <= e, e < n,
                                            x == X(a), y == Y(b), x + cx == X(d) + CX(d), y + cy == Y(e) + CY(e)))
    return z3.And(inside, tight)


def _replay_child_extents(model, rec):
    # a 2-member witness is enough for every way the bounding-box clause can fail
    import random

    from pptx.util import Emu

    rnd = random.Random(17)
    for trial in range(200):
        slide = native.blank_slide()
        grp = slide.shapes.add_group_shape()
        members = []
        for _ in range(rnd.randint(1, 4)):
            x, y, cx, cy = rnd.randint(-50, 50), rnd.randint(-50, 50), rnd.randint(0, 60), rnd.randint(0, 60)
            grp.shapes.add_textbox(Emu(x), Emu(y), Emu(cx), Emu(cy))
            members.append((x, y, cx, cy))
        want = (min(m[0] for m in members), min(m[1] for m in members))
        want += (max(m[0] + m[2] for m in members) - want[0], max(m[1] + m[3] for m in members) - want[1])
        got = (grp.left, grp.top, grp.width, grp.height)
        if got != want:
            return {"confirmed": True, "detail": "members %s: group reports %s, bounding box is %s" % (members, got, want),
                    "witness_class": "group-extents"}
    return {"confirmed": False, "detail": "200 random groups agree with their bounding box"}


@contract("C17", "C17.oxml.shapes.groupshape.CT_GroupShape._child_extents.fget", replay=_replay_child_extents)
def _child_extents(c):
    """_child_extents == bounding box of the member shapes; (0,0,0,0) for an empty group."""
    from pyvc.engine import GhostFn
    from pptx.oxml.shapes.groupshape import CT_GroupShape

    n, X, Y, CX, CY, seq = _shape_seq(c, "m")
    grp = c.obj(CT_GroupShape, "grpSp", iter_shape_elms=GhostFn(lambda it, a, k: seq))
    out = c.run(CT_GroupShape._child_extents.fget, grp)
    if out.raised:
        c.fails("raises", "raised %s" % out.exc)
        return
    x, y, cx, cy = out.value
    c.ensures("post.bbox", z3.If(n == 0, z3.And(x == 0, y == 0, cx == 0, cy == 0), _is_bbox(n, X, Y, CX, CY, x, y, cx, cy)))
    c.mustfail("mustfail.cx_is_max_width", z3.Implies(n > 0, z3.Exists([z3.Int("q")], cx == CX(z3.Int("q")))))


@contract("C17", "C17.oxml.shapes.groupshape.CT_GroupShape.recalculate_extents", replay=_replay_child_extents)
def _recalculate_extents(c):
    """After the call a p:grpSp's off/ext and chOff/chExt equal its child extents and the parent is
    asked to recalculate (recursion is modular: the parent call is checked against this same
    contract); any other element (p:spTree) is left untouched."""
    from pyvc.engine import GhostFn, SObj
    from pptx.oxml.ns import qn
    from pptx.oxml.shapes.groupshape import CT_GroupShape

    is_grp = c.bool("is_grpSp")
    tag = qn("p:grpSp") if c.branch(is_grp) else qn("p:spTree")
    ex = tuple(c.int(k) for k in ("ex_x", "ex_y", "ex_cx", "ex_cy"))
    calls = []
    parent = SObj(None, "parent", recalculate_extents=GhostFn(lambda it, a, k: calls.append(1)))
    chOff = SObj(None, "chOff", x=c.int("chOff_x"), y=c.int("chOff_y"))
    chExt = SObj(None, "chExt", cx=c.int("chExt_cx"), cy=c.int("chExt_cy"))
    grp = c.obj(CT_GroupShape, "grpSp", tag=tag, _child_extents=ex, chOff=chOff, chExt=chExt,
                x=c.int("x"), y=c.int("y"), cx=c.int("cx"), cy=c.int("cy"),
                getparent=GhostFn(lambda it, a, k: parent))
    pre = grp.snapshot()
    pre_off, pre_ext = chOff.snapshot(), chExt.snapshot()
    out = c.run(CT_GroupShape.recalculate_extents, grp)
    if out.raised:
        c.fails("raises", "raised %s" % out.exc)
        return
    f = grp.fields
    if tag == qn("p:grpSp"):
        c.ensures("post.offset", z3.And(f["x"] == ex[0], f["y"] == ex[1], chOff.fields["x"] == ex[0], chOff.fields["y"] == ex[1]))
        c.ensures("post.extent", z3.And(f["cx"] == ex[2], f["cy"] == ex[3], chExt.fields["cx"] == ex[2], chExt.fields["cy"] == ex[3]))
        c.ensures("post.parent_recalculated_once", len(calls) == 1)
    else:
        c.ensures("frame.non_group_untouched", z3.And(*[f[k] == pre[k] for k in ("x", "y", "cx", "cy")] +
                                                      [chOff.fields[k] == pre_off[k] for k in pre_off] +
                                                      [chExt.fields[k] == pre_ext[k] for k in pre_ext]))
        c.ensures("post.no_parent_call", len(calls) == 0)


# --------------------------------------------------------------------------------------------
# freeform


def _builder(c, with_offsets=False):
    """FreeformBuilder with a symbolic-length operation list: op j is a _Close when CLOSE(j),
    otherwise a line/move to (PX(j), PY(j))."""
    from pyvc.engine import SSeq, SObj
    from pptx.shapes.freeform import FreeformBuilder, _Close, _LineSegment, _MoveTo

    n = c.int("n_ops")
    c.requires(n >= 0)
    PX = z3.Function("PX", z3.IntSort(), z3.IntSort())
    PY = z3.Function("PY", z3.IntSort(), z3.IntSort())
    CLOSE = z3.Function("CLOSE", z3.IntSort(), z3.BoolSort())
    MOVE = z3.Function("MOVE", z3.IntSort(), z3.BoolSort())
    b = c.obj(FreeformBuilder, "builder", _start_x=c.int("start_x"), _start_y=c.int("start_y"),
              _x_scale=c.real("x_scale"), _y_scale=c.real("y_scale"))

    def elem(it, k):
        which = it.path.fork([CLOSE(k), z3.And(z3.Not(CLOSE(k)), MOVE(k)), z3.And(z3.Not(CLOSE(k)), z3.Not(MOVE(k)))])
        if which == 0:
            return SObj(_Close, "close")
        return SObj(_MoveTo if which == 1 else _LineSegment, "op", _freeform_builder=b, _x=PX(k), _y=PY(k))

    b.fields["_drawing_operations"] = SSeq(n, lambda i: elem(c.interp, i), name="ops")
    return b, n, PX, PY, CLOSE, elem


def _minspec(n, P, CLOSE, start, m, k=None):
    """m is the minimum of start and P(j) over the non-close ops j < k (k defaults to n)."""
    k = n if k is None else k
    j = z3.Int("jm")
    w = z3.Int("wm")
    return z3.And(m <= start,
                  z3.ForAll([j], z3.Implies(z3.And(0 <= j, j < k, z3.Not(CLOSE(j))), m <= P(j))),
                  z3.Or(m == start, z3.Exists([w], z3.And(0 <= w, w < k, z3.Not(CLOSE(w)), m == P(w)))))


def _maxspec(n, P, CLOSE, start, m, k=None):
    k = n if k is None else k
    j = z3.Int("jx")
    w = z3.Int("wx")
    return z3.And(m >= start,
                  z3.ForAll([j], z3.Implies(z3.And(0 <= j, j < k, z3.Not(CLOSE(j))), m >= P(j))),
                  z3.Or(m == start, z3.Exists([w], z3.And(0 <= w, w < k, z3.Not(CLOSE(w)), m == P(w)))))


def _replay_freeform(model, rec):
    import random

    rnd = random.Random(5)
    for trial in range(150):
        slide = native.blank_slide()
        sx, sy = rnd.choice([1.0, 2.5, 0.3, 100.0]), rnd.choice([1.0, 0.75, 12.0])
        start = (rnd.randint(-40, 40), rnd.randint(-40, 40))
        fb = slide.shapes.build_freeform(start[0], start[1], scale=(sx, sy))
        pts = [start]
        for _ in range(rnd.randint(1, 3)):
            seg = [(rnd.randint(-60, 60) + rnd.choice([0, 0.5]), rnd.randint(-60, 60)) for _ in range(rnd.randint(1, 4))]
            fb.add_line_segments(seg, close=rnd.random() < 0.5)
            pts += seg
            if rnd.random() < 0.4:
                mv = (rnd.randint(-60, 60), rnd.randint(-60, 60))
                fb.move_to(*mv)
                pts.append(mv)
        ox, oy = rnd.randint(-100, 100), rnd.randint(-100, 100)
        shp = fb.convert_to_shape(ox, oy)
        xs = [int(round(p[0])) for p in pts]
        ys = [int(round(p[1])) for p in pts]
        want = (ox + int(round(min(xs) * sx)), oy + int(round(min(ys) * sy)), int(round((max(xs) - min(xs)) * sx)), int(round((max(ys) - min(ys)) * sy)))
        got = (shp.left, shp.top, shp.width, shp.height)
        path = shp._element.spPr.custGeom.pathLst.path_lst[0] if hasattr(shp._element.spPr.custGeom.pathLst, "path_lst") else None
        bad = []
        if got != want:
            bad.append("shape reports %s, scaled bounding box is %s" % (got, want))
        from lxml import etree
        for pt in shp._element.xpath(".//a:pathLst/a:path//a:pt"):
            px, py = int(pt.get("x")), int(pt.get("y"))
            w = int(shp._element.xpath(".//a:pathLst/a:path/@w")[0]); h = int(shp._element.xpath(".//a:pathLst/a:path/@h")[0])
            if not (0 <= px <= w and 0 <= py <= h):
                bad.append("path point (%d,%d) outside extents (%d,%d)" % (px, py, w, h))
        if bad:
            return {"confirmed": True, "detail": bad, "witness_class": "freeform-bounds"}
    return {"confirmed": False, "detail": "150 random freeforms agree"}


def _freeform_loop_contract(attr, axis, kind):
    """shape_offset_x/_y (min) and _dx/_dy (max - min) over an unbounded operation list."""
    from pyvc.engine import invariant_loop
    from pptx.shapes.freeform import FreeformBuilder

    prop = getattr(FreeformBuilder, attr)
    qn = "pptx.shapes.freeform:FreeformBuilder.%s" % attr

    @contract("C17", "C17.shapes.freeform.FreeformBuilder.%s.fget" % attr, replay=_replay_freeform)
    def body(c):
        b, n, PX, PY, CLOSE, elem = _builder(c)
        P = PX if axis == "x" else PY
        start = b.fields["_start_x" if axis == "x" else "_start_y"]
        lo, hi = "min_" + axis, "max_" + axis
        if kind == "min":
            inv = lambda env, k: _minspec(n, P, CLOSE, start, env[lo], k)
            mods = [lo]
        else:
            inv = lambda env, k: z3.And(_minspec(n, P, CLOSE, start, env[lo], k), _maxspec(n, P, CLOSE, start, env[hi], k))
            mods = [lo, hi]
        c.loop_specs[(qn, 0)] = invariant_loop("C17.shapes.freeform.FreeformBuilder.%s.loop0" % attr, mods, inv, elem=elem)
        out = c.run(prop.fget, b)
        if out.raised:
            c.fails("raises", "raised %s" % out.exc)
            return
        r = out.value
        if kind == "min":
            c.ensures("post.is_min", _minspec(n, P, CLOSE, start, r))
        else:
            mn, mx = z3.Ints("gmin gmax")
            c.ensures("post.is_max_minus_min", z3.Exists([mn, mx], z3.And(_minspec(n, P, CLOSE, start, mn), _maxspec(n, P, CLOSE, start, mx), r == mx - mn)))
            c.ensures("post.nonneg", r >= 0)

    return body


_freeform_loop_contract("shape_offset_x", "x", "min")
_freeform_loop_contract("shape_offset_y", "y", "min")
_freeform_loop_contract("_dx", "x", "span")
_freeform_loop_contract("_dy", "y", "span")


@contract("C17", "C17.shapes.freeform.FreeformBuilder._add_freeform_sp", replay=_replay_freeform)
def _add_freeform_sp(c):
    """position = origin + round(offset*scale), size = round(d*scale) (modular: shape_offset_*/_dx/_dy
    enter through their proved contracts as abstract fields)."""
    from pyvc.engine import GhostFn, SObj, real_round_half_even, to_real
    from pptx.shapes.freeform import FreeformBuilder

    got = {}
    spTree = SObj(None, "spTree", add_freeform_sp=GhostFn(lambda it, a, k: got.setdefault("a", a) and SObj(None, "sp", shape_id=0)))
    shapes = SObj(None, "shapes", _spTree=spTree, _register_shape_id=GhostFn(lambda it, a, k: None))
    offx, offy, dx, dy = c.int("offset_x"), c.int("offset_y"), c.int("dx"), c.int("dy")
    c.requires(z3.And(dx >= 0, dy >= 0))  # proved post of _dx/_dy
    sx, sy = c.real("x_scale"), c.real("y_scale")
    b = c.obj(FreeformBuilder, "builder", _shapes=shapes, shape_offset_x=offx, shape_offset_y=offy, _dx=dx, _dy=dy,
              _x_scale=sx, _y_scale=sy)
    ox, oy = c.int("origin_x"), c.int("origin_y")
    out = c.run(FreeformBuilder._add_freeform_sp, b, ox, oy)
    if out.raised:
        c.fails("raises", "raised %s" % out.exc)
        return
    x, y, cx, cy = got["a"]
    rr = real_round_half_even
    c.ensures("post.position", z3.And(x == ox + rr(to_real(offx) * sx), y == oy + rr(to_real(offy) * sy)))
    c.ensures("post.size", z3.And(cx == rr(to_real(dx) * sx), cy == rr(to_real(dy) * sy)))
    c.ensures("post.size_nonneg_for_nonneg_scale", z3.Implies(z3.And(sx >= 0, sy >= 0), z3.And(cx >= 0, cy >= 0)))


def _op_contract(clsname, meth):
    @contract("C17", "C17.shapes.freeform.%s.apply_operation_to" % clsname, replay=_replay_freeform)
    def body(c):
        """Every path coordinate written lies within the path extents: 0 <= x - offset_x <= dx (uses the
        contracts of shape_offset_*, _dx, _dy)."""
        from pyvc.engine import GhostFn, SObj
        import pptx.shapes.freeform as ff

        cls = getattr(ff, clsname)
        n = c.int("n_ops")
        PX = z3.Function("PX", z3.IntSort(), z3.IntSort())
        PY = z3.Function("PY", z3.IntSort(), z3.IntSort())
        CLOSE = z3.Function("CLOSE", z3.IntSort(), z3.BoolSort())
        sxx, syy = c.int("start_x"), c.int("start_y")
        mnx, mny, mxx, mxy = c.int("min_x"), c.int("min_y"), c.int("max_x"), c.int("max_y")
        # callee contracts (proved above) describe the builder's derived quantities
        c.requires(z3.And(_minspec(n, PX, CLOSE, sxx, mnx), _minspec(n, PY, CLOSE, syy, mny),
                          _maxspec(n, PX, CLOSE, sxx, mxx), _maxspec(n, PY, CLOSE, syy, mxy)))
        b = SObj(ff.FreeformBuilder, "builder", shape_offset_x=mnx, shape_offset_y=mny, _dx=mxx - mnx, _dy=mxy - mny)
        j = c.int("j")
        c.requires(z3.And(0 <= j, j < n, z3.Not(CLOSE(j))))
        op = SObj(cls, "op", _freeform_builder=b, _x=PX(j), _y=PY(j))
        got = {}
        path = SObj(None, "path", **{meth: GhostFn(lambda it, a, k: got.setdefault("a", a) and "pt")})
        out = c.run(cls.apply_operation_to, op, path)
        if out.raised:
            c.fails("raises", "raised %s" % out.exc)
            return
        x, y = got["a"]
        c.ensures("post.within_extents", z3.And(0 <= x, x <= b.fields["_dx"], 0 <= y, y <= b.fields["_dy"]))
        c.ensures("post.shape_coordinates", z3.And(x == PX(j) - mnx, y == PY(j) - mny))

    return body


_op_contract("_LineSegment", "add_lnTo")
_op_contract("_MoveTo", "add_moveTo")


@contract("C17", "C17.shapes.freeform.FreeformBuilder._start_path", replay=_replay_freeform)
def _start_path(c):
    """The path is created with extents (dx, dy) and starts at the start point in shape coordinates, inside the extents."""
    from pyvc.engine import GhostFn, SObj
    import pptx.shapes.freeform as ff

    n = c.int("n_ops")
    PX = z3.Function("PX", z3.IntSort(), z3.IntSort())
    PY = z3.Function("PY", z3.IntSort(), z3.IntSort())
    CLOSE = z3.Function("CLOSE", z3.IntSort(), z3.BoolSort())
    sxx, syy = c.int("start_x"), c.int("start_y")
    mnx, mny, mxx, mxy = c.int("min_x"), c.int("min_y"), c.int("max_x"), c.int("max_y")
    c.requires(z3.And(_minspec(n, PX, CLOSE, sxx, mnx), _minspec(n, PY, CLOSE, syy, mny),
                      _maxspec(n, PX, CLOSE, sxx, mxx), _maxspec(n, PY, CLOSE, syy, mxy)))
    b = SObj(ff.FreeformBuilder, "builder", shape_offset_x=mnx, shape_offset_y=mny, _dx=mxx - mnx, _dy=mxy - mny,
             _start_x=sxx, _start_y=syy)
    got = {}
    path = SObj(None, "path", add_moveTo=GhostFn(lambda it, a, k: got.setdefault("mv", a) and "pt"))
    sp = SObj(None, "sp", add_path=GhostFn(lambda it, a, k: (got.setdefault("wh", k), path)[1]))
    out = c.run(ff.FreeformBuilder._start_path, b, sp)
    if out.raised:
        c.fails("raises", "raised %s" % out.exc)
        return
    x, y = got["mv"]
    c.ensures("post.extents", z3.And(got["wh"]["w"] == mxx - mnx, got["wh"]["h"] == mxy - mny))
    c.ensures("post.start_within", z3.And(0 <= x, x <= mxx - mnx, 0 <= y, y <= mxy - mny))


def _new_contract(clsname):
    @contract("C17", "C17.shapes.freeform.%s.new" % clsname)
    def body(c):
        """Vertices are rounded half-even to integers before use."""
        from pyvc.engine import SObj, real_round_half_even
        import pptx.shapes.freeform as ff

        cls = getattr(ff, clsname)
        x, y = c.real("x"), c.real("y")
        b = SObj(ff.FreeformBuilder, "builder")
        out = c.call(cls.new, b, x, y)
        if out.raised:
            c.fails("raises", "raised %s" % out.exc)
            return
        op = out.value
        c.ensures("post.rounded", z3.And(op.fields["_x"] == real_round_half_even(x), op.fields["_y"] == real_round_half_even(y)))
        c.ensures("post.builder", op.fields["_freeform_builder"] is b)

    return body


_new_contract("_LineSegment")
_new_contract("_MoveTo")


# ---------------------------------------------------------------------------------------------------------
# BOUNDED: the same geometry facts through the public API on real shapes


def _native_geometry(tier="quick", seed=0):
    import itertools
    import time as _t

    from pptx import Presentation
    from pptx.enum.shapes import MSO_CONNECTOR, MSO_SHAPE
    from pptx.util import Emu

    from .c09 import connector_refusal_probes

    t0 = _t.time()
    obls, evals = [], 0

    def rec(name, bad):
        r = {"name": name, "base": name, "kind": "bounded", "status": "refuted" if bad else "discharged", "backend": "native", "time": 0, "path": 0}
        if bad:
            r["replay"] = {"confirmed": True, "witness_class": "geometry", "detail": bad}
            r["model"] = None
        obls.append(r)

    for lbl, bad in connector_refusal_probes():
        rec("C17.native." + lbl, bad)
    # connectors: every direction, every end moved before / between / beyond the other end; the other end never moves
    bad = None
    pts = [100, 3000, 9000]
    for bx, by, ex, ey in itertools.product(pts, repeat=4):
        prs = Presentation()
        sl = prs.slides.add_slide(prs.slide_layouts[6])
        cx = sl.shapes.add_connector(MSO_CONNECTOR.STRAIGHT, Emu(bx), Emu(by), Emu(ex), Emu(ey))
        evals += 1
        got = (cx.begin_x, cx.begin_y, cx.end_x, cx.end_y)
        if got != (bx, by, ex, ey):
            bad = bad or "add_connector(%d, %d, %d, %d) reads back %r" % (bx, by, ex, ey, got)
            continue
        if (cx.left, cx.top, cx.width, cx.height) != (min(bx, ex), min(by, ey), abs(bx - ex), abs(by - ey)):
            bad = bad or "add_connector(%d, %d, %d, %d): box (left, top, width, height) = %r" % (bx, by, ex, ey, (cx.left, cx.top, cx.width, cx.height))
        for attr, idx in (("begin_x", 0), ("begin_y", 1), ("end_x", 2), ("end_y", 3)):
            for v in (0, 50, 3000, 5000, 9000, 20000):
                # each move from the pristine connector (so that every crossing really happens), then a second move on top of it
                c2 = sl.shapes.add_connector(MSO_CONNECTOR.STRAIGHT, Emu(bx), Emu(by), Emu(ex), Emu(ey))
                want = [bx, by, ex, ey]
                for a2, i2, v2 in ((attr, idx, v), (("end_y", 3, 4000) if attr != "end_y" else ("begin_y", 1, 4000))):
                    setattr(c2, a2, Emu(v2))
                    want[i2] = v2
                    evals += 1
                    got = [c2.begin_x, c2.begin_y, c2.end_x, c2.end_y]
                    if got != want:
                        bad = bad or "connector (%d, %d, %d, %d): after %s = %d it reads %r, expected %r" % (bx, by, ex, ey, a2, v2, tuple(got), tuple(want))
                c2._element.getparent().remove(c2._element)
    rec("C17.native.connector_end_points_read_back_and_are_independent", bad)
    # groups: the group's box is the bounding box of its members (also zero-width / zero-height members), upward through nesting
    bad = None

    def bbox(shapes):
        xs = [(s.left, s.top, s.left + s.width, s.top + s.height) for s in shapes]
        return (min(x[0] for x in xs), min(x[1] for x in xs), max(x[2] for x in xs), max(x[3] for x in xs))

    prs = Presentation()
    sl = prs.slides.add_slide(prs.slide_layouts[6])
    outer = sl.shapes.add_group_shape()
    inner = outer.shapes.add_group_shape()
    steps = [
        lambda: inner.shapes.add_shape(MSO_SHAPE.RECTANGLE, Emu(1000), Emu(1000), Emu(800), Emu(700)),
        lambda: inner.shapes.add_connector(MSO_CONNECTOR.STRAIGHT, Emu(500), Emu(1200), Emu(4000), Emu(1200)),   # horizontal: zero height
        lambda: inner.shapes.add_connector(MSO_CONNECTOR.STRAIGHT, Emu(1500), Emu(100), Emu(1500), Emu(6000)),   # vertical: zero width
        lambda: outer.shapes.add_textbox(Emu(10), Emu(20), Emu(30), Emu(40)),
        lambda: inner.shapes.add_connector(MSO_CONNECTOR.STRAIGHT, Emu(9000), Emu(9000), Emu(8000), Emu(200)),   # flipped
        lambda: outer.shapes.add_picture(__import__("io").BytesIO(_png()), Emu(20000), Emu(5), Emu(10), Emu(10)),
    ]
    for k, st in enumerate(steps):
        st()
        evals += 1
        for g, name in ((inner, "inner group"), (outer, "outer group")):
            members = list(g.shapes)
            if not members:
                continue
            bb = bbox(members)
            box = (g.left, g.top, g.left + g.width, g.top + g.height)
            if box != bb:
                bad = bad or "after step %d the %s spans %r, its members span %r" % (k, name, box, bb)
            ch = g._element.grpSpPr.xfrm
            if (ch.chOff.x, ch.chOff.y, ch.chExt.cx, ch.chExt.cy) != (g.left, g.top, g.width, g.height):
                bad = bad or "after step %d the %s has child offset / extent %r, own offset / extent %r" % (k, name, (ch.chOff.x, ch.chOff.y, ch.chExt.cx, ch.chExt.cy), (g.left, g.top, g.width, g.height))
    rec("C17.native.group_box_is_the_bounding_box_of_its_members", bad)
    # freeform builder: the shape made is the bounding box of the vertices drawn so far -- also when the same builder is converted a
    # second time after more vertices (further left / up / right / down) were added, with scaling
    bad = None
    for scale in (1.0, 2.5, (3.0, 0.5)):
        for start in ((1000, 1000), (0, 0), (-500, 700)):
            prs = Presentation()
            sl = prs.slides.add_slide(prs.slide_layouts[6])
            fb = sl.shapes.build_freeform(start[0], start[1], scale=scale)
            xs, ys = [start[0]], [start[1]]
            sx, sy = (scale if isinstance(scale, tuple) else (scale, scale))
            for more in ([(1500, 1200), (1300, 2000)], [(200, 300)], [(4000, 100), (50, 5000)], [(-900, -800)]):
                fb.add_line_segments(more, close=False)
                xs += [p_[0] for p_ in more]
                ys += [p_[1] for p_ in more]
                _ = fb.shape_offset_x, fb.shape_offset_y
                shp = fb.convert_to_shape(Emu(10), Emu(20))
                evals += 1
                want = (10 + int(round(min(xs) * sx)), 20 + int(round(min(ys) * sy)), int(round((max(xs) - min(xs)) * sx)), int(round((max(ys) - min(ys)) * sy)))
                got = (shp.left, shp.top, shp.width, shp.height)
                if any(abs(a - b) > 1 for a, b in zip(got, want)):
                    bad = bad or "freeform from %r scale %r after %d vertices: (left, top, width, height) = %r, bounding box of the vertices is %r" % (start, scale, len(xs), got, want)
                path = shp._element.xpath(".//a:path")[0]
                w_, h_ = int(path.get("w")), int(path.get("h"))
                for pt in shp._element.xpath(".//a:pt"):
                    if not (0 <= int(pt.get("x")) <= w_ and 0 <= int(pt.get("y")) <= h_):
                        bad = bad or "freeform from %r after %d vertices: path point (%s, %s) outside the path box %d x %d" % (start, len(xs), pt.get("x"), pt.get("y"), w_, h_)
    rec("C17.native.freeform_is_the_bounding_box_of_its_vertices_also_when_the_builder_is_reused", bad)
    rr_ = _replay_new_freeform({}, {})
    evals += 160
    rec("C17.native.freeform_degenerate_extents_and_vertices_from_any_iterable", rr_.get("detail") if rr_.get("confirmed") else None)
    return {"contract": "C17.native_geometry", "prop": "C17", "status": "ok", "obligations": obls, "paths": 0, "assumed": [], "functions": {},
            "notes": [], "solver_s": 0.0, "wall_s": _t.time() - t0,
            "bounded": {"name": "C17.native_geometry", "bound": "81 connectors (3 coordinates per end point) x 4 end points x 6 new positions; refused end-point assignments; nested groups grown by 6 members incl. zero-width / zero-height ones",
                        "evaluations": evals, "samples": [], "counted_as_proved": False}}


def _png():
    import struct
    import zlib

    raw = b"".join(b"\x00" + bytes((1, 2, 3)) * 2 for _ in range(2))
    ch = lambda t, d: struct.pack(">I", len(d)) + t + d + struct.pack(">I", zlib.crc32(t + d) & 0xFFFFFFFF)
    return b"\x89PNG\r\n\x1a\n" + ch(b"IHDR", struct.pack(">IIBBBBB", 2, 2, 8, 2, 0, 0, 0)) + ch(b"IDAT", zlib.compress(raw)) + ch(b"IEND", b"")


JOBS = {"C17.native_geometry": _native_geometry}


# ---------------------------------------------------------------------------------------------------------
# the flips the end-point arithmetic reads: every spelling of xsd:boolean counts


def _replay_flip(model, rec):
    from pptx.oxml import parse_xml
    from pptx.oxml.ns import nsdecls

    for attr in ("flipH", "flipV"):
        for lex, want in (("1", True), ("true", True), ("0", False), ("false", False), (None, False)):
            x = '<a:xfrm%s><a:off x="1" y="2"/><a:ext cx="3" cy="4"/></a:xfrm>' % ("" if lex is None else ' %s="%s"' % (attr, lex))
            sp = parse_xml('<p:cxnSp %s><p:nvCxnSpPr><p:cNvPr id="2" name="c"/><p:cNvCxnSpPr/><p:nvPr/></p:nvCxnSpPr><p:spPr>%s</p:spPr></p:cxnSp>' % (nsdecls("p", "a"), x))
            got = getattr(sp, attr)
            if got is not want:
                return {"confirmed": True, "witness_class": "connector-flip", "detail": "a:xfrm with %s=%r: the connector element reports %s = %r" % (attr, lex, attr, got)}
    return {"confirmed": False, "detail": "both spellings of true / false and absence are read as xsd:boolean"}


def _make_flip(attr, state):
    @contract("C17", "C17.oxml.shapes.shared.BaseShapeElement.%s[%s]" % (attr, state), replay=_replay_flip)
    def body(c):
        """flipH / flipV of a shape element is the xsd:boolean reading of a:xfrm/@flipH|@flipV -- '1' and 'true' are true, '0' and 'false'
        false -- and false without the attribute or without a:xfrm (lexical forms enumerated; the attribute descriptor runs from source)."""
        from pptx.oxml.shapes.connector import CT_Connector
        from pptx.oxml.shapes.shared import CT_Transform2D
        from pyvc.engine import SObj

        from .c09 import AttrElem

        if state == "no a:xfrm":
            xfrm, want = None, False
        elif state == "attribute absent":
            xfrm, want = AttrElem(CT_Transform2D, {}), False
        else:
            xfrm, want = AttrElem(CT_Transform2D, {attr: state}), state in ("1", "true")
        el = SObj(CT_Connector, "cxnSp", xfrm=xfrm)
        out = c.getattr(el, attr)
        if out.raised:
            c.fails("never_raises", "raised %s" % out.exc)
            return
        c.ensures("post.xsd_boolean_reading", out.value is want)

    return body


for _a in ("flipH", "flipV"):
    for _st in ("no a:xfrm", "attribute absent", "1", "true", "0", "false"):
        _make_flip(_a, _st)


# ---------------------------------------------------------------------------------------------------------
# the element a freeform is written as carries exactly the position and size it was asked for (zero extents included)


def _replay_new_freeform(model, rec):
    from pptx.util import Emu

    for pts, what in (([(0, 0), (0, 100)], "vertical line"), ([(0, 0), (100, 0)], "horizontal line"), ([(5, 5), (5, 5)], "one point twice")):
        slide = native.blank_slide()
        fb = slide.shapes.build_freeform(pts[0][0], pts[0][1])
        fb.add_line_segments(pts[1:], close=False)
        shp = fb.convert_to_shape(10, 20)
        xs, ys = [p[0] for p in pts], [p[1] for p in pts]
        want = (10 + min(xs), 20 + min(ys), max(xs) - min(xs), max(ys) - min(ys))
        got = (shp.left, shp.top, shp.width, shp.height)
        w, h = int(shp._element.xpath(".//a:pathLst/a:path/@w")[0]), int(shp._element.xpath(".//a:pathLst/a:path/@h")[0])
        if got != want or (w, h) != want[2:]:
            return {"confirmed": True, "witness_class": "freeform-bounds", "detail": "freeform %s %s: shape reports %s (path extents %s), its bounding box is %s" % (what, pts, got, (w, h), want)}
    # the vertices may be handed over as any iterable, a one-shot one included (zip, generator, map): all of them are used
    pts = [(0, 0), (30, 10), (40, 50), (-5, 20)]
    for label, make in (("list", lambda: list(pts[1:])), ("tuple", lambda: tuple(pts[1:])), ("zip", lambda: zip([p[0] for p in pts[1:]], [p[1] for p in pts[1:]])),
                        ("generator", lambda: (p for p in pts[1:])), ("map", lambda: map(tuple, pts[1:])), ("iter", lambda: iter(pts[1:]))):
        slide = native.blank_slide()
        fb = slide.shapes.build_freeform(*pts[0])
        fb.add_line_segments(make(), close=False)
        shp = fb.convert_to_shape(0, 0)
        xs, ys = [p[0] for p in pts], [p[1] for p in pts]
        want = (min(xs), min(ys), max(xs) - min(xs), max(ys) - min(ys))
        got = (shp.left, shp.top, shp.width, shp.height)
        if got != want or len(shp._element.xpath(".//a:pathLst/a:path/a:lnTo")) != len(pts) - 1:
            return {"confirmed": True, "witness_class": "freeform-bounds", "detail": "vertices given as a %s: shape reports %s with %d line segments, the bounding box of the %d vertices is %s" % (
                label, got, len(shp._element.xpath(".//a:pathLst/a:path/a:lnTo")), len(pts), want)}
    return _replay_freeform(model, rec)


@contract("C17", "C17.oxml.shapes.autoshape.CT_Shape.new_freeform_sp", replay=_replay_new_freeform)
def _new_freeform_sp(c):
    """the p:sp written for a freeform has a:off and a:ext exactly as given -- for all integers, zero included (the markup text handed to
    the parser is inspected: the four numbers are the decimal text of the four arguments)."""
    from pyvc.engine import FmtInt, SObj, SStr
    from pptx.oxml.shapes.autoshape import CT_Shape

    seen = []
    c.summaries["pptx.oxml.shapes.autoshape:parse_xml"] = lambda it, a, k: (seen.append(a[0]), SObj(None, "sp", __external__=True))[1]
    c.summaries["pptx.oxml:parse_xml"] = c.summaries["pptx.oxml.shapes.autoshape:parse_xml"]
    x, y, cx, cy, sid = c.int("x"), c.int("y"), c.int("cx"), c.int("cy"), c.int("shape_id")
    out = c.run(CT_Shape.new_freeform_sp, sid, "Freeform 1", x, y, cx, cy)
    if out.raised:
        c.fails("never_raises", "raised %s" % out.exc)
        return
    c.ensures("post.one_parse", len(seen) == 1 and isinstance(seen[0], SStr))
    if not (len(seen) == 1 and isinstance(seen[0], SStr)):
        return
    parts = seen[0].parts

    def number_after(prefix):
        for i, p_ in enumerate(parts[:-1]):
            if isinstance(p_, str) and p_.endswith(prefix):
                return parts[i + 1]
        return None

    for label, prefix, arg in (("off_x", '<a:off x="', x), ("off_y", '" y="', y), ("ext_cx", '<a:ext cx="', cx), ("ext_cy", '" cy="', cy)):
        piece = number_after(prefix)
        ok = isinstance(piece, FmtInt) and not getattr(piece, "width", None)
        c.ensures("post.%s_is_the_argument" % label, z3.BoolVal(False) if not ok else piece.term == arg)

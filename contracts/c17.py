"""C17 -- connector endpoints, group extents, freeform bounds.  DESIGN.md 5/C17."""
from __future__ import annotations

import z3

from pyvc.verify import contract
from pyvc import native

META = {
    "residual": [
        "termination of the upward recursion of CT_GroupShape.recalculate_extents (partial correctness only)",
        "lxml storage of the xfrm attributes: x/y/cx/cy/flipH/flipV are treated as independent abstract fields of the "
        "connector element; that they behave so is the C09 attribute round-trip obligation",
        "IEEE double treated as the reals in the freeform scaling obligations",
    ],
    "trusted_base": ["z3 5.1 unsat answers", "pyvc symbolic executor (cross-checked against CPython in the thorough tier)"],
}

# --------------------------------------------------------------------------------------------
# connector


def _conn(c):
    from pptx.oxml.shapes.connector import CT_Connector
    from pptx.shapes.connector import Connector

    e = c.obj(CT_Connector, "cxnSp", x=c.int("x"), y=c.int("y"), cx=c.int("cx"), cy=c.int("cy"),
              flipH=c.bool("flipH"), flipV=c.bool("flipV"))
    # type invariant of the pre-state: a:ext/@cx, @cy are ST_PositiveCoordinate
    c.requires(e.fields["cx"] >= 0)
    c.requires(e.fields["cy"] >= 0)
    conn = c.obj(Connector, "connector", _element=e)
    return conn, e


def _begin(f, axis):
    p, d, fl = (f["x"], f["cx"], f["flipH"]) if axis == "x" else (f["y"], f["cy"], f["flipV"])
    return z3.If(fl, p + d, p)


def _end(f, axis):
    p, d, fl = (f["x"], f["cx"], f["flipH"]) if axis == "x" else (f["y"], f["cy"], f["flipV"])
    return z3.If(fl, p, p + d)


def _replay_setter(which, axis):
    def replay(model, rec):
        g = lambda k, d=0: native.num(model.get(k, d))
        conn = native.connector_with(g("x"), g("y"), g("cx"), g("cy"), g("flipH", False), g("flipV", False))
        before = dict(bx=conn.begin_x, by=conn.begin_y, ex=conn.end_x, ey=conn.end_y)
        v = g("v")
        setattr(conn, "%s_%s" % (which, axis), v)
        after = dict(bx=conn.begin_x, by=conn.begin_y, ex=conn.end_x, ey=conn.end_y, cx=conn._element.cx, cy=conn._element.cy)
        moved = "%s%s" % (which[0], axis)
        bad = []
        if after[moved] != int(v):
            bad.append("%s reads %s after assigning %s" % (moved, after[moved], v))
        for k in ("bx", "by", "ex", "ey"):
            if k != moved and after[k] != before[k]:
                bad.append("%s changed %s -> %s" % (k, before[k], after[k]))
        if after["cx"] < 0 or after["cy"] < 0:
            bad.append("negative extent cx=%s cy=%s" % (after["cx"], after["cy"]))
        return {"confirmed": bool(bad), "detail": bad or "real code satisfies the clause on this input",
                "witness_class": "connector-%s_%s" % (which, axis), "input": {k: g(k) for k in model}}

    return replay


def _setter_contract(which, axis):
    from pptx.shapes.connector import Connector

    prop = getattr(Connector, "%s_%s" % (which, axis))
    other_axis = "y" if axis == "x" else "x"

    @contract("C17", "C17.shapes.connector.Connector.%s_%s.fset" % (which, axis), replay=_replay_setter(which, axis),
              expect_paths=6)
    def body(c, prop=prop):
        """Moving one endpoint coordinate changes only it; the other endpoint stays; extents stay >= 0."""
        conn, e = _conn(c)
        v = c.int("v")
        pre = e.snapshot()
        out = c.run(prop.fset, conn, v)
        post = e.fields
        if out.raised:
            c.fails("raises", "setter raised %s" % out.exc)
            return
        moved, fixed = (_begin, _end) if which == "begin" else (_end, _begin)
        c.ensures("post.moved", moved(post, axis) == v)
        c.ensures("post.other_endpoint_fixed", fixed(post, axis) == fixed(pre, axis))
        d = "cx" if axis == "x" else "cy"
        c.ensures("post.extent_nonneg", post[d] >= 0)
        oa = other_axis
        od = "cx" if oa == "x" else "cy"
        ofl = "flipH" if oa == "x" else "flipV"
        c.ensures("frame.other_axis", z3.And(post[oa] == pre[oa], post[od] == pre[od], post[ofl] == pre[ofl]))
        c.ensures("frame.no_new_fields", set(post) == set(pre))
        c.mustfail("mustfail.position_unchanged", post[axis] == pre[axis])

    return body


for _w in ("begin", "end"):
    for _a in ("x", "y"):
        _setter_contract(_w, _a)


def _getter_contract(which, axis):
    from pptx.shapes.connector import Connector

    prop = getattr(Connector, "%s_%s" % (which, axis))

    @contract("C17", "C17.shapes.connector.Connector.%s_%s.fget" % (which, axis))
    def body(c, prop=prop):
        """Getter returns the begin/end coordinate of the abstract connector view, changes nothing."""
        conn, e = _conn(c)
        pre = e.snapshot()
        out = c.run(prop.fget, conn)
        if out.raised:
            c.fails("raises", "getter raised %s" % out.exc)
            return
        spec = (_begin if which == "begin" else _end)(pre, axis)
        c.ensures("post.value", out.value == spec)
        c.ensures("frame.pure", z3.And(*[e.fields[k] == pre[k] for k in pre]))

    return body


for _w in ("begin", "end"):
    for _a in ("x", "y"):
        _getter_contract(_w, _a)


def _replay_add(model, rec):
    from pptx.enum.shapes import MSO_CONNECTOR

    g = lambda k: native.num(model.get(k, 0))
    slide = native.blank_slide()
    conn = slide.shapes.add_connector(MSO_CONNECTOR.STRAIGHT, g("bx"), g("by"), g("ex"), g("ey"))
    got = (conn.begin_x, conn.begin_y, conn.end_x, conn.end_y)
    want = (g("bx"), g("by"), g("ex"), g("ey"))
    return {"confirmed": got != want, "detail": "created with %s reads %s" % (want, got), "witness_class": "connector-create"}


@contract("C17", "C17.shapes.shapetree._BaseGroupShapes._add_cxnSp", replay=_replay_add)
def _add_cxnSp(c):
    """A connector reports the begin and end points it was created with (and cx, cy >= 0)."""
    from pptx.shapes.shapetree import _BaseGroupShapes
    from pptx.enum.shapes import MSO_CONNECTOR

    bx, by, ex, ey = c.int("bx"), c.int("by"), c.int("ex"), c.int("ey")
    captured = {}

    from pyvc.engine import SObj, GhostFn

    def add_cxnSp(it, args, kw):
        captured["args"] = args
        return "cxnSp"

    sp = SObj(None, "spTree")
    sp.fields["add_cxnSp"] = GhostFn(add_cxnSp)  # ghost receiver: records what the real code passes on
    shapes = c.obj(_BaseGroupShapes, "shapes", _element=sp, _next_shape_id=c.int("next_id"))
    out = c.run(_BaseGroupShapes._add_cxnSp, shapes, MSO_CONNECTOR.STRAIGHT, bx, by, ex, ey)
    if out.raised:
        c.fails("raises", "raised %s" % out.exc)
        return
    (id_, name, ctype, x, y, cx, cy, flipH, flipV) = captured["args"]
    f = dict(x=x, y=y, cx=cx, cy=cy, flipH=flipH, flipV=flipV)
    c.ensures("post.begin_x", _begin(f, "x") == bx)
    c.ensures("post.begin_y", _begin(f, "y") == by)
    c.ensures("post.end_x", _end(f, "x") == ex)
    c.ensures("post.end_y", _end(f, "y") == ey)
    c.ensures("post.extents_nonneg", z3.And(cx >= 0, cy >= 0))
    c.ensures("post.id_passed", id_ == shapes.fields["_next_shape_id"])



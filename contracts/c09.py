"""C09 -- a property reads back as set; None restores inheritance.  DESIGN.md 5/C09.

Part A: every OptionalAttribute / RequiredAttribute declaration of every registered element class:
the *real* closures `set_attr_value` / `get_attr_value` (specialised by their captured declaration)
run on an abstract element whose attributes are a ghost map; obligations: get(set(e, v)) == v to
within the type's quantum, assigning the declared default (None) removes the attribute and the getter
then reports the default, a rejected value leaves the element untouched (validate before write), and
no other attribute is written (frame).
Part B: proxy chains of the object model (position/size/rotation through a:xfrm, font size,
paragraph spacing, text-frame margins, adjustments, crop, line width, slide size ...) composed from
those contracts."""
from __future__ import annotations

import z3

from pyvc import decls
from pyvc.engine import Atom, FmtInt, GhostFn, PyRaise, SObj, SStr, Unsupported, real_round_half_even, to_int, to_real
from pyvc.verify import contract

META = {
    "residual": [
        "the save / re-open leg (lxml serialises and parses attribute strings verbatim) is assumed; probed natively by C09.native_reopen",
        "properties not listed in Part B are covered only through their attribute declarations (Part A)",
        "IEEE doubles treated as reals",
    ],
    "trusted_base": ["lxml get/set/attrib on one element are independent per attribute name", "C11 simple-type obligations (same sources, re-executed here)"],
}


class AttrElem:
    """abstract element, attribute view: ghost map clark-name -> optional string; everything else untouched."""

    __pyvc_symbolic__ = True

    def __init__(self, cls, present):
        self.cls = cls
        self.attrs = dict(present)  # clark -> SStr/str (present) ; absent keys are absent attributes
        self.writes = []
        self.tag = "{ns}elem"

    def sym_truth(self, it):
        return True

    def sym_pytype(self):
        return self.cls

    def sym_getattr(self, it, name):
        if name == "get":
            return GhostFn(lambda i2, a, k: self.attrs.get(a[0], a[1] if len(a) > 1 else None))
        if name == "set":
            def st(i2, a, k):
                self.attrs[a[0]] = a[1]
                self.writes.append(("set", a[0]))
            return GhostFn(st)
        if name == "attrib":
            return _Attrib(self)
        if name == "tag":
            return self.tag
        from pyvc.engine import _find_in_mro

        d = _find_in_mro(self.cls, name)
        if d is None:
            raise PyRaise(AttributeError, (name,))
        return it.bind_descriptor(d, self, self.cls, name)

    def sym_setattr(self, it, name, v):
        from pyvc.engine import _find_in_mro

        d = _find_in_mro(self.cls, name)
        if isinstance(d, property) and d.fset is not None:
            return it.call(d.fset, [self, v])
        raise Unsupported("store to %s on an attribute-view element" % name)


class _Attrib:
    __pyvc_symbolic__ = True

    def __init__(self, e):
        self.e = e

    def sym_contains(self, it, item):
        return item in self.e.attrs

    def sym_delitem(self, it, idx):
        if idx not in self.e.attrs:
            raise PyRaise(KeyError, (idx,))
        del self.e.attrs[idx]
        self.e.writes.append(("del", idx))


def _kinds_for(st_cls):
    """input kinds worth exercising for a simple type / enum class (by what it accepts natively)."""
    if hasattr(st_cls, "__members__"):
        return ["member", "none"]
    kinds = []
    for kind, probe in (("int", 5), ("float", 1.5), ("bool", True), ("str", "x")):
        try:
            st_cls.validate(probe)
            kinds.append(kind)
        except Exception:
            try:
                st_cls.validate({"int": 300, "float": 0.5, "bool": False, "str": "horz"}[kind])
                kinds.append(kind)
            except Exception:
                pass
    if "float" in kinds and "int" in kinds:
        kinds = [k for k in kinds if k != "bool"]
    return (kinds or ["int"]) + ["none"]


def _replay_attr(cls, tag, d):
    def replay(model, rec):
        from pptx.oxml.xmlchemy import OxmlElement

        vals = []
        for k in ("v", "vb", "v_str"):
            if k in model and model[k] is not None:
                vals.append(model[k])
        st = d.simple_type
        if hasattr(st, "__members__"):
            vals += list(st)[:6]
        vals += [0, 1, -1, 5, 1.5, 100000, True, "x", 1234567.5, 0.1234567, 98765.4321, 2.5e-7]
        for v in vals:
            import fractions

            if isinstance(v, fractions.Fraction):
                v = float(v)
            e = OxmlElement(tag)
            before = dict(e.attrib)
            try:
                setattr(e, d.prop_name, v)
            except (TypeError, ValueError):
                if dict(e.attrib) != before:
                    return {"confirmed": True, "witness_class": "attr-rejected-but-written", "detail": "%s.%s = %r raised but changed %s" % (cls.__name__, d.prop_name, v, dict(e.attrib))}
                continue
            except Exception as ex:
                return {"confirmed": True, "witness_class": "attr-raises", "detail": "%s.%s = %r raised %r" % (cls.__name__, d.prop_name, v, ex)}
            try:
                got = getattr(e, d.prop_name)
            except Exception as ex:
                return {"confirmed": True, "witness_class": "attr-unreadable", "detail": "%s.%s = %r then read raised %r" % (cls.__name__, d.prop_name, v, ex)}
            same = got == v or (isinstance(v, (int, float)) and isinstance(got, (int, float)) and abs(got - v) <= max(1e-5, 127 if "Spacing" in st.__name__ or "FontSize" in st.__name__ else 0))
            if not same and not (st.__name__ in ("ST_Angle", "ST_PositiveFixedAngle") and isinstance(v, (int, float)) and abs((got - v) % 360) < 1e-4):
                return {"confirmed": True, "witness_class": "attr-roundtrip", "detail": "%s.%s = %r reads back %r (xml %s)" % (cls.__name__, d.prop_name, v, got, dict(e.attrib))}
        return {"confirmed": False, "detail": "probed values round-trip"}

    return replay


def _value(c, kind, st_cls):
    if kind == "int":
        return c.int("v")
    if kind == "float":
        return c.real("v")
    if kind == "bool":
        return c.bool("vb")
    if kind == "str":
        return SStr([Atom("v_str", zs=c.input("v_str", z3.String("v_str")))])
    if kind == "none":
        return None
    raise ValueError(kind)


def _close(name, a, b):
    """equality of the value read back (a) and the value assigned (b) up to the quantum of the simple type."""
    from contracts.c11 import CENTIPOINT, MODULAR, SCALED

    if a is None or b is None:
        return a is b
    if isinstance(a, (str, SStr)) or isinstance(b, (str, SStr)):
        from pyvc.engine import _as_sstr, str_eq

        try:
            return str_eq(_as_sstr(a), _as_sstr(b))
        except Unsupported:
            za, zb = _as_sstr(a).z3(), _as_sstr(b).z3()
            return za == zb if za is not None and zb is not None else False
    if name == "XsdBoolean":
        tb = lambda x: x if z3.is_expr(x) and z3.is_bool(x) else (z3.BoolVal(bool(x)) if isinstance(x, (bool, int)) else (x != 0))
        return tb(a) == tb(b)
    from pyvc.engine import is_num

    if not (is_num(a) and is_num(b)):
        return a is b or a == b
    ra, rb = to_real(a), to_real(b)
    if name in MODULAR:
        sc = SCALED[name]
        return ra * sc == z3.ToReal(real_round_half_even(rb * sc) % MODULAR[name])
    if name == "ST_TextFontScalePercentOrPercentString":
        return z3.And(rb - ra >= 0, (rb - ra) * 1000 < 1)
    if name in SCALED:
        sc = SCALED[name]
        return z3.And((ra - rb) * sc * 2 <= 1, (rb - ra) * sc * 2 <= 1)
    if name in CENTIPOINT:
        return z3.And(rb - ra >= 0, rb - ra < 127)
    return ra == rb


def _make_attr(tag, cls, d, prop_id="C09"):
    from pptx.oxml.ns import qn

    st = d.simple_type
    clark = qn(d.attr_name) if ":" in d.attr_name else d.attr_name
    is_enum = hasattr(st, "__members__")
    for kind in _kinds_for(st):
        cname = "%s.%s.%s.%s@%s[%s]" % (prop_id, cls.__module__.replace("pptx.", ""), d.owner.__name__, d.prop_name, d.attr_name, kind)
        if prop_id != "C09":
            cname += ".rejected_before_written"

        @contract(prop_id, cname, replay=_replay_attr(cls, tag, d), timeout_ms=30000)
        def body(c, kind=kind):
            """set then get returns the value (to the quantum); the default / None removes the attribute and the getter
            reports the default; a rejected value changes nothing; no other attribute is touched."""
            present = c.bool("attr_present")
            old = SStr([Atom("old_xml_value")])
            other = "{other}attr"
            e = AttrElem(cls, {clark: old, other: "keep"} if c.branch(present) else {other: "keep"})
            before = dict(e.attrs)
            if kind == "member":
                ms = [m for m in st if m.xml_value]
                k = c.path.fork_free(min(len(ms), 6))
                v = ms[k * max(1, len(ms) // 6) if len(ms) > 6 else k]
            else:
                v = _value(c, kind, st)
            prop = d.prop
            out = c.run(prop.fset, e, v)
            if out.raised:
                c.ensures("rejects.only_TypeError_or_ValueError", issubclass(out.exc.exc_cls, (TypeError, ValueError)), exc=repr(out.exc))
                c.ensures("rejects.nothing_written", e.attrs == before and not e.writes)
                return
            if prop_id != "C09":
                # under C11 only the rejection clause is claimed (the accepted leg is C09's)
                c.ensures("accepted.out_of_scope_here", True)
                return
            c.ensures("frame.only_this_attribute", all(w[1] == clark for w in e.writes) and e.attrs.get(other) == "keep")
            removed = clark not in e.attrs
            back = c.run(prop.fget, e)
            if back.raised:
                if d.required and removed:
                    c.ensures("required.never_removed", False)
                else:
                    c.fails("read.never_raises", "getter raised %s after a successful assignment" % back.exc)
                return
            r = back.value
            if removed:
                # attribute removed: only legal for the declared default of an optional attribute
                c.ensures("removed.only_for_default", (not d.required) and (v is None and d.default is None or _is_true(c, v, d.default)))
                c.ensures("removed.getter_reports_default", r is d.default or r == d.default)
            else:
                from contracts.c11 import MODULAR, SCALED

                if st.__name__ in MODULAR and kind in ("int", "float"):
                    x = to_real(v) * SCALED[st.__name__]
                    for hint, kk in (("neg", z3.ToInt(to_real(v) / (-360)) + 1), ("pos", -z3.ToInt(to_real(v) / 360))):
                        c.lemma("round_shift_%s" % hint, real_round_half_even(x + z3.ToReal(MODULAR[st.__name__] * kk)) == real_round_half_even(x) + MODULAR[st.__name__] * kk)
                c.ensures("roundtrip.value", _close(st.__name__, r, v), read=repr(r))

        del body


def _is_true(c, v, default):
    from pyvc.engine import Interp

    t = Interp(c.path).eq(v, default)
    if isinstance(t, bool):
        return t
    return t


def _build_attrs(prop_id="C09"):
    seen = set()
    for tag, (cls, attrs, kids) in sorted(decls.all_decls().items()):
        for d in attrs:
            key = (d.owner, d.prop_name)
            if key in seen:
                continue
            seen.add(key)
            _make_attr(tag, cls, d, prop_id)


_build_attrs()


# --------------------------------------------------------------------------------------------
# Part B: proxy chains


def _xfrm_world(c):
    """p:sp-like element whose a:xfrm (optional) has off/ext children with x,y,cx,cy and rot/flipH/flipV attributes --
    each proved independent in Part A -- modelled as ghost fields."""
    xfrm = SObj(None, "xfrm", x=c.int("x"), y=c.int("y"), cx=c.int("cx"), cy=c.int("cy"), rot=c.real("rot"), flipH=c.bool("flipH"), flipV=c.bool("flipV"))
    return xfrm


@contract("C09", "C09.oxml.shapes.shared.BaseShapeElement.xfrm_attrs")
def _xfrm_attrs(c):
    """x / y / cx / cy / flipH / flipV through _get_xfrm_attr/_set_xfrm_attr: read returns what was set, the other five
    are unchanged; reading without an a:xfrm gives None; setting creates it."""
    from pptx.oxml.shapes.shared import BaseShapeElement

    has = c.bool("has_xfrm")
    xfrm = _xfrm_world(c)
    state = {"xfrm": xfrm if c.branch(has) else None}

    def goa(it, a, k):
        if state["xfrm"] is None:
            state["xfrm"] = SObj(None, "xfrm", x=None, y=None, cx=None, cy=None, rot=None, flipH=None, flipV=None)
        return state["xfrm"]

    class _E:
        __pyvc_symbolic__ = True

        def sym_getattr(self2, it, name):
            if name == "xfrm":
                return state["xfrm"]
            if name == "get_or_add_xfrm":
                return GhostFn(goa)
            from pyvc.engine import _find_in_mro

            return it.bind_descriptor(_find_in_mro(BaseShapeElement, name), self2, BaseShapeElement, name)

        def sym_setattr(self2, it, name, v):
            from pyvc.engine import _find_in_mro

            return it.call(_find_in_mro(BaseShapeElement, name).fset, [self2, v])

    e = _E()
    names = ["x", "y", "cx", "cy"]
    k = c.path.fork_free(len(names))
    target = names[k]
    v = c.int("value")
    before = dict(state["xfrm"].fields) if state["xfrm"] is not None else None
    out = c.setattr(e, target, v)
    if out.raised:
        c.fails("set.never_raises", "raised %s" % out.exc)
        return
    got = c.getattr(e, target)
    c.ensures("roundtrip", (not got.raised) and got.value == v)
    for other in names:
        if other != target:
            o = c.getattr(e, other)
            want = before[other] if before is not None else None
            c.ensures("frame.%s_unchanged" % other, (not o.raised) and (o.value is want if want is None else o.value == want))


def _replay_native(model, rec):
    r = _native_reopen(tier="quick", seed=0)
    bad = [o for o in r["obligations"] if o["status"] == "refuted"]
    if bad:
        return {"confirmed": True, "witness_class": bad[0]["replay"]["witness_class"], "detail": bad[0]["replay"]["detail"]}
    return {"confirmed": False, "detail": "probed properties round-trip natively (incl. save/re-open)"}


@contract("C09", "C09.text.text.Font.size", replay=_replay_native)
def _font_size(c):
    """Font.size: a Length is stored in centipoints (a:rPr/@sz) and read back to within 1/100 pt (127 EMU, truncating);
    None removes the attribute and reads None."""
    from pptx.text.text import Font

    rPr = SObj(None, "rPr", sz=None)
    font = SObj(Font, "font", _element=rPr, _rPr=rPr)
    v = c.int("emu")
    c.requires(z3.And(v >= 12700, v <= 50800000))  # 1pt .. 4000pt: ST_TextFontSize 100..400000
    out = c.setattr(font, "size", v)
    if out.raised:
        c.fails("set.never_raises", "raised %s" % out.exc)
        return
    c.ensures("stored_centipoints", rPr.fields["sz"] == v / 127)
    got = c.getattr(font, "size")
    if got.raised:
        c.fails("read.never_raises", "raised %s" % got.exc)
        return
    c.ensures("roundtrip.within_centipoint", z3.And(v - got.value >= 0, v - got.value < 127))
    out = c.setattr(font, "size", None)
    c.ensures("none.removes", (not out.raised) and rPr.fields["sz"] is None)
    got = c.getattr(font, "size")
    c.ensures("none.reads_none", (not got.raised) and got.value is None)


@contract("C09", "C09.shapes.autoshape.Adjustment.normalize_denormalize")
def _adjustment(c):
    """Adjustment.effective_value: assigning x stores round-trip-normalised int(x*100000) and reads back within 1e-5;
    the default is reported until an actual value is set."""
    from pptx.shapes.autoshape import Adjustment

    dv = c.int("def_val")
    adj = c.call(Adjustment, "adj", dv)
    if adj.raised:
        c.fails("ctor", "raised %s" % adj.exc)
        return
    a = adj.value
    e0 = c.getattr(a, "effective_value")
    c.ensures("default_reported", (not e0.raised) and to_real(e0.value) * 100000 == to_real(dv))
    x = c.real("x")
    out = c.setattr(a, "effective_value", x)
    if out.raised:
        c.fails("set.never_raises", "raised %s" % out.exc)
        return
    e1 = c.getattr(a, "effective_value")
    if e1.raised:
        c.fails("read.never_raises", "raised %s" % e1.exc)
        return
    d = to_real(e1.value) - x
    c.ensures("roundtrip.within_1e-5", z3.And(d * 100000 <= 1, d * 100000 >= -1))
    c.ensures("val_is_actual", c.getattr(a, "val").value == a.fields["actual"])


@contract("C09", "C09.oxml.text.CT_TextSpacing_and_paragraph_spacing")
def _spacing(c):
    """CT_TextParagraphProperties.line_spacing: a float is stored as a:spcPct (lines), a Length as a:spcPts, None removes
    a:lnSpc; the reader returns what was stored (float lines / Length) -- exactly one of the two children exists."""
    from pptx.oxml.text import CT_TextParagraphProperties, CT_TextSpacing
    from pptx.util import Length

    sp = {"spcPct": None, "spcPts": None}

    class _LnSpc:
        __pyvc_symbolic__ = True

        def sym_getattr(self2, it, name):
            if name in ("spcPct", "spcPts"):
                return sp[name]
            if name in ("_remove_spcPct", "_remove_spcPts"):
                return GhostFn(lambda i2, a, k, n=name[8:]: sp.__setitem__(n, None))
            if name in ("get_or_add_spcPct", "get_or_add_spcPts"):
                def goa(i2, a, k, n=name[11:]):
                    if sp[n] is None:
                        sp[n] = SObj(None, n, val=None)
                    return sp[n]
                return GhostFn(goa)
            from pyvc.engine import _find_in_mro

            return it.bind_descriptor(_find_in_mro(CT_TextSpacing, name), self2, CT_TextSpacing, name)

    state = {"lnSpc": None}

    class _PPr:
        __pyvc_symbolic__ = True

        def sym_getattr(self2, it, name):
            if name == "lnSpc":
                return state["lnSpc"]
            if name == "_remove_lnSpc":
                return GhostFn(lambda i2, a, k: (state.__setitem__("lnSpc", None), sp.update(spcPct=None, spcPts=None))[0])
            if name in ("get_or_add_lnSpc", "_add_lnSpc"):
                def goa(i2, a, k):
                    if state["lnSpc"] is None:
                        state["lnSpc"] = _LnSpc()
                    return state["lnSpc"]
                return GhostFn(goa)
            from pyvc.engine import _find_in_mro

            return it.bind_descriptor(_find_in_mro(CT_TextParagraphProperties, name), self2, CT_TextParagraphProperties, name)

        def sym_setattr(self2, it, name, v):
            from pyvc.engine import _find_in_mro

            return it.call(_find_in_mro(CT_TextParagraphProperties, name).fset, [self2, v])

    pPr = _PPr()
    kind = c.path.fork_free(3)
    if kind == 0:
        v = c.real("lines")
        c.requires(z3.And(v >= 0, v <= 132))
    elif kind == 1:
        # a Length instance is told from a plain number by isinstance(value, Length): symbolic ints carry no class tag, so
        # this leg (a:spcPts) is covered by the native job only
        c.note("line_spacing = Length: covered natively (isinstance(value, Length) on a symbolic int is not expressible)")
        c.ensures("length_leg.covered_natively", True)
        return
    else:
        v = None
    out = c.setattr(pPr, "line_spacing", v)
    if out.raised:
        c.fails("set.never_raises", "raised %s" % out.exc)
        return
    got = c.getattr(pPr, "line_spacing")
    if got.raised:
        c.fails("read.never_raises", "raised %s" % got.exc)
        return
    if kind == 0:
        c.ensures("lines.exactly_spcPct", sp["spcPct"] is not None and sp["spcPts"] is None)
        c.ensures("lines.roundtrip", got.value is sp["spcPct"].fields["val"])
    else:
        c.ensures("none.removed", state["lnSpc"] is None and got.value is None)


# --------------------------------------------------------------------------------------------
# BOUNDED native job: a sweep of public properties incl. save / re-open (never counted as proved)


def _native_reopen(tier="quick", seed=0):
    import io
    import time as _t

    from pptx import Presentation
    from pptx.dml.color import RGBColor
    from pptx.enum.text import MSO_ANCHOR, PP_ALIGN
    from pptx.util import Emu, Pt

    t0 = _t.time()
    obls = []
    evals = 0

    def rec(name, ok, detail):
        r = {"name": name, "base": name, "kind": "bounded", "status": "discharged" if ok else "refuted", "backend": "native", "time": 0, "path": 0}
        if not ok:
            r["replay"] = {"confirmed": True, "witness_class": "native-" + name.split(".")[-1], "detail": detail}
            r["model"] = None
        obls.append(r)

    prs = Presentation()
    slide = prs.slides.add_slide(prs.slide_layouts[6])
    shp = slide.shapes.add_shape(5, Emu(10), Emu(20), Emu(300), Emu(400))
    tb = slide.shapes.add_textbox(Emu(0), Emu(0), Emu(1000), Emu(1000))
    tf = tb.text_frame
    p = tf.paragraphs[0]
    run = p.add_run()
    run.text = "x"
    settings = [
        (shp, "left", Emu(-5)), (shp, "top", Emu(123456)), (shp, "width", Emu(0)), (shp, "height", Emu(27273042316900)), (shp, "rotation", 45.5),
        (shp, "name", 'N"a&me'), (run.font, "size", Pt(18)), (run.font, "bold", True), (run.font, "italic", False), (run.font, "name", "Arial <b>"),
        (p, "level", 8), (p, "alignment", PP_ALIGN.CENTER), (p, "line_spacing", 1.5), (p, "space_before", Pt(6)), (p, "space_after", Pt(3)),
        (tf, "margin_left", Emu(100)), (tf, "margin_top", Emu(0)), (tf, "word_wrap", True), (tf, "vertical_anchor", MSO_ANCHOR.MIDDLE),
        (shp.line, "width", Pt(2.5)), (prs, "slide_width", Emu(9144000)), (prs, "slide_height", Emu(5143500)),
    ]
    bad = None
    for obj, attr, v in settings:
        evals += 1
        others = {a: getattr(o, a) for o, a, _ in settings if o is obj and a != attr}
        setattr(obj, attr, v)
        got = getattr(obj, attr)
        ok = got == v or (isinstance(v, float) and abs(got - v) < 1e-4) or (attr == "size" and 0 <= v - got < 127)
        if not ok:
            bad = bad or "%s.%s = %r reads back %r" % (type(obj).__name__, attr, v, got)
        for a, was in others.items():
            if getattr(obj, a) != was:
                bad = bad or "%s.%s = %r changed %s from %r to %r" % (type(obj).__name__, attr, v, a, was, getattr(obj, a))
    rec("C09.native.set_get_independent", bad is None, bad)
    buf = io.BytesIO()
    prs.save(buf)
    buf.seek(0)
    prs2 = Presentation(buf)
    s2 = prs2.slides[0]
    shp2, tb2 = s2.shapes[0], s2.shapes[1]
    p2 = tb2.text_frame.paragraphs[0]
    r2 = p2.runs[0]
    remap = {"Shape": shp2, "TextFrame": tb2.text_frame, "_Paragraph": p2, "Font": r2.font, "LineFormat": shp2.line, "Presentation": prs2}
    bad = None
    for obj, attr, v in settings:
        o2 = remap[type(obj).__name__]
        got = getattr(o2, attr)
        ok = got == v or (isinstance(v, float) and abs(got - v) < 1e-4) or (attr == "size" and 0 <= v - got < 127)
        if not ok:
            bad = bad or "%s.%s = %r reads %r after save/re-open" % (type(obj).__name__, attr, v, got)
    rec("C09.native.save_reopen", bad is None, bad)
    bad = None
    for obj, attr in ((run.font, "size"), (run.font, "bold"), (p, "alignment"), (p, "line_spacing"), (p, "space_before"), (tf, "word_wrap"), (run.font, "name")):
        setattr(obj, attr, None)
        got = getattr(obj, attr)
        dflt = {"margin_left": 91440}.get(attr)
        if got is not None and got != dflt:
            bad = bad or "%s.%s = None reads %r" % (type(obj).__name__, attr, got)
    rec("C09.native.none_restores_inheritance", bad is None, bad)
    bad = None
    for obj, attr, v in ((p, "level", 9), (p, "level", -1), (prs, "slide_width", 5), (shp.line, "width", -1), (run.font, "size", Pt(5000)), (shp, "left", "x"), (p, "line_spacing", -1.0)):
        try:
            setattr(obj, attr, v)
            bad = bad or "%s.%s = %r accepted" % (type(obj).__name__, attr, v)
        except (TypeError, ValueError):
            pass
        except Exception as e:
            bad = bad or "%s.%s = %r raised %r" % (type(obj).__name__, attr, v, e)
    rec("C09.native.out_of_domain_rejected", bad is None, bad)
    # colour: rgb / theme colour and brightness are independent once the colour kind is fixed, in either order
    bad = None
    from pptx.enum.dml import MSO_THEME_COLOR

    for bright in (-0.25, 0.4):
        prs2 = Presentation()
        sl2 = prs2.slides.add_slide(prs2.slide_layouts[6])
        shp = sl2.shapes.add_shape(1, 0, 0, 100, 100)
        shp.fill.solid()
        targets = [("fill", shp.fill.fore_color), ("line", shp.line.color)]
        shp.line.fill.solid() if hasattr(shp.line, "fill") else None
        r = shp.text_frame.paragraphs[0].add_run()
        r.text = "x"
        targets.append(("font", r.font.color))
        for nm, col in targets:
            evals += 1
            col.rgb = RGBColor(10, 20, 30)
            col.brightness = bright
            col.rgb = RGBColor(40, 50, 60)
            if abs(col.brightness - bright) > 1e-9 or col.rgb != RGBColor(40, 50, 60):
                bad = bad or "%s colour: rgb=A; brightness=%s; rgb=B -> brightness reads %r, rgb %r" % (nm, bright, col.brightness, col.rgb)
            col.theme_color = MSO_THEME_COLOR.ACCENT_1
            col.brightness = bright
            col.theme_color = MSO_THEME_COLOR.ACCENT_2
            if abs(col.brightness - bright) > 1e-9 or col.theme_color != MSO_THEME_COLOR.ACCENT_2:
                bad = bad or "%s colour: theme=A; brightness=%s; theme=B -> brightness reads %r" % (nm, bright, col.brightness)
        buf2 = io.BytesIO()
        prs2.save(buf2)
    rec("C09.native.colour_value_and_brightness_independent", bad is None, bad)
    return {"contract": "C09.native_reopen", "prop": "C09", "status": "ok", "obligations": obls, "paths": 0, "assumed": [], "functions": {}, "notes": [],
            "solver_s": 0.0, "wall_s": _t.time() - t0,
            "bounded": {"name": "C09.native_reopen", "bound": "22 public properties of shape/font/paragraph/text frame/line/presentation with one value each, "
                        "pairwise independence on the same object, one save/re-open, None on 8 properties, 7 out-of-domain values",
                        "evaluations": evals, "samples": [{"set": "Shape.rotation = 45.5"}], "counted_as_proved": False}}



# --------------------------------------------------------------------------------------------
# ColorFormat: assigning the colour value leaves the brightness adjustment alone (and vice versa) once the kind is fixed


def _replay_colour(model, rec_):
    r = _native_reopen(tier="quick", seed=0)
    bad = [o for o in r["obligations"] if o["status"] == "refuted" and "colour" in o["name"]]
    if bad:
        return {"confirmed": True, "witness_class": "colour-frame", "detail": bad[0]["replay"]["detail"]}
    return {"confirmed": False, "detail": "rgb / theme colour assignments keep the brightness on fill, line and font colours"}


@contract("C09", "C09.dml.color.ColorFormat.rgb.fset[already RGB]", replay=_replay_colour)
def _rgb_frame(c):
    """on a colour that already is an RGB colour: only a:srgbClr/@val is written (with the new value); the fill's colour choice
    is not re-created and the lumMod / lumOff children carrying the brightness are not touched."""
    from pptx.dml.color import ColorFormat, RGBColor, _SRgbColor

    writes = []

    class _Srgb:
        __pyvc_symbolic__ = True

        def sym_setattr(self, it, name, v):
            writes.append(("set", name, v))

        def sym_getattr(self, it, name):
            writes.append(("call", name))
            return GhostFn(lambda i2, a, k: self, name)

    xfill_calls = []
    srgb = _Srgb()
    color = SObj(_SRgbColor, "color", _xClr=srgb, _srgbClr=srgb)

    class _XFill:
        __pyvc_symbolic__ = True

        def sym_getattr(self, it, name):
            xfill_calls.append(name)
            return GhostFn(lambda i2, a, k: srgb, name)

    cf = SObj(ColorFormat, "color_format", _color=color, _xFill=_XFill())
    out = c.setattr(cf, "rgb", RGBColor(1, 2, 3))
    if out.raised:
        c.fails("never_raises", "raised %s" % out.exc)
        return
    c.ensures("frame.colour_choice_not_recreated", not xfill_calls)
    c.ensures("post.only_val_is_written", writes == [("set", "val", "010203")])
    c.ensures("frame.same_colour_object", cf.fields["_color"] is color)


# ---------------------------------------------------------------------------------------------------------
# BOUNDED: every read/write property met on a rich deck (and on corpus decks), assigned each value of its documented domain from
# different prior values, read back, reset with None where documented, and read again after save / re-open


def _domains():
    """(defining class, property) -> {"vals": in-domain values (boundary and interior), "none": reading after None (only where
    None is documented), "tol": absolute tolerance for floats, "group": names of the object's other independent properties}"""
    from pptx.dml.color import RGBColor
    from pptx.enum.chart import XL_AXIS_CROSSES, XL_DATA_LABEL_POSITION, XL_LEGEND_POSITION, XL_MARKER_STYLE, XL_TICK_LABEL_POSITION, XL_TICK_MARK
    from pptx.enum.dml import MSO_LINE_DASH_STYLE, MSO_PATTERN_TYPE, MSO_THEME_COLOR
    from pptx.enum.lang import MSO_LANGUAGE_ID
    from pptx.enum.shapes import MSO_SHAPE
    from pptx.enum.text import MSO_ANCHOR, MSO_AUTO_SIZE, MSO_TEXT_UNDERLINE_TYPE, PP_ALIGN
    from pptx.util import Emu, Pt

    pos = [Emu(0), Emu(-914400), Emu(123456789), Emu(27273042316900), Emu(-27273042329600), Emu(1)]
    ext = [Emu(0), Emu(1), Emu(914400), Emu(27273042316900), Emu(12700)]
    inset = [Emu(0), Emu(45720), Emu(91440), Emu(914400), Emu(1)]
    bools = [True, False]
    geom = ("left", "top", "width", "height", "rotation", "name")
    D = {}

    def put(cls, names, **kw):
        for n in ([names] if isinstance(names, str) else names):
            D[(cls, n)] = dict(kw)

    put("Presentation", ("slide_width", "slide_height"), vals=[Emu(914400), Emu(9144000), Emu(51206400), Emu(6858000)], group=("slide_width", "slide_height"))
    put("_BaseSlide", "name", vals=["Slide A", 'n"&<>', "x"])
    put("BaseShape", ("left", "top"), vals=pos, group=geom)
    put("BaseShape", ("width", "height"), vals=ext, group=geom)
    put("BaseShape", "rotation", vals=[0.0, 45.5, 359.9, 90.0, 180.0, 0.01], tol=1 / 60000, group=geom)
    put("BaseShape", "name", vals=["x", 'N"a&<me>', "Name 2"], group=geom)
    put("_InheritsDimensions", ("left", "top"), vals=pos, group=("left", "top", "width", "height"))
    put("_InheritsDimensions", ("width", "height"), vals=ext, group=("left", "top", "width", "height"))
    # a connector end point is refused (ValueError) when the resulting extent would leave 0..27273042316900: the other end decides
    put("Connector", ("begin_x", "begin_y", "end_x", "end_y"), vals=[Emu(0), Emu(914400), Emu(5), Emu(2000000), Emu(914400)], group=("begin_x", "begin_y", "end_x", "end_y"), may_refuse=True)
    tfg = ("margin_left", "margin_right", "margin_top", "margin_bottom", "word_wrap", "auto_size", "vertical_anchor")
    put("TextFrame", "margin_left", vals=inset, group=tfg)
    put("TextFrame", "margin_right", vals=inset, group=tfg)
    put("TextFrame", ("margin_top", "margin_bottom"), vals=inset, group=tfg)
    put("TextFrame", "word_wrap", vals=bools, none=None, group=tfg)
    put("TextFrame", "auto_size", vals=[MSO_AUTO_SIZE.NONE, MSO_AUTO_SIZE.SHAPE_TO_FIT_TEXT, MSO_AUTO_SIZE.TEXT_TO_FIT_SHAPE], none=None, group=tfg)
    put("TextFrame", "vertical_anchor", vals=[MSO_ANCHOR.TOP, MSO_ANCHOR.MIDDLE, MSO_ANCHOR.BOTTOM], none=None, group=tfg)
    pg = ("alignment", "level", "line_spacing", "space_before", "space_after")
    put("_Paragraph", "alignment", vals=[PP_ALIGN.CENTER, PP_ALIGN.LEFT, PP_ALIGN.RIGHT, PP_ALIGN.JUSTIFY, PP_ALIGN.DISTRIBUTE], none=None, group=pg)
    put("_Paragraph", "level", vals=[0, 1, 8, 4], group=pg)
    put("_Paragraph", "line_spacing", vals=[1.5, Pt(18), 2.0, Pt(0), 0.9, Pt(1584), 1, Pt(12)], none=None, tol=1e-5, group=pg)
    put("_Paragraph", ("space_before", "space_after"), vals=[Pt(6), Pt(0), Pt(1584), Pt(0.5)], none=None, group=pg)
    fg = ("bold", "italic", "name", "size", "underline", "language_id")
    put("Font", ("bold", "italic"), vals=bools, none=None, group=fg)
    put("Font", "name", vals=["Arial", 'A "b" <c>&', "x"], none=None, group=fg)
    put("Font", "size", vals=[Pt(18), Pt(1), Pt(4000), Pt(10.5), Pt(12.34)], none=None, group=fg)
    put("Font", "underline", vals=[True, False, MSO_TEXT_UNDERLINE_TYPE.DOUBLE_LINE, MSO_TEXT_UNDERLINE_TYPE.WAVY_LINE, True], none=None, group=fg)
    put("Font", "language_id", vals=[MSO_LANGUAGE_ID.FRENCH, MSO_LANGUAGE_ID.ENGLISH_US, MSO_LANGUAGE_ID.POLISH], none=MSO_LANGUAGE_ID.NONE, group=fg)
    put("LineFormat", "width", vals=[Pt(2.5), Emu(0), Emu(20116800), Emu(12700), Emu(1)], group=("width", "dash_style"))
    put("LineFormat", "dash_style", vals=[MSO_LINE_DASH_STYLE.DASH, MSO_LINE_DASH_STYLE.SOLID, MSO_LINE_DASH_STYLE.ROUND_DOT, MSO_LINE_DASH_STYLE.LONG_DASH_DOT], none=None, group=("width", "dash_style"))
    put("_BasePicture", ("crop_left", "crop_right", "crop_top", "crop_bottom"), vals=[0.0, 0.25, -0.1, 1.0, 0.33333, 0.1, -0.25], tol=1e-5, group=("crop_left", "crop_right", "crop_top", "crop_bottom"))
    put("Picture", "auto_shape_type", vals=[MSO_SHAPE.OVAL, MSO_SHAPE.RECTANGLE, MSO_SHAPE.ROUNDED_RECTANGLE, MSO_SHAPE.ISOSCELES_TRIANGLE])
    put("Chart", "chart_style", vals=[1, 48, 10, 2], none=None, group=("chart_style", "has_legend", "has_title"))
    put("Chart", ("has_legend", "has_title"), vals=bools + [True], group=("chart_style", "has_legend", "has_title"))
    ag = ("has_major_gridlines", "has_minor_gridlines", "major_tick_mark", "minor_tick_mark", "maximum_scale", "minimum_scale", "reverse_order", "tick_label_position", "visible", "has_title")
    put("_BaseAxis", ("has_major_gridlines", "has_minor_gridlines", "has_title", "reverse_order", "visible"), vals=bools + [True, False], group=ag)
    put("_BaseAxis", ("major_tick_mark", "minor_tick_mark"), vals=[XL_TICK_MARK.INSIDE, XL_TICK_MARK.CROSS, XL_TICK_MARK.NONE, XL_TICK_MARK.OUTSIDE], group=ag)
    put("_BaseAxis", ("maximum_scale", "minimum_scale"), vals=[10.0, -2.5, 0.0, 1e6, 12.75], none=None, tol=0, group=ag)
    put("_BaseAxis", "tick_label_position", vals=[XL_TICK_LABEL_POSITION.HIGH, XL_TICK_LABEL_POSITION.LOW, XL_TICK_LABEL_POSITION.NONE, XL_TICK_LABEL_POSITION.NEXT_TO_AXIS], group=ag)
    put("ValueAxis", ("major_unit", "minor_unit"), vals=[1.0, 0.25, 100.0, 12.75], none=None, tol=0, group=ag + ("major_unit", "minor_unit"))
    put("ValueAxis", "crosses", vals=[XL_AXIS_CROSSES.MAXIMUM, XL_AXIS_CROSSES.MINIMUM, XL_AXIS_CROSSES.AUTOMATIC])
    put("ValueAxis", "crosses_at", vals=[2.0, 0.0, -7.25], none=None, tol=0)
    put("TickLabels", "offset", vals=[0, 100, 1000, 250], group=("offset",), may_refuse=True)  # "only a category axis has an offset"
    put("TickLabels", "number_format", vals=["0.00", '#,##0 "R&D"', "General", "0%"], group=("offset",))
    put("TickLabels", "number_format_is_linked", vals=bools + [True], group=("offset", "number_format"))
    put("Marker", "size", vals=[2, 72, 9, 30], none=None, group=("size", "style"))
    put("Marker", "style", vals=[XL_MARKER_STYLE.CIRCLE, XL_MARKER_STYLE.DIAMOND, XL_MARKER_STYLE.NONE, XL_MARKER_STYLE.SQUARE], none=None, group=("size", "style"))
    put("DataLabel", "position", vals=[XL_DATA_LABEL_POSITION.CENTER, XL_DATA_LABEL_POSITION.INSIDE_END, XL_DATA_LABEL_POSITION.OUTSIDE_END], none=None)
    put("DataLabel", "has_text_frame", vals=bools + [True])
    put("_BasePlot", "vary_by_categories", vals=bools + [True], group=("has_data_labels",))
    put("_BasePlot", "has_data_labels", vals=bools + [True], group=("vary_by_categories",))
    put("BarPlot", "gap_width", vals=[0, 150, 500, 37], group=("overlap", "vary_by_categories"))
    put("BarPlot", "overlap", vals=[-100, 0, 100, 37], group=("gap_width", "vary_by_categories"))
    lg = ("horz_offset", "include_in_layout", "position")
    put("Legend", "horz_offset", vals=[0.25, -1.0, 1.0, 0.0, -0.3333], tol=1e-9, group=lg)
    put("Legend", "include_in_layout", vals=bools + [True], group=lg)
    put("Legend", "position", vals=[XL_LEGEND_POSITION.BOTTOM, XL_LEGEND_POSITION.TOP, XL_LEGEND_POSITION.CORNER, XL_LEGEND_POSITION.LEFT, XL_LEGEND_POSITION.RIGHT], group=lg)
    put("ChartTitle", "has_text_frame", vals=bools + [True])
    put("AxisTitle", "has_text_frame", vals=bools + [True])
    dg = ("show_category_name", "show_legend_key", "show_percentage", "show_series_name", "show_value", "position")
    put("DataLabels", dg[:5], vals=bools + [True], group=dg)
    put("DataLabels", "position", vals=[XL_DATA_LABEL_POSITION.CENTER, XL_DATA_LABEL_POSITION.INSIDE_END, XL_DATA_LABEL_POSITION.INSIDE_BASE], none=None, group=dg)
    put("DataLabels", "number_format", vals=["0.00", '#,##0 "R&D"', "General"], group=dg)
    put("DataLabels", "number_format_is_linked", vals=bools + [True], group=dg + ("number_format",))
    tg = ("first_col", "first_row", "horz_banding", "last_col", "last_row", "vert_banding")
    put("Table", tg, vals=bools + [True], group=tg)
    put("_Row", "height", vals=[Emu(370840), Emu(0), Emu(914400), Emu(1)])
    put("_Column", "width", vals=[Emu(370840), Emu(0), Emu(914400), Emu(1)])
    cg = ("margin_left", "margin_right", "margin_top", "margin_bottom", "vertical_anchor")
    put("_Cell", ("margin_left", "margin_right"), vals=inset, none=Emu(91440), group=cg)
    put("_Cell", ("margin_top", "margin_bottom"), vals=inset, none=Emu(45720), group=cg)
    put("_Cell", "vertical_anchor", vals=[MSO_ANCHOR.TOP, MSO_ANCHOR.MIDDLE, MSO_ANCHOR.BOTTOM], none=None, group=cg)
    put("ShadowFormat", "inherit", vals=bools + [True, False])
    # prepared contexts (see _prepared): colour kinds and fill kinds
    put("ColorFormat", "rgb", vals=[RGBColor(0x12, 0x34, 0x56), RGBColor(0, 0, 0), RGBColor(0xFF, 0xFF, 0xFF), RGBColor(0xAB, 0xCD, 0xEF)])
    put("ColorFormat", "theme_color", vals=[MSO_THEME_COLOR.ACCENT_1, MSO_THEME_COLOR.DARK_2, MSO_THEME_COLOR.HYPERLINK, MSO_THEME_COLOR.TEXT_1])
    put("ColorFormat", "brightness", vals=[-0.25, 0.4, 0, 1.0, -1.0, 0.123, 0], tol=1e-5)
    put("FillFormat", "gradient_angle", vals=[0.0, 45.0, 90.5, 359.0, 180.0, 0.0, 270.0], tol=1 / 60000, may_refuse=True)  # ValueError for a non-linear gradient
    put("FillFormat", "pattern", vals=[MSO_PATTERN_TYPE.CROSS, MSO_PATTERN_TYPE.WAVE, MSO_PATTERN_TYPE.PERCENT_5, MSO_PATTERN_TYPE.WIDE_UPWARD_DIAGONAL], none=None)
    # values outside the documented domain: refused with ValueError / TypeError, nothing changes
    TOP = 27273042316900
    BAD = {
        ("Presentation", "slide_width"): [Emu(914399), Emu(51206401), Emu(0), Emu(-1)], ("Presentation", "slide_height"): [Emu(914399), Emu(51206401)],
        ("BaseShape", "left"): [Emu(TOP + 1), Emu(-27273042329601)], ("BaseShape", "top"): [Emu(TOP + 1), Emu(-27273042329601)],
        ("BaseShape", "width"): [Emu(-1), Emu(TOP + 1)], ("BaseShape", "height"): [Emu(-1), Emu(TOP + 1)],
        ("_Paragraph", "level"): [-1, 9, 100], ("_Paragraph", "space_before"): [Pt(-1), Pt(1585)], ("_Paragraph", "space_after"): [Pt(-1), Pt(1585)],
        ("_Paragraph", "line_spacing"): [Pt(-1), Pt(1585)],
        ("Font", "size"): [0, Emu(0), Pt(0), Pt(0.5), Pt(4001), Emu(-12700)],
        ("LineFormat", "width"): [Emu(-1), Emu(20116801)],
        ("Chart", "chart_style"): [0, 49, -1], ("BarPlot", "gap_width"): [-1, 501], ("BarPlot", "overlap"): [-101, 101],
        ("Marker", "size"): [1, 73, 0], ("TickLabels", "offset"): [-1, 1001],
        ("ColorFormat", "brightness"): [-1.01, 1.01, 2],
        ("ValueAxis", "major_unit"): [0, -1.0], ("ValueAxis", "minor_unit"): [0, -0.5],
        ("TextFrame", "margin_left"): [Emu(2 ** 31)], ("TextFrame", "margin_top"): [Emu(-(2 ** 31) - 1)],
        ("_Cell", "margin_left"): [Emu(2 ** 31)], ("_Cell", "margin_bottom"): [Emu(-(2 ** 31) - 1)],
    }
    for k, v in BAD.items():
        if k in D:
            D[k]["bad"] = v
    # enumeration-valued properties: every member that has an XML token (the sample above first, for the order of assignments)
    import enum

    for k, spec in D.items():
        ms = [v for v in spec["vals"] if isinstance(v, enum.Enum)]
        if ms:
            cls = type(ms[0])
            def own_token(m):
                try:
                    return cls.from_xml(m.xml_value) is m  # members sharing a token with another one (known finding F19) cannot read back
                except Exception:
                    return False

            rest = [m for m in cls if getattr(m, "xml_value", None) and not any(m is v for v in spec["vals"]) and own_token(m)]
            spec["vals"] = list(spec["vals"]) + (rest if len(rest) <= 60 else rest[:: max(1, len(rest) // 40)])
            spec["enum"] = cls
    return D


def _same(got, want, tol):
    # documented equivalences of Font.underline: True is the single underline, False is "none"
    from pptx.enum.text import MSO_TEXT_UNDERLINE_TYPE as U

    if want is U.SINGLE_LINE and got is True or want is U.NONE and got is False:
        return True
    import enum

    if isinstance(want, enum.Enum) or isinstance(got, enum.Enum):
        return got is want  # an int-valued member equals plain ints and booleans: identity is what "the same member" means
    if isinstance(want, float) or isinstance(got, float):
        if got is None or want is None or isinstance(got, (str, bytes)):
            return got == want
        return abs(float(got) - float(want)) <= (tol if tol else 0) or got == want
    if isinstance(want, bool) or want is None:
        return got is want
    return got == want and (type(got) is type(want) or not isinstance(want, bool))


def connector_refusal_probes():
    """[(label, None or description)]: a refused end-point assignment leaves the connector as it was"""
    from pptx import Presentation

    out = []
    # a refused assignment leaves every reading as it was: connector end points, whose acceptance depends on the other end
    from pptx.enum.shapes import MSO_CONNECTOR
    from pptx.util import Emu

    TOP = 27273042316900
    for attr, start, moved in (("begin_y", (0, 0, 10, 457200), "top"), ("begin_x", (0, 0, 457200, 10), "left"),
                               ("end_y", (0, 457200, 10, 0), "top"), ("end_x", (457200, 0, 0, 10), "left")):
        v = 0
        prs = Presentation()
        cx = prs.slides.add_slide(prs.slide_layouts[6]).shapes.add_connector(MSO_CONNECTOR.STRAIGHT, *[Emu(q) for q in start])
        setattr(cx, moved, Emu(TOP))  # a valid position: the far end now lies beyond the coordinate range, which is never stored
        read = lambda: (cx.begin_x, cx.begin_y, cx.end_x, cx.end_y)
        was = read()
        bad = None
        try:
            setattr(cx, attr, Emu(v))
            if getattr(cx, attr) != v:
                bad = "Connector%r.%s = %d accepted but reads %r" % (was, attr, v, getattr(cx, attr))
        except ValueError as e:
            if read() != was:
                bad = "Connector with (begin_x, begin_y, end_x, end_y) = %r: %s = %d is refused (%s) yet the readings become %r" % (was, attr, v, e, read())
        out.append(("refused_assignment_leaves_readings[Connector.%s]" % attr, bad))
    # ... also when the refused value lies on the other side of the other end point (the flip would have changed)
    for attr in ("begin_x", "begin_y", "end_x", "end_y"):
        bad = None
        for start in ((100, 200, 5000, 7000), (5000, 7000, 100, 200), (100, 7000, 5000, 200), (5000, 200, 100, 7000)):
            other = {"begin_x": start[2], "begin_y": start[3], "end_x": start[0], "end_y": start[1]}[attr]
            for v in (other + TOP + 1, other - TOP - 1):
                prs = Presentation()
                cx = prs.slides.add_slide(prs.slide_layouts[6]).shapes.add_connector(MSO_CONNECTOR.STRAIGHT, *[Emu(q) for q in start])
                read = lambda: (cx.begin_x, cx.begin_y, cx.end_x, cx.end_y, cx._element.flipH, cx._element.flipV)
                was = read()
                try:
                    setattr(cx, attr, Emu(v))
                except ValueError as e:
                    if read() != was:
                        bad = bad or "Connector (begin_x, begin_y, end_x, end_y, flipH, flipV) = %r: %s = %d is refused (%s) yet these become %r" % (was, attr, v, e, read())
        out.append(("refused_crossing_assignment_leaves_readings[Connector.%s]" % attr, bad))
    return out


def _who(o):
    e = getattr(o, "_element", None)
    try:
        part = getattr(getattr(o, "part", None), "partname", "?")
    except Exception:
        part = "?"
    nm = None
    try:
        nm = getattr(o, "name", None)
    except Exception:
        pass
    return "%s %r in %s <%s>" % (type(o).__name__, nm, part, getattr(e, "tag", "?").split("}")[-1] if e is not None else "?")


def _native_setget_sweep(tier="quick", seed=0):
    import glob
    import inspect as _insp
    import io
    import os
    import random
    import time as _t

    from pptx import Presentation
    from pptx.util import Length

    from .c03 import _ops
    from .c12 import _walk

    t0 = _t.time()
    D = _domains()
    obls, evals = [], [0]

    def rec(name, bad):
        r = {"name": name, "base": name, "kind": "bounded", "status": "refuted" if bad else "discharged", "backend": "native", "time": 0, "path": 0}
        if bad:
            r["replay"] = {"confirmed": True, "witness_class": "set-get", "detail": bad}
            r["model"] = None
        obls.append(r)

    def rich_deck(sd):
        prs = Presentation()
        rnd = random.Random(sd)
        for op in _ops():
            if op.__name__ in ("op_rejected", "op_setter_fuzz", "op_links"):
                continue
            try:
                op(prs, rnd)
            except ValueError:
                pass
        return prs

    def key_of(o, n):
        for k in type(o).__mro__:
            if n in k.__dict__:
                return (k.__name__, n)
        return (type(o).__name__, n)

    def targets(prs, per_key):
        objs = []
        _walk(prs, lambda o, n: (objs.append((o, n)), getattr(o, n))[1], skip={("Slide", "notes_slide"), ("Presentation", "notes_master"), ("_Background", "fill")}, budget=2500)
        out, count = [], {}
        for o, n in objs:
            d = _insp.getattr_static(type(o), n, None)
            if not (isinstance(d, property) and d.fset is not None):
                continue
            k = key_of(o, n)
            if k not in D:
                continue
            ck = (k, type(o).__name__)
            if count.get(ck, 0) >= per_key:
                continue
            count[ck] = count.get(ck, 0) + 1
            out.append((o, n, k))
        return out, objs

    def prepare(o, k):
        """bring the object into the state in which the property is defined (documented TypeError otherwise)"""
        if k[0] == "FillFormat":
            o.gradient() if k[1] == "gradient_angle" else o.patterned()
        if k == ("ColorFormat", "brightness"):
            from pptx.dml.color import RGBColor
            try:
                o.brightness
            except Exception:
                o.rgb = RGBColor(1, 2, 3)

    def read_group(o, names, skip):
        out = {}
        for a in names:
            if a == skip or not hasattr(type(o), a):
                continue
            try:
                out[a] = getattr(o, a)
            except Exception as e:
                out[a] = "raises %s" % type(e).__name__
        return out

    found = {}  # signature -> first witness

    def sweep(prs, label, per_key, rnd):
        """returns a description of a crash, if any; mismatches are collected in `found` under '<class>.<property>:<kind>'"""
        tg, _ = targets(prs, per_key)
        for o, n, k in tg:
            spec = D[k]
            cls = type(o).__name__
            try:
                prepare(o, k)
            except Exception:
                continue  # the object cannot be brought into the state the property needs
            try:
                first = getattr(o, n)
            except Exception as e:
                if k[0] == "FillFormat" or k == ("ColorFormat", "brightness"):
                    # the state the property is documented for has just been established: reading must work
                    found.setdefault("%s.%s:reading-raises" % (k[0], n), "%s: %s.%s raised %r right after the fill / colour kind it is documented for was selected" % (label, cls, n, e))
                continue  # property not defined for this object in its present state
            vals = list(spec["vals"])
            order = vals + list(reversed(vals))
            if "none" in spec:
                order = vals[:2] + [None] + order + [None, vals[0]]
            for v in order:
                evals[0] += 1
                before = read_group(o, spec.get("group", ()), n)
                try:
                    setattr(o, n, v)
                except ValueError as e:
                    if spec.get("may_refuse"):
                        # a documented refusal that depends on the object's other values (what a refusal leaves behind is probed
                        # deterministically below); the object is left alone from here on
                        break
                    found.setdefault("%s.%s:raises" % (k[0], n), "%s: %s.%s = %r (previous reading %r) raised %r" % (label, cls, n, v, first, e))
                    break
                except Exception as e:
                    found.setdefault("%s.%s:raises" % (k[0], n), "%s: %s.%s = %r (previous reading %r) raised %r" % (label, cls, n, v, first, e))
                    break
                try:
                    got = getattr(o, n)
                except Exception as e:
                    found.setdefault("%s.%s:reading-raises" % (k[0], n), "%s: %s.%s = %r then reading raised %r" % (label, cls, n, v, e))
                    break
                want = spec["none"] if v is None else v
                tol = spec.get("tol", 0)
                ok = _same(got, want, tol) or (k == ("Font", "size") and v is not None and got is not None and 0 <= int(v) - int(got) < 127)
                if not ok:
                    found.setdefault("%s.%s:%s" % (k[0], n, "none-does-not-restore" if v is None else "reads-back-differently"),
                                     "%s: %s.%s = %r (after %r) reads back %r" % (label, cls, n, v, first, got))
                    break
                after = read_group(o, spec.get("group", ()), n)
                if after != before:
                    ch = sorted(a for a in before if before[a] != after.get(a))
                    found.setdefault("%s.%s:changes-%s" % (k[0], n, ch[0]), "%s: %s.%s = %r changed the reading of %s from %r to %r" % (label, cls, n, v, ch[0], before[ch[0]], after[ch[0]]))
                    break
                first = got
        # two objects of one kind, the same property, one assignment each with nothing in between: the first still reads its value
        # (objects of one kind do not share the element that carries the value; a creator must not hand out one element twice)
        ident = lambda q: (id(getattr(q, "_element", q)), getattr(q, "_idx", None))
        by_key = {}
        for o, n, k in tg:
            if not D[k].get("may_refuse"):
                by_key.setdefault((k, type(o).__name__, n), []).append(o)
        for (k, cls, n), objs_ in by_key.items():
            spec = D[k]
            distinct = []
            for q in objs_:
                if ident(q) not in [ident(x) for x in distinct]:
                    distinct.append(q)
            vals = list(spec["vals"])
            for a_, b_ in zip(distinct, distinct[1:]):
                evals[0] += 1
                try:
                    prepare(a_, k)
                    prepare(b_, k)
                    setattr(a_, n, vals[0])
                    mine = getattr(a_, n)
                    setattr(b_, n, vals[1 % len(vals)])
                except Exception:
                    continue
                try:
                    again = getattr(a_, n)
                    ok_ = _same(again, mine, spec.get("tol", 0))
                except Exception as e:
                    again, ok_ = "raises %r" % (e,), False
                if not ok_:
                    found.setdefault("%s.%s:changed-by-another-object" % (k[0], n), "%s: %s.%s = %r reads %r; right after %s.%s = %r on another %s it reads %s [%s -> %s]" % (
                        label, cls, n, vals[0], mine, cls, n, vals[1 % len(vals)], cls, again, _who(a_), _who(b_)))
                    break
        # values outside the documented domain
        for o, n, k in tg:
            spec = D[k]
            if not spec.get("bad"):
                continue
            try:
                prepare(o, k)
                setattr(o, n, spec["vals"][0])
                was = getattr(o, n)
            except Exception:
                continue
            for v in spec["bad"]:
                evals[0] += 1
                before = read_group(o, spec.get("group", ()), n)
                try:
                    setattr(o, n, v)
                    found.setdefault("%s.%s:out-of-domain-accepted" % (k[0], n), "%s: %s.%s = %r (outside the documented domain) was accepted; it now reads %r (was %r)" % (
                        label, type(o).__name__, n, v, getattr(o, n), was))
                    break
                except (ValueError, TypeError):
                    pass
                except Exception as e:
                    found.setdefault("%s.%s:out-of-domain-raises-other" % (k[0], n), "%s: %s.%s = %r raised %r (documented: TypeError or ValueError)" % (label, type(o).__name__, n, v, e))
                    break
                now = getattr(o, n)
                if not _same(now, was, spec.get("tol", 0)) or read_group(o, spec.get("group", ()), n) != before:
                    found.setdefault("%s.%s:refusal-changes-state" % (k[0], n), "%s: %s.%s = %r was refused, yet it now reads %r (was %r)" % (label, type(o).__name__, n, v, now, was))
                    break
        # ... and the same values as the FIRST assignment after the property was reset (the element that would carry the value is then
        # absent and has to be created): a refused value leaves the part as it was
        def xml_of(o_):
            from lxml import etree as _et

            e_ = getattr(o_, "_element", None)
            if e_ is None or not hasattr(e_, "getroottree"):
                return None
            return _et.tostring(e_.getroottree().getroot())

        for o, n, k in tg:
            spec = D[k]
            if not spec.get("bad") or "none" not in spec:
                continue
            try:
                prepare(o, k)
                setattr(o, n, None)
                x0 = xml_of(o)
            except Exception:
                continue
            if x0 is None:
                continue
            for v in spec["bad"]:
                evals[0] += 1
                try:
                    setattr(o, n, v)
                    break  # accepted: reported by the leg above
                except (ValueError, TypeError):
                    pass
                except Exception:
                    break
                if xml_of(o) != x0:
                    found.setdefault("%s.%s:refusal-changes-state" % (k[0], n), "%s: %s.%s = %r as the first assignment after a reset was refused, yet the part is no longer what it was" % (label, type(o).__name__, n, v))
                    break
        # two properties of one object, every (or a sample of the) value pairs, in both orders: each keeps its own value
        done = set()
        for o, n, k in tg:
            spec = D[k]
            ident = (id(getattr(o, "_element", o)), type(o).__name__)
            if ident in done or len(spec.get("group", ())) < 2:
                continue
            done.add(ident)
            props = [(a, D[key_of(o, a)]) for a in spec["group"] if hasattr(type(o), a) and key_of(o, a) in D and not D[key_of(o, a)].get("may_refuse")]
            usable = []
            for a, sp in props:
                try:
                    prepare(o, key_of(o, a))
                    getattr(o, a)
                    usable.append((a, sp))
                except Exception:
                    pass
            combos = [(a, va, b, vb) for a, sa in usable for b, sb in usable if a != b for va in sa["vals"] for vb in sb["vals"]]
            if len(combos) > 600:
                combos = rnd.sample(combos, 600)
            for a, va, b, vb in combos:
                evals[0] += 1
                try:
                    setattr(o, a, va)
                    setattr(o, b, vb)
                    ga, gb = getattr(o, a), getattr(o, b)
                except Exception as e:
                    found.setdefault("%s.%s+%s:raises" % (type(o).__name__, a, b), "%s: %s.%s = %r then .%s = %r raised %r" % (label, type(o).__name__, a, va, b, vb, e))
                    break
                ta, tb = D[key_of(o, a)].get("tol", 0), D[key_of(o, b)].get("tol", 0)
                fs = lambda kk, v, g: kk == ("Font", "size") and g is not None and 0 <= int(v) - int(g) < 127
                if not (_same(ga, va, ta) or fs(key_of(o, a), va, ga)):
                    found.setdefault("%s.%s:changed-by-%s" % (key_of(o, a)[0], a, b), "%s: %s.%s = %r then .%s = %r: %s now reads %r" % (label, type(o).__name__, a, va, b, vb, a, ga))
                    break
                if not (_same(gb, vb, tb) or fs(key_of(o, b), vb, gb)):
                    found.setdefault("%s.%s:reads-back-differently-after-%s" % (key_of(o, b)[0], b, a), "%s: %s.%s = %r then .%s = %r reads back %r" % (label, type(o).__name__, a, va, b, vb, gb))
                    break
        return None

    def scalars(prs):
        """{(part name, path of the wrapped element, proxy class, property): reading} over the object graph: objects are matched between
        the in-memory and the re-opened deck by WHERE their element sits, not by the order in which a traversal meets them"""
        out = {}
        roots = {}
        for part in prs.part.package.iter_parts():
            r_ = getattr(part, "_element", None)
            if r_ is not None:
                roots[id(r_)] = (str(part.partname), r_)

        def where(o):
            for el in list(vars(o).values()) if hasattr(o, "__dict__") else []:
                if hasattr(el, "tag") and hasattr(el, "getroottree"):
                    root = el.getroottree().getroot()
                    hit = roots.get(id(root))
                    if hit is None or hit[1] is not root:
                        return None  # the proxy wraps an element that is no longer (or not yet) part of a saved tree
                    return hit[0], el.getroottree().getpath(el)
            return None

        def visit(o, n):
            v = getattr(o, n)
            if v is None or isinstance(v, (bool, int, float, str)) or type(v).__module__.startswith("pptx.enum") or type(v).__name__ == "RGBColor":
                w = where(o)
                if w is not None:
                    out[w + (type(o).__name__, n)] = repr(v)
            return v

        _walk(prs, visit, skip={("Slide", "notes_slide"), ("Presentation", "notes_master"), ("_Background", "fill"), ("_BaseShapes", "turbo_add_enabled")}, budget=2500)
        return out

    def chart_gallery(other_producer=False):
        """one chart of each family, stacked and clustered, with legend, title, data labels and markers switched on; with
        `other_producer` the parts are then rewritten the way another producer leaves them: the legend placed by hand (manual layout in
        "edge" mode), attributes that carry the schema default left out"""
        from pptx.chart.data import BubbleChartData, CategoryChartData, XyChartData
        from pptx.enum.chart import XL_CHART_TYPE as T
        from pptx.util import Inches

        prs = Presentation()
        for ct in (T.BAR_CLUSTERED, T.BAR_STACKED, T.COLUMN_STACKED_100, T.COLUMN_CLUSTERED, T.LINE_MARKERS, T.LINE, T.PIE, T.DOUGHNUT, T.AREA_STACKED, T.RADAR, T.XY_SCATTER, T.BUBBLE):
            if ct == T.XY_SCATTER:
                d = XyChartData()
                sr = d.add_series("s")
                sr.add_data_point(1, 2)
                sr.add_data_point(2, 3)
            elif ct == T.BUBBLE:
                d = BubbleChartData()
                sr = d.add_series("s")
                sr.add_data_point(1, 2, 3)
                sr.add_data_point(2, 3, 4)
            else:
                d = CategoryChartData()
                d.categories = ["a", "b", "c"]
                d.add_series("s1", (1, 2, 3))
                d.add_series("s2", (3, 2, 1))
            ch = prs.slides.add_slide(prs.slide_layouts[6]).shapes.add_chart(ct, 0, 0, Inches(4), Inches(3), d).chart
            ch.has_legend = True
            ch.has_title = True
            try:
                ch.plots[0].has_data_labels = True
            except Exception:
                pass
            if other_producer:
                from lxml import etree as _et

                from .c20 import _elide_default_attributes

                C = "http://schemas.openxmlformats.org/drawingml/2006/chart"
                cs = ch.part._element
                for lg_ in cs.iter("{%s}legend" % C):
                    lay = _et.fromstring('<c:layout xmlns:c="%s"><c:manualLayout><c:xMode val="edge"/><c:yMode val="edge"/><c:x val="0.7"/><c:y val="0.1"/>'
                                         '<c:w val="0.2"/><c:h val="0.3"/></c:manualLayout></c:layout>' % C)
                    for old_ in lg_.findall("{%s}layout" % C):
                        lg_.remove(old_)
                    nxt = next((c_ for c_ in lg_ if _et.QName(c_).localname in ("overlay", "spPr", "txPr", "extLst")), None)
                    if nxt is not None:
                        nxt.addprevious(lay)
                    else:
                        lg_.append(lay)
                _elide_default_attributes(cs)
        if other_producer:  # the proxies must see the rewritten parts as a reader would: through a save and re-open
            b_ = io.BytesIO()
            prs.save(b_)
            prs = Presentation(io.BytesIO(b_.getvalue()))
        return prs

    decks = [("rich_deck", rich_deck(seed)), ("chart_gallery", chart_gallery()), ("chart_gallery_as_another_producer_writes_it", chart_gallery(True))]
    if tier != "quick":
        repo = os.environ.get("PPTX_REPO", "/repo")
        for f in sorted(glob.glob(os.path.join(repo, "features", "steps", "test_files", "*.pptx"))):
            decks.append((os.path.basename(f), Presentation(f)))
        decks.append(("rich_deck2", rich_deck(seed + 17)))
    rnd = random.Random(seed)
    for label, prs in decks:
        bad = sweep(prs, label, (14 if label.startswith("chart_gallery") else 3) if tier == "quick" else 14, rnd)
        rec("C09.native.assign_read_reset[%s]" % label, bad)
        if bad:
            continue
        # the final state is read the same after save / re-open
        bad2 = None
        try:
            a = scalars(prs)  # (also settles the elements that reading creates, see the C12 findings)
            a = scalars(prs)
            buf = io.BytesIO()
            prs.save(buf)
            b = scalars(Presentation(io.BytesIO(buf.getvalue())))
            # FillFormat caches the kind of fill it found when it was made: two proxies of one element (a documented caveat of the
            # library, like several Slide proxies of one slide) can disagree in memory, so its readings are not compared here
            common = [k_ for k_ in a if k_ in b and k_[2] != "FillFormat"]
            diff = [k_ for k_ in common if a[k_] != b[k_]]
            if diff:
                k_ = diff[0]
                bad2 = "%s: after the sweep, %s.%s of the element at %s in %s reads %s in memory but %s in the saved and re-opened deck" % (label, k_[2], k_[3], k_[1], k_[0], a[k_], b[k_])
            elif len(common) < 0.8 * max(1, len(a)):
                bad2 = "%s: only %d of %d in-memory readings have a counterpart after save and re-open" % (label, len(common), len(a))
        except Exception as e:
            bad2 = "%s: save / re-open after the sweep raised %r" % (label, e)
        rec("C09.native.sweep_state_survives_reopen[%s]" % label, bad2)
    for sig, wit in sorted(found.items()):
        rec("C09.native.setget[%s]" % sig, wit)
    for lbl, bad in connector_refusal_probes():
        rec("C09.native." + lbl, bad)
    # assigning on one object leaves the same property of its siblings alone, also when they hold equal values (hyperlinks with one
    # address share a relationship): change / clear one of several runs and shapes linking to the same address
    bad = None
    for action, with_shape in [(a_, w_) for a_ in ("change", "clear", "same-again") for w_ in (False, True)]:
        prs_ = Presentation()
        sl_ = prs_.slides.add_slide(prs_.slide_layouts[6])
        tb_ = sl_.shapes.add_textbox(0, 0, 100, 100)
        runs_ = []
        for i_ in range(3):
            r_ = tb_.text_frame.paragraphs[0].add_run()
            r_.text = "r%d" % i_
            r_.hyperlink.address = "http://example.com/same" if i_ < 2 else "http://example.com/other"
            runs_.append(r_)
        shp_ = sl_.shapes.add_shape(1, 0, 0, 10, 10)
        shp_.click_action.hyperlink.address = "http://example.com/same" if with_shape else "http://example.com/shape"
        if action == "change":
            runs_[0].hyperlink.address = "http://example.com/changed"
        elif action == "clear":
            runs_[0].hyperlink.address = None
        else:
            runs_[0].hyperlink.address = "http://example.com/same"
            runs_[2].hyperlink.address = "http://example.com/other"  # the address it already has, not shared with anything
        want = [{"change": "http://example.com/changed", "clear": None, "same-again": "http://example.com/same"}[action], "http://example.com/same", "http://example.com/other", "http://example.com/same" if with_shape else "http://example.com/shape"]

        def read_(sl):
            out = []
            tb = [s_ for s_ in sl.shapes if s_.has_text_frame and s_.text_frame.paragraphs[0].runs][0]
            for r in tb.text_frame.paragraphs[0].runs:
                try:
                    out.append(r.hyperlink.address)
                except Exception as e:
                    out.append(repr(e))
            sh = [s_ for s_ in sl.shapes if not (s_.has_text_frame and s_.text_frame.paragraphs[0].runs)][0]
            try:
                out.append(sh.click_action.hyperlink.address)
            except Exception as e:
                out.append(repr(e))
            return out

        got = read_(sl_)
        if got != want:
            bad = bad or "three runs and a shape link to [same, same, other, %s]; %s on the first run: addresses read %r, expected %r" % ("same" if with_shape else "shape", action, got, want)
        b_ = io.BytesIO()
        prs_.save(b_)
        got2 = read_(Presentation(io.BytesIO(b_.getvalue())).slides[0])
        if got2 != want:
            bad = bad or "three runs and a shape link to [same, same, other, %s]; %s on the first run: after save / re-open addresses read %r, expected %r" % ("same" if with_shape else "shape", action, got2, want)
    rec("C09.native.assigning_a_hyperlink_leaves_the_other_links_alone", bad)
    # "None restores inheritance" has a counterpart: what was never assigned stays inherited -- rotation, name, text, fill or line edits of
    # a fresh placeholder do not give it a position or size of its own
    from .c13 import _non_dimension_edits_keep_inheritance

    rec("C09.native.unassigned_position_and_size_stay_inherited", _non_dimension_edits_keep_inheritance())
    # gradient stops are addressed by index: moving one stop past another changes neither which stop an index designates nor its colour
    from pptx.dml.color import RGBColor as _RGB

    bad = None
    for seq in ([(1, 0.4), (0, 0.75)], [(0, 1.0), (1, 0.0)], [(0, 0.5), (1, 0.5)], [(1, 0.1), (0, 0.9), (1, 0.95), (0, 0.0)]):
        prs_ = Presentation()
        shp = prs_.slides.add_slide(prs_.slide_layouts[6]).shapes.add_shape(1, 0, 0, 100, 100)
        shp.fill.gradient()
        stops = shp.fill.gradient_stops
        stops[0].color.rgb = _RGB(1, 1, 1)
        stops[1].color.rgb = _RGB(2, 2, 2)
        want = [stops[0].position, stops[1].position]
        for i_, v_ in seq:
            stops[i_].position = v_
            want[i_] = v_
        fresh = shp.fill.gradient_stops
        got = [fresh[0].position, fresh[1].position]
        cols = [str(fresh[0].color.rgb), str(fresh[1].color.rgb)]
        if any(abs(a_ - b_) > 1e-5 for a_, b_ in zip(got, want)) or cols != ["010101", "020202"]:
            bad = bad or "gradient stops after %s: positions by index %r (expected %r), colours by index %r (expected ['010101', '020202'])" % (seq, got, want, cols)
    rec("C09.native.gradient_stops_keep_their_index_when_they_cross", bad)
    # connector end points: set / read back over every direction and every crossing (the grid of C17.native_geometry)
    from .c17 import _native_geometry

    for o in _native_geometry(tier=tier, seed=seed)["obligations"]:
        if "connector_end_points" in o["name"]:
            obls.append(dict(o, name=o["name"].replace("C17.", "C09."), base=o["base"].replace("C17.", "C09.")))
    return {"contract": "C09.native_setget_sweep", "prop": "C09", "status": "ok", "obligations": obls, "paths": 0, "assumed": [], "functions": {},
            "notes": [], "solver_s": 0.0, "wall_s": _t.time() - t0,
            "bounded": {"name": "C09.native_setget_sweep", "bound": "%d read/write properties with hand-listed documented domains; every value assigned from two different prior values (forwards and backwards through "
                        "the list), None where documented, other properties of the object re-read; on a deck holding every shape kind%s; then save / re-open" % (len(D), "" if tier == "quick" else " and on every corpus deck"),
                        "evaluations": evals[0], "samples": [], "counted_as_proved": False}}


JOBS = {"C09.native_reopen": _native_reopen, "C09.native_setget_sweep": _native_setget_sweep}


# ---------------------------------------------------------------------------------------------------------
# c:manualLayout: the offset assigned is the offset read, whatever mode and value another producer left there


def _replay_manual_layout(model, rec):
    from pptx.oxml import parse_xml
    from pptx.oxml.ns import nsdecls

    for prior in ("", '<c:xMode val="edge"/>', '<c:xMode val="edge"/><c:x val="0.7"/>', '<c:xMode/><c:x val="0.7"/>', '<c:x val="0.7"/>', '<c:xMode val="factor"/><c:x val="-0.1"/>'):
        for v in (0.25, -1.0, 0.5):
            ml = parse_xml("<c:manualLayout %s>%s</c:manualLayout>" % (nsdecls("c"), prior))
            ml.horz_offset = v
            if ml.horz_offset != v:
                return {"confirmed": True, "witness_class": "set-get", "detail": "c:manualLayout holding %r: horz_offset = %r reads back %r" % (prior, v, ml.horz_offset)}
    return {"confirmed": False, "detail": "horz_offset reads back as assigned from every prior layout state"}


def _make_manual_layout(xmode_state, x_state, value):
    @contract("C09", "C09.oxml.chart.shared.CT_ManualLayout.horz_offset[xMode %s, x %s, value %r]" % (xmode_state, x_state, value), replay=_replay_manual_layout)
    def body(c):
        """after `horz_offset = v` the getter returns v: the mode is (re)set to factor and the value stored, whichever of c:xMode / c:x were
        present and whatever they held (prior states enumerated; attribute descriptors of the children run from source)."""
        from pptx.oxml.chart.shared import CT_Double, CT_LayoutMode, CT_ManualLayout

        def child(cls, attrs):
            return AttrElem(cls, attrs)

        xm = {"absent": None, "without val": child(CT_LayoutMode, {}), "edge": child(CT_LayoutMode, {"val": "edge"}), "factor": child(CT_LayoutMode, {"val": "factor"})}[xmode_state]
        x = {"absent": None, "0.7": child(CT_Double, {"val": "0.7"})}[x_state]
        ml = SObj(CT_ManualLayout, "manualLayout", x=x, xMode=xm)

        def goa(field, cls):
            def h(it, a, k):
                if ml.fields[field] is None:
                    ml.fields[field] = child(cls, {})
                return ml.fields[field]
            return GhostFn(h, "get_or_add_" + field)

        ml.fields["get_or_add_xMode"] = goa("xMode", CT_LayoutMode)
        ml.fields["get_or_add_x"] = goa("x", CT_Double)
        c.path.assumed.add("get_or_add_<child> returns the existing child or adds an attribute-less one (C10 contracts)")
        out = c.run(CT_ManualLayout.horz_offset.fset, ml, value)
        if out.raised:
            c.fails("set.never_raises", "raised %s" % out.exc)
            return
        back = c.run(CT_ManualLayout.horz_offset.fget, ml)
        if back.raised:
            c.fails("get.never_raises", "raised %s" % back.exc)
            return
        r = back.value
        c.ensures("post.reads_back", r == value)

    return body


for _xm in ("absent", "without val", "edge", "factor"):
    for _x in ("absent", "0.7"):
        for _v in (0.25, -1.0):
            _make_manual_layout(_xm, _x, _v)


# ---------------------------------------------------------------------------------------------------------
# removing a hyperlink: XmlPart.drop_rel keeps a relationship that is referenced twice or more, counting the reference about to go;
# so it has to be asked while that reference is still in the XML, or a relationship another run / shape still uses is dropped


def _replay_unlink(model, rec):
    from pptx import Presentation

    for kind in ("run", "shape"):
        prs = Presentation()
        sl = prs.slides.add_slide(prs.slide_layouts[6])
        if kind == "run":
            p = sl.shapes.add_textbox(0, 0, 10, 10).text_frame.paragraphs[0]
            objs = []
            for i in range(2):
                rr = p.add_run()
                rr.text = "r%d" % i
                rr.hyperlink.address = "http://example.com/same"
                objs.append(rr.hyperlink)
        else:
            objs = []
            for i in range(2):
                sh = sl.shapes.add_shape(1, 0, 0, 10, 10)
                sh.click_action.hyperlink.address = "http://example.com/same"
                objs.append(sh.click_action.hyperlink)
        objs[0].address = None
        try:
            got = objs[1].address
        except Exception as e:
            got = repr(e)
        if got != "http://example.com/same":
            return {"confirmed": True, "witness_class": "set-get", "detail": "two %ss link to one address; clearing the first: the second reads %s" % (kind, got)}
    return {"confirmed": False, "detail": "clearing one of two links to the same address leaves the other"}


def _make_unlink(which):
    @contract("C09", "C09.%s.drops_the_relationship_while_still_referenced" % which, replay=_replay_unlink)
    def body(c):
        """the relationship is released (drop_rel, once, with the element's own id) BEFORE the referencing element leaves the XML, and the
        element is gone afterwards."""
        import pptx.action as act
        import pptx.text.text as txt

        RID = SStr([Atom("rId", zs=z3.String("rId"))])
        c.requires(z3.Length(z3.String("rId")) > 0)
        state = {"present": True, "drops": []}
        hl = SObj(None, "hlink", rId=RID, __external__=True)

        def drop(it, a, k):
            state["drops"].append((a[0], state["present"]))

        part = SObj(None, "part", drop_rel=GhostFn(drop, "XmlPart.drop_rel"), __external__=True)
        parent = SObj(None, "parent", part=part, __external__=True)

        def gone(it, a, k):
            state["present"] = False

        if which == "text.text._Hyperlink._remove_hlinkClick":
            from pyvc.engine import GhostProp

            rPr = SObj(None, "rPr", hlinkClick=GhostProp(lambda it: hl if state["present"] else None), _remove_hlinkClick=GhostFn(gone, "_remove_hlinkClick"), __external__=True)
            obj = SObj(txt._Hyperlink, "hyperlink", _rPr=rPr, _parent=parent)
            fn = txt._Hyperlink._remove_hlinkClick
        else:
            from pyvc.engine import GhostProp

            el = SObj(None, "cNvPr", hlinkClick=GhostProp(lambda it: hl if state["present"] else None), remove=GhostFn(gone, "lxml.remove"), __external__=True)
            if which == "action.Hyperlink._remove_hlink":
                obj = SObj(act.Hyperlink, "hyperlink", _element=el, _parent=parent, _hover=False)
                fn = act.Hyperlink._remove_hlink
            else:
                obj = SObj(act.ActionSetting, "click_action", _element=el, _parent=parent, _hover=False)
                fn = act.ActionSetting._clear_click_action
        out = c.run(fn, obj)
        if out.raised:
            c.fails("never_raises", "raised %s" % out.exc)
            return
        c.ensures("post.released_once_with_its_own_id", len(state["drops"]) == 1 and state["drops"][0][0] is RID)
        c.ensures("post.released_while_the_reference_is_still_counted", all(p for _, p in state["drops"]))
        c.ensures("post.element_removed", state["present"] is False)

    return body


for _w in ("text.text._Hyperlink._remove_hlinkClick", "action.Hyperlink._remove_hlink", "action.ActionSetting._clear_click_action"):
    _make_unlink(_w)

"""Sidecar contracts for python-pptx, one module per property (DESIGN.md section 3)."""

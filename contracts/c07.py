"""C07 -- a chart's XML is valid and reports exactly the data it was given.  DESIGN.md 5/C07.

Writer side: _BaseSeriesXmlWriter.pt_xml verified by a loop invariant over a ghost text accumulator: the text is the
c:ptCount piece followed by exactly one c:pt piece per non-None value, in order, carrying that value's own index.
Reader side: series.values maps ptCount and the c:pt elements back to the list (None where no c:pt has that idx).
Their composition (over the assumed XML text <-> element correspondence) is the round trip.  Data side:
Categories.depth / leaf_count / levels, Category.idx / index / leaf_count (hierarchical categories), and the series
rewriter's counting (_adjust_ser_count, next_idx / next_order freshness).  Everything about whole charts -- validity of all
29 writable types against dml-chart.xsd, round trip of names / values / categories of every shape, replace_data with a
different shape, formatting of surviving series -- is the bounded C07.native_charts job."""
from __future__ import annotations

import datetime as _dt
import io
import time as _t

import z3

from pyvc.engine import Atom, FmtInt, GhostFn, SObj, SSeq, SStr, invariant_loop
from pyvc.verify import contract

META = {
    "residual": [
        "the chart XML templates (about 1800 lines of string building in xmlwriter.py) are validated per chart type by the bounded job only; C05 covers their escaping",
        "XML text <-> element correspondence (lxml parsing of the text the writer builds) is assumed when writer and reader contracts are composed",
        "xpath('.//c:pt[@idx=%d]') / './/c:ptCount/@val' enter as ghost contracts (the elements with that idx / the count attribute)",
        "float rendering of values ('%s' of a Python float) and its re-parsing by float() are covered by the bounded job (repr round trip is exact for doubles)",
    ],
    "trusted_base": ["z3 arrays / quantifiers", "lxml", "libxml2 XMLSchema (bounded job)", "C08 workbook contracts", "C10 insertion contracts"],
}


# ---------------------------------------------------------------------------------------------------------
# BOUNDED native job


def _serial(d):
    """independent Excel serial date (1900 system, with the 1900 leap-year bug)"""
    return (d - _dt.date(1899, 12, 30)).days if d >= _dt.date(1900, 3, 1) else (d - _dt.date(1899, 12, 31)).days


def _expected_labels(cats):
    out = []
    for c in cats:
        if isinstance(c, _dt.date):
            out.append(float(_serial(c)))
        elif isinstance(c, (int, float)):
            out.append(float(c))
        else:
            out.append(c)
    return out


def _norm_label(x):
    try:
        return float(x)
    except (TypeError, ValueError):
        return x


def _read_plot(plot):
    cats = plot.categories
    flat = [tuple(t) for t in cats.flattened_labels]
    sers = [(s.name, list(s.values)) for s in plot.series]
    return flat, sers


def _check_category_chart(chart, cats_spec, series_spec, what):
    """cats_spec: list of leaf labels OR list of tuples (flattened parent..leaf); series_spec: [(name, [values])]"""
    plots = list(chart.plots)
    got_series = []
    for p in plots:
        got_series += [(s.name, list(s.values)) for s in p.series]
    want_series = [(n, [None if v is None else float(v) for v in vals]) for n, vals in series_spec]
    if [(n, [None if v is None else float(v) for v in vs]) for n, vs in got_series] != want_series:
        return "%s: series read back %r, supplied %r" % (what, got_series, want_series)
    if series_spec and plots:
        flat = [tuple(t) for t in plots[0].categories.flattened_labels]
        want = [tuple(c) if isinstance(c, tuple) else (c,) for c in cats_spec]
        wantn = [tuple(_norm_label(x) if not isinstance(x, str) else x for x in _expected_labels(list(t))) for t in want]
        gotn = [tuple(_norm_label(x) if not isinstance(w, str) else x for x, w in zip(t, wt)) for t, wt in zip(flat, wantn)]
        if len(flat) != len(want) or gotn != wantn:
            return "%s: categories read back %r, supplied %r" % (what, flat, want)
    ids = [(s._element.idx.val, s._element.order.val) for p in plots for s in p.series]
    if len({i for i, o in ids}) != len(ids) or len({o for i, o in ids}) != len(ids):
        return "%s: series idx/order not unique: %s" % (what, ids)
    return None


def _cat_data(shape, nser, rnd, number_format=None):
    from pptx.chart.data import CategoryChartData

    d = CategoryChartData(number_format=number_format) if number_format else CategoryChartData()
    if shape == "strings":
        cats = ["West", "East & <North>", " lead", ""][: rnd.choice([1, 2, 4])]
        d.categories = cats
        spec = list(cats)
    elif shape == "one":
        d.categories = ["only"]
        spec = ["only"]
    elif shape == "many":
        spec = ["c%d" % i for i in range(rnd.choice([40, 300]))]
        d.categories = spec
    elif shape == "numbers":
        spec = rnd.choice([[1, 2.5, -3, 1e6], [0, 1, 2, -3], [0.0, 0.5, 1e6, 2], [-1, 0, 1, 2]])[: rnd.choice([2, 4])]  # zero is a number like any other
        d.categories = spec
    elif shape == "dates":
        spec = [_dt.date(1900, 1, 1), _dt.date(1900, 2, 28), _dt.date(1900, 3, 1), _dt.date(2020, 12, 31)][: rnd.choice([2, 4])]
        d.categories = spec
    elif shape == "two_level":
        spec = []
        for parent, kids in (("US", ["CA", "NY", "TX"]), ("", ["DE"]), ("Asia", ["JP", ""])):  # blank labels at both levels
            cat = d.add_category(parent)
            for k in kids:
                cat.add_sub_category(k)
                spec.append((parent, k))
    elif shape == "three_level_ragged":
        spec = []
        a = d.add_category("A")
        a1 = a.add_sub_category("A1")
        for leaf in ("x", "y"):
            a1.add_sub_category(leaf)
            spec.append(("A", "A1", leaf))
        a2 = a.add_sub_category("A2")
        a2.add_sub_category("z")
        spec.append(("A", "A2", "z"))
        b = d.add_category("B")
        b1 = b.add_sub_category("A1")  # labels repeat under different parents (quarters under years): a label does not identify a node
        for leaf in ("x", "w"):
            b1.add_sub_category(leaf)
            spec.append(("B", "A1", leaf))
        b2 = b.add_sub_category("A2")
        b2.add_sub_category("z")
        spec.append(("B", "A2", "z"))
    else:
        raise ValueError(shape)
    n = len(spec)
    series = []
    for i in range(nser):
        vals = [rnd.choice([1, 2.5, -7.25, 0, None, 1e-9, 123456789.125]) for _ in range(n)]
        if i == 1:
            vals = [None] * n  # an all-missing series
        name = rnd.choice(["S%d" % i, "a&b <%d>" % i, " "])
        d.add_series(name, vals, number_format=rnd.choice([None, "0.00", '#,##0 "u"']) if rnd.random() < 0.3 else None)
        series.append((name, vals))
    return d, spec, series


def _native_charts(tier="quick", seed=0):
    import random

    from pptx import Presentation
    from pptx.chart.data import BubbleChartData, XyChartData
    from pptx.dml.color import RGBColor
    from pptx.enum.chart import XL_CHART_TYPE
    from pptx.util import Inches

    from .c03 import validate_root

    t0 = _t.time()
    obls, evals = [], 0
    rnd = random.Random(seed)

    def rec(name, bad):
        r = {"name": name, "base": name, "kind": "bounded", "status": "refuted" if bad else "discharged", "backend": "native", "time": 0, "path": 0}
        if bad:
            wc = "chart-roundtrip"
            if name.endswith(("[PIE]", "[PIE_EXPLODED]")) and ("series read back" in bad or "series before" in bad):
                wc = "pie-extra-series-not-written"
            r["replay"] = {"confirmed": True, "witness_class": wc, "detail": bad}
            r["model"] = None
        obls.append(r)

    cat_types, xy_types, bubble_types = [], [], []
    for ct in XL_CHART_TYPE:
        prs = Presentation()
        s = prs.slides.add_slide(prs.slide_layouts[6])
        for lst, mk in ((cat_types, lambda: _cat_data("strings", 1, random.Random(1))[0]),):
            try:
                s.shapes.add_chart(ct, 0, 0, Inches(2), Inches(2), mk())
                lst.append(ct)
            except (NotImplementedError, AttributeError, TypeError, KeyError):
                pass
    for ct in XL_CHART_TYPE:
        if ct in cat_types:
            continue
        prs = Presentation()
        s = prs.slides.add_slide(prs.slide_layouts[6])
        for lst, D, add in ((xy_types, XyChartData, lambda ser: ser.add_data_point(1, 2)), (bubble_types, BubbleChartData, lambda ser: ser.add_data_point(1, 2, 3))):
            d = D()
            add(d.add_series("s"))
            try:
                s.shapes.add_chart(ct, 0, 0, Inches(2), Inches(2), d)
                lst.append(ct)
                break
            except (NotImplementedError, AttributeError, TypeError, KeyError):
                pass
    n_types = len(cat_types) + len(xy_types) + len(bubble_types)
    rec("C07.native.writable_chart_types_found", None if n_types >= 29 else "only %d chart types accept data (29 documented)" % n_types)
    shapes = ["strings", "one", "numbers", "dates", "two_level", "three_level_ragged"] + (["many"] if tier != "quick" else [])
    nsers = [0, 1, 2, 3] if tier == "quick" else [0, 1, 2, 5, 50]
    pie_like = {t for t in cat_types if t.name.split("_")[0] in ("PIE", "DOUGHNUT")}
    single_series = {t for t in cat_types if t.name.split("_")[0] == "PIE"}
    # 1. add_chart: validity + read-back, every category chart type x shape x series count
    for ct in cat_types:
        bad = None
        for shape in shapes:
            for nser in nsers:
                if nser == 0 and ct in pie_like:
                    continue  # documented domain: at least one series for pie types
                if nser > 1 and ct in single_series:
                    continue  # a pie chart shows one series; what happens to further series is the dedicated obligation below
                d, spec, series = _cat_data(shape, nser, rnd, number_format=rnd.choice([None, "0.0", "mm/dd/yyyy"]))
                prs = Presentation()
                sl = prs.slides.add_slide(prs.slide_layouts[6])
                what = "%s, %s categories, %d series" % (ct.name, shape, nser)
                evals += 1
                try:
                    chart = sl.shapes.add_chart(ct, 0, 0, Inches(3), Inches(2), d).chart
                    v = validate_root(chart.part._element)
                    if v:
                        bad = bad or "%s: chart part not schema-valid: %s" % (what, v[:2])
                        continue
                    b = _check_category_chart(chart, spec, series, what)
                    if b is None:
                        buf = io.BytesIO()
                        prs.save(buf)
                        ch2 = [x for x in Presentation(io.BytesIO(buf.getvalue())).slides[0].shapes if x.has_chart][0].chart
                        b = _check_category_chart(ch2, spec, series, what + " (after save and re-open)")
                    bad = bad or b
                except Exception as e:
                    bad = bad or "%s: raised %r" % (what, e)
        rec("C07.native.add_chart_valid_and_reads_back[%s]" % ct.name, bad)
    for ct in sorted(single_series, key=lambda t: t.name):
        d, spec, series = _cat_data("strings", 2, random.Random(5))
        prs = Presentation()
        sl = prs.slides.add_slide(prs.slide_layouts[6])
        chart = sl.shapes.add_chart(ct, 0, 0, Inches(3), Inches(2), d).chart
        rec("C07.native.add_chart_reports_every_series_supplied[%s]" % ct.name, _check_category_chart(chart, spec, series, "%s with 2 series" % ct.name))
    # 2. XY and bubble
    bad = None
    for kinds, D in ((xy_types, XyChartData), (bubble_types, BubbleChartData)):
        for ct in kinds:
            for nser in [0, 1, 3]:
                for npts in [0, 1, 4]:
                    d = D()
                    spec = []
                    for i in range(nser):
                        ser = d.add_series("s%d" % i)
                        pts = []
                        for k in range(npts):
                            p = (rnd.choice([0, 1.5, -2]), rnd.choice([0, 3.25, 1e6]), rnd.choice([1, 2.5]))
                            if D is XyChartData:
                                ser.add_data_point(p[0], p[1])
                                pts.append(p[:2])
                            else:
                                ser.add_data_point(*p)
                                pts.append(p)
                        spec.append(("s%d" % i, pts))
                    prs = Presentation()
                    sl = prs.slides.add_slide(prs.slide_layouts[6])
                    what = "%s, %d series x %d points" % (ct.name, nser, npts)
                    evals += 1
                    try:
                        chart = sl.shapes.add_chart(ct, 0, 0, Inches(3), Inches(2), d).chart
                        v = validate_root(chart.part._element)
                        if v:
                            bad = bad or "%s: chart part not schema-valid: %s" % (what, v[:2])
                            continue
                        got = []
                        for s_ in chart.plots[0].series if list(chart.plots) else []:
                            xs = [float(x) for x in s_._element.xpath("./c:xVal//c:pt/c:v/text()")]
                            ys = list(s_.values)
                            row = list(zip(xs, ys))
                            if D is BubbleChartData:
                                zs = [float(x) for x in s_._element.xpath("./c:bubbleSize//c:pt/c:v/text()")]
                                row = list(zip(xs, ys, zs))
                            got.append((s_.name, [tuple(float(q) for q in r) for r in row]))
                        want = [(n, [tuple(float(q) for q in r) for r in pts]) for n, pts in spec]
                        if got != want:
                            bad = bad or "%s: points read back %r, supplied %r" % (what, got, want)
                    except Exception as e:
                        bad = bad or "%s: raised %r" % (what, e)
    rec("C07.native.xy_and_bubble_charts_valid_and_read_back", bad)
    # 2b. a chart that holds no series (add_chart with data that has none, or a PowerPoint-authored empty plot) takes new data too
    bad = None
    for ct in cat_types[:3]:
        d0, _, _ = _cat_data("strings", 0, random.Random(2))
        d2, spec2b, ser2b = _cat_data("strings", 2, random.Random(3))
        prs = Presentation()
        sl = prs.slides.add_slide(prs.slide_layouts[6])
        evals += 1
        try:
            chart = sl.shapes.add_chart(ct, 0, 0, Inches(3), Inches(2), d0).chart
            chart.replace_data(d2)
            b = _check_category_chart(chart, spec2b, ser2b, "%s: no series, then replace_data with 2 series" % ct.name)
            bad = bad or b
        except Exception as e:
            bad = bad or "%s: chart added with no series, then replace_data with 2 series: raised %r" % (ct.name, e)
    rec("C07.native.replace_data_on_a_chart_without_series", bad)
    # 2c. one chart-data object used twice with changes in between (a category, a series, a point added; a number format changed)
    bad = None
    from pptx.chart.data import CategoryChartData as _CCD

    for ct in [t for t in cat_types if t.name in ("COLUMN_CLUSTERED", "LINE", "AREA", "BAR_STACKED", "PIE", "RADAR")]:
        cd = _CCD()
        cd.categories = ["Q1", "Q2"]
        s1 = cd.add_series("first", (1, 2))
        prs = Presentation()
        sl = prs.slides.add_slide(prs.slide_layouts[6])
        evals += 1
        try:
            chart = sl.shapes.add_chart(ct, 0, 0, Inches(3), Inches(2), cd).chart
            _ = chart.part.blob, cd.xlsx_blob, cd.categories.leaf_count, cd.categories.depth
            cd.add_category("Q3")
            s1.add_data_point(3.5)
            series_now = [("first", [1, 2, 3.5])]
            if ct not in single_series:
                s2 = cd.add_series("second", (7, None, 9))
                series_now.append(("second", [7, None, 9]))
            chart.replace_data(cd)
            b = _check_category_chart(chart, ["Q1", "Q2", "Q3"], series_now, "%s: chart data re-used after a category, a point and a series were added" % ct.name)
            if b is None:
                v = validate_root(chart.part._element)
                b = ("%s: chart part not schema-valid after re-use: %s" % (ct.name, v[:1])) if v else None
            bad = bad or b
        except Exception as e:
            bad = bad or "%s: chart data re-used after additions: raised %r" % (ct.name, e)
    rec("C07.native.chart_data_object_reused_after_changes", bad)
    # 3. replace_data with data of a different shape; formatting of surviving series and other chart content untouched
    reps = 2 if tier == "quick" else 6
    for ct in cat_types:
        bad = None
        for rep in range(reps):
            shape1, shape2 = rnd.choice(shapes), rnd.choice(shapes)
            n1, n2 = rnd.choice([1, 2, 4]), rnd.choice([1, 2, 3, 6] if ct not in pie_like else [1, 2])
            if ct in single_series:
                n1 = n2 = 1
            d1, spec1, ser1 = _cat_data(shape1, n1, rnd)
            d2, spec2, ser2 = _cat_data(shape2, n2, rnd)
            prs = Presentation()
            sl = prs.slides.add_slide(prs.slide_layouts[6])
            what = "%s: %s x%d replaced by %s x%d" % (ct.name, shape1, n1, shape2, n2)
            evals += 1
            try:
                chart = sl.shapes.add_chart(ct, 0, 0, Inches(3), Inches(2), d1).chart
                chart.has_legend = True
                chart.has_title = True
                chart.chart_title.text_frame.text = "Title"
                s0 = chart.plots[0].series[0]
                s0.format.fill.solid()
                s0.format.fill.fore_color.rgb = RGBColor(1, 2, 3)
                from lxml import etree

                def other_content(ch):
                    """everything except c:ser data children: title, legend, axes, plot-level settings, series formatting"""
                    root = etree.fromstring(etree.tostring(ch.part._element))
                    C = "{http://schemas.openxmlformats.org/drawingml/2006/chart}"
                    for ser in root.iter(C + "ser"):
                        for k in list(ser):
                            if k.tag in (C + "tx", C + "cat", C + "val", C + "xVal", C + "yVal", C + "bubbleSize", C + "idx", C + "order"):
                                ser.remove(k)
                    for ed in root.iter(C + "externalData"):
                        ed.getparent().remove(ed)
                    sers = list(root.iter(C + "ser"))
                    return root, [etree.tostring(s, method="c14n") for s in sers]

                root1, sers1 = other_content(chart)
                chart.replace_data(d2)
                v = validate_root(chart.part._element)
                if v:
                    bad = bad or "%s: chart part not schema-valid after replace_data: %s" % (what, v[:2])
                    continue
                b = _check_category_chart(chart, spec2, ser2, what)
                if b:
                    bad = bad or b
                    continue
                root2, sers2 = other_content(chart)
                keep = min(n1, n2)
                if sers2[:keep] != sers1[:keep]:
                    if len(sers1) < keep or len(sers2) < keep:
                        bad = bad or "%s: %d series before, %d after, expected at least %d" % (what, len(sers1), len(sers2), keep)
                    else:
                        k = next(i for i in range(keep) if sers1[i] != sers2[i])
                        bad = bad or "%s: formatting of surviving series %d changed: %s -> %s" % (what, k, sers1[k].decode()[:300], sers2[k].decode()[:300])
                C = "{http://schemas.openxmlformats.org/drawingml/2006/chart}"
                for r in (root1, root2):
                    for ser in list(r.iter(C + "ser")):
                        ser.getparent().remove(ser)
                if etree.tostring(root1, method="c14n") != etree.tostring(root2, method="c14n"):
                    bad = bad or "%s: chart content other than series changed" % what
            except Exception as e:
                bad = bad or "%s: raised %r" % (what, e)
        rec("C07.native.replace_data_changes_data_only[%s]" % ct.name, bad)
    # 4. PowerPoint-authored charts of the corpus: replace_data keeps other content, trims plots left empty
    import glob
    import os

    bad = None
    repo = os.environ.get("PPTX_REPO", "/repo")
    files = sorted(glob.glob(os.path.join(repo, "features", "steps", "test_files", "cht-*.pptx")))
    if tier == "quick":
        files = [f for f in files if os.path.basename(f) in ("cht-replace-data.pptx", "cht-charts.pptx", "cht-series.pptx", "cht-plot-props.pptx")]
    # each file as authored, and once more with the c:order values of multi-plot charts interleaved between the plots (what PowerPoint
    # writes when every other series of a column chart is turned into a line): the chart-wide series sequence stays plot by plot
    for f, interleave in [(f_, i_) for f_ in files for i_ in (False, True)]:
        prs = Presentation(f)
        for sl in prs.slides:
            for sh in sl.shapes:
                if not sh.has_chart:
                    continue
                chart = sh.chart
                what = "%s / %s%s" % (os.path.basename(f), chart.chart_type, " with c:order interleaved between plots" if interleave else "")
                if interleave:
                    C_ = "{http://schemas.openxmlformats.org/drawingml/2006/chart}"
                    plots_ = [sorted(p._element.findall(C_ + "ser"), key=lambda e_: int(e_.find(C_ + "order").get("val"))) for p in chart.plots]
                    if len(plots_) < 2:
                        continue
                    k_, rr_ = 0, [list(p_) for p_ in plots_]
                    while any(rr_):
                        for p_ in rr_:
                            if p_:
                                p_.pop(0).find(C_ + "order").set("val", str(k_))
                                k_ += 1
                    if [s_._element for s_ in chart.series] != [e_ for p_ in plots_ for e_ in p_]:
                        bad = bad or "%s: chart.series is not the series of the first plot followed by those of the next" % what
                evals += 1
                try:
                    is_xy = any(p._element.tag.endswith(("scatterChart", "bubbleChart")) for p in chart.plots)
                    if is_xy or validate_root(chart.part._element):
                        continue  # XY data kinds are exercised above; an invalid authored chart is outside the precondition
                    n2 = rnd.choice([1, 2, 5])
                    d2, spec2, ser2 = _cat_data(rnd.choice(["strings", "numbers", "two_level"]), n2, rnd)
                    nplots_before = len(list(chart.plots))
                    chart.replace_data(d2)
                    v = validate_root(chart.part._element)
                    if v:
                        bad = bad or "%s: not schema-valid after replace_data with %d series: %s" % (what, n2, v[:2])
                        continue
                    b = _check_category_chart(chart, spec2, ser2, what)
                    bad = bad or b
                    if any(len(list(p.series)) == 0 for p in chart.plots):
                        bad = bad or "%s: a plot without series survives replace_data" % what
                except Exception as e:
                    bad = bad or "%s: replace_data raised %r" % (what, e)
    rec("C07.native.corpus_charts_replace_data", bad)
    return {"contract": "C07.native_charts", "prop": "C07", "status": "ok", "obligations": obls, "paths": 0, "assumed": [], "functions": {}, "notes": [], "solver_s": 0.0, "wall_s": _t.time() - t0,
            "bounded": {"name": "C07.native_charts", "bound": "%d writable chart types x %d category shapes (strings incl. markup/blank, one, numbers, dates either side of 1900-03-01, 2-level, ragged 3-level%s) x series counts %s "
                        "with missing values and an all-missing series; XY/bubble 0..3 series x 0..4 points; replace_data %d times per type with a different shape; corpus charts" % (
                            n_types, len(shapes), ", hundreds of points" if tier != "quick" else "", nsers, reps), "evaluations": evals, "samples": [], "counted_as_proved": False}}


JOBS = {"C07.native_charts": _native_charts}


# ---------------------------------------------------------------------------------------------------------
# writer: c:ptCount / c:pt idx


class _OptVal:
    """value j of a series: None iff ISNONE(j), else the number V(j)"""

    __pyvc_symbolic__ = True

    def __init__(self, j, ISNONE, V):
        self.j, self.ISNONE, self.V = j, ISNONE, V

    def sym_is(self, it, other):
        if other is None:
            return self.ISNONE(self.j)
        return False

    def sym_is_none(self, it):
        return self.ISNONE(self.j)

    def sym_eq(self, it, other):
        if other is None:
            return self.ISNONE(self.j)
        raise Exception("ghost value compared with %r" % (other,))

    def sym_str(self, it):
        from pyvc.engine import FmtReal

        it.path.assumed.add("str.format of a float value is the rendering of that same number")
        return SStr([FmtReal(self.V(self.j))])

    sym_format = sym_str


def _replay_pt(model, rec):
    from pptx.chart.xmlwriter import _BaseSeriesXmlWriter
    from pptx.oxml import parse_xml

    w = _BaseSeriesXmlWriter(None)
    for vals in ([], [None], [1.5], [None, 2, None, 4.25, None], [None, None], [7, None]):
        xml = w.pt_xml(vals)
        from lxml import etree

        C = "{http://schemas.openxmlformats.org/drawingml/2006/chart}"
        root = etree.fromstring('<c:numCache xmlns:c="http://schemas.openxmlformats.org/drawingml/2006/chart">%s</c:numCache>' % xml)
        cnt = int(root.find(C + "ptCount").get("val"))
        pts = {int(p.get("idx")): float(p.find(C + "v").text) for p in root.findall(C + "pt")}
        want = {i: float(v) for i, v in enumerate(vals) if v is not None}
        if cnt != len(vals) or pts != want or [int(p.get("idx")) for p in root.findall(C + "pt")] != sorted(want):
            return {"confirmed": True, "witness_class": "pt-xml", "detail": "values %r: ptCount %d, points %r" % (vals, cnt, pts), "input": vals}
    return {"confirmed": False, "detail": "ptCount = number of values, one c:pt per non-None value with its own index"}


@contract("C07", "C07.chart.xmlwriter._BaseSeriesXmlWriter.pt_xml", replay=_replay_pt, timeout_ms=30000)
def _pt_xml(c):
    """for any number of values, any of them missing: the text is the c:ptCount piece carrying len(values) followed by one
    c:pt piece per non-None value, in order, whose idx hole is that value's index and whose c:v hole is that value."""
    from pptx.chart.xmlwriter import _BaseSeriesXmlWriter
    from pyvc.gsets import GText

    n = c.int("n_values")
    c.requires(n >= 0)
    ISNONE = z3.Function("IS_NONE", z3.IntSort(), z3.BoolSort())
    V = z3.Function("VALUE", z3.IntSort(), z3.RealSort())
    for q in range(3):
        c.input("none%d" % q, ISNONE(z3.IntVal(q)))
    vals = SSeq(n, lambda j: _OptVal(j, ISNONE, V), name="values")
    # RANK(k) = number of non-None values among the first k (ghost definition)
    RANK = z3.Function("RANK", z3.IntSort(), z3.IntSort())
    j = z3.Int("rj")
    c.path.assume(RANK(0) == 0)
    c.path.assume(z3.ForAll([j], z3.Implies(j >= 0, RANK(j + 1) == RANK(j) + z3.If(ISNONE(j), 0, 1))))
    c.path.assumed.add("RANK(k): ghost definition (number of non-None values among the first k)")
    w = SObj(_BaseSeriesXmlWriter, "series_writer")
    shapes = {}

    def facts(g, k):
        g = GText.of(g)
        idx, val = g.hole(0, z3.IntSort()), g.hole(1, z3.RealSort())
        shapes["last"] = g
        return z3.And(
            g.cnt == RANK(k), RANK(k) >= 0,
            z3.ForAll([j], z3.Implies(z3.And(0 <= j, j < k), z3.And(RANK(j) >= 0, RANK(j) <= RANK(j + 1), RANK(j + 1) <= RANK(k)))),
            z3.ForAll([j], z3.Implies(z3.And(0 <= j, j < k, z3.Not(ISNONE(j))), z3.And(RANK(j) < g.cnt, idx[RANK(j)] == j, val[RANK(j)] == V(j)))),
        )

    c.loop_specs[("pptx.chart.xmlwriter:_BaseSeriesXmlWriter.pt_xml", 0)] = invariant_loop(
        "C07.chart.xmlwriter._BaseSeriesXmlWriter.pt_xml.loop0", ["xml"], lambda env, k: facts(env["xml"], k))
    out = c.run(_BaseSeriesXmlWriter.pt_xml, w, vals)
    if out.raised:
        c.fails("never_raises", "raised %s" % out.exc)
        return
    g = out.value
    ok = isinstance(g, GText)
    c.ensures("post.result_is_prefix_plus_pieces", ok)
    if not ok:
        return
    pre = g.prefix
    okp = isinstance(pre, SStr) and len([p for p in pre.parts if isinstance(p, FmtInt)]) == 1 and "<c:ptCount val=\"" in "".join(p for p in pre.parts if isinstance(p, str))
    c.ensures("post.prefix_is_the_ptCount_piece", okp)
    if okp:
        cnt_term = [p for p in pre.parts if isinstance(p, FmtInt)][0].term
        c.ensures("post.ptCount_is_the_number_of_values", cnt_term == n)
    c.ensures("post.one_pt_per_present_value_with_own_idx_and_value", facts(g, n))
    sk = g.shape
    if sk is not None:
        lit = [p for p in sk if p != "\x00"]
        c.ensures("post.piece_is_a_c_pt_with_idx_and_v", len(lit) == 3 and '<c:pt idx="' in lit[0] and "<c:v>" in lit[1] and "</c:v>" in lit[2] and "</c:pt>" in lit[2])
    # every appended piece belongs to a present value: surjectivity of RANK onto [0, cnt)
    a = z3.Int("ra")
    c.ensures("post.nothing_else_appended", g.cnt == RANK(n))


# ---------------------------------------------------------------------------------------------------------
# reader: series.values


def _replay_values(model, rec):
    from pptx.oxml import parse_xml

    import pptx.chart.series as ser_mod

    xml = ('<c:ser xmlns:c="http://schemas.openxmlformats.org/drawingml/2006/chart"><c:idx val="0"/><c:order val="0"/><c:val><c:numRef><c:f>x</c:f><c:numCache>'
           '<c:formatCode>General</c:formatCode><c:ptCount val="5"/><c:pt idx="1"><c:v>2</c:v></c:pt><c:pt idx="3"><c:v>4.25</c:v></c:pt></c:numCache></c:numRef></c:val></c:ser>')
    s = ser_mod.BarSeries(parse_xml(xml))
    got = list(s.values)
    if got != [None, 2.0, None, 4.25, None]:
        return {"confirmed": True, "witness_class": "series-values", "detail": "ptCount 5 with points at 1 and 3 reads %r" % (got,)}
    return {"confirmed": False, "detail": "values fill gaps with None up to ptCount"}


@contract("C07", "C07.chart.series._BaseCategorySeries.values", replay=_replay_values, timeout_ms=30000)
def _values(c):
    """values has exactly ptCount entries; entry k is the value of the c:pt whose idx is k, None when there is none."""
    import pptx.chart.series as ser_mod

    N = c.int("ptCount")
    c.requires(N >= 0)
    PRESENT = z3.Function("PT_PRESENT", z3.IntSort(), z3.BoolSort())
    PV = z3.Function("PT_VALUE", z3.IntSort(), z3.RealSort())

    def pt_v(it, a, k):
        i = a[0]
        if it.path.branch(PRESENT(i)):
            return PV(i)
        return None

    has_val = c.bool("has_val_element")
    val = SObj(None, "c:val", ptCount_val=N, pt_v=GhostFn(pt_v, "pt_v")) if c.branch(has_val) else None
    ser = SObj(None, "c:ser", val=val)
    cls = ser_mod._BaseCategorySeries
    s = SObj(cls, "series", _element=ser, _ser=ser)
    out = c.run(cls.values.fget, s)
    if out.raised:
        c.fails("never_raises", "raised %s" % out.exc)
        return
    r = out.value
    if val is None:
        c.ensures("post.empty_without_c_val", isinstance(r, (tuple, list)) and len(r) == 0)
        return
    f = getattr(r, "filtered", r)
    ok = type(f).__name__ == "SFiltered" and getattr(f, "elt_it", None) is not None
    c.ensures("post.is_a_map_over_range_ptCount", ok, got=repr(r)[:200])
    if not ok:
        return
    j = z3.Int("vj")
    c.ensures("post.length_is_ptCount", f.n == N)
    c.ensures("post.no_index_skipped", z3.ForAll([j], z3.Implies(z3.And(0 <= j, j < N), f.cond(j))))
    k = c.int("probe")
    c.requires(z3.And(0 <= k, k < N))
    from pyvc.engine import Interp

    it2 = Interp(c.path, loop_specs=c.loop_specs, summaries=c.summaries)
    e = f.elt_it(it2, k)
    if e is None:
        c.ensures("post.none_iff_no_point_with_that_idx", z3.Not(PRESENT(k)))
    else:
        c.ensures("post.value_of_the_point_with_that_idx", z3.And(PRESENT(k), e == PV(k)))


@contract("C07", "C07.oxml.chart.series.CT_NumDataSource.pt_v+ptCount_val", replay=_replay_values)
def _pt_v(c):
    """pt_v(idx): the value of the first c:pt whose @idx is idx, None when the xpath finds none; ptCount_val: the count
    attribute, 0 when absent."""
    from pptx.oxml.chart.series import CT_NumDataSource
    from pyvc.engine import Unsupported

    idx = c.int("idx")
    found = c.bool("found")
    v = c.real("value")
    cnt = c.int("count")
    has_cnt = c.bool("has_ptCount")

    def xpath(it, a, k):
        q = a[0]
        if isinstance(q, SStr) and len(q.parts) == 3 and q.parts[0] == ".//c:pt[@idx=" and q.parts[2] == "]" and isinstance(q.parts[1], FmtInt):
            it.path.assumed.add("xpath('.//c:pt[@idx=N]') returns the c:pt elements whose idx attribute is N")
            asked.append(q.parts[1].term)
            return [SObj(None, "c:pt", value=v)] if it.path.branch(found) else []
        if q == ".//c:ptCount/@val":
            it.path.assumed.add("xpath('.//c:ptCount/@val') returns the val attribute of c:ptCount when present")
            return [SStr([FmtInt(cnt)])] if it.path.branch(has_cnt) else []
        raise Unsupported("xpath %r has no assumed contract" % (q,))

    asked = []
    e = SObj(CT_NumDataSource, "c:val", xpath=GhostFn(xpath, "xpath"))
    out = c.run(CT_NumDataSource.pt_v, e, idx)
    if out.raised:
        c.fails("never_raises", "raised %s" % out.exc)
        return
    c.ensures("post.asked_for_that_idx", len(asked) == 1 and asked[0] is idx)
    if out.value is None:
        c.ensures("post.none_iff_absent", z3.Not(found))
    else:
        c.ensures("post.its_value", z3.And(found, out.value == v))
    c.requires(cnt >= 0)
    o2 = c.run(CT_NumDataSource.ptCount_val.fget, e)
    if o2.raised:
        c.fails("ptCount.never_raises", "raised %s" % o2.exc)
        return
    c.ensures("post.ptCount_or_zero", o2.value == z3.If(has_cnt, cnt, 0))


# ---------------------------------------------------------------------------------------------------------
# rewriter: series count and fresh idx / order


def _replay_rewriter(model, rec):
    """multi-plot chart whose last plot does not hold the maximum idx; reordered series; growth and trimming"""
    from pptx import Presentation
    from pptx.chart.data import CategoryChartData
    from pptx.enum.chart import XL_CHART_TYPE
    from pptx.oxml import parse_xml
    from pptx.util import Inches

    def data(n):
        d = CategoryChartData()
        d.categories = ["a", "b"]
        for i in range(n):
            d.add_series("s%d" % i, (i, i + 1))
        return d

    prs = Presentation()
    sl = prs.slides.add_slide(prs.slide_layouts[6])
    ch = sl.shapes.add_chart(XL_CHART_TYPE.COLUMN_CLUSTERED, 0, 0, Inches(2), Inches(2), data(3)).chart
    # move the idx-0 series into a new line plot placed after the bar plot
    plotArea = ch._chartSpace.plotArea
    bar = plotArea.xCharts[0]
    ser0 = bar.sers[0]
    C = 'xmlns:c="http://schemas.openxmlformats.org/drawingml/2006/chart"'
    line = parse_xml('<c:lineChart %s><c:grouping val="standard"/><c:varyColors val="0"/><c:marker val="1"/><c:axId val="1"/><c:axId val="2"/></c:lineChart>' % C)
    bar.addnext(line)
    bar.remove(ser0)
    line.insert(2, ser0)
    ch.replace_data(data(5))
    ids = [(s.idx.val, s.order.val) for s in plotArea.sers]
    if len({i for i, o in ids}) != 5 or len({o for i, o in ids}) != 5 or len(ids) != 5:
        return {"confirmed": True, "witness_class": "rewriter-idx", "detail": "bar(idx 1,2)+line(idx 0) grown to 5 series: (idx, order) = %s" % ids}
    ch.replace_data(data(1))
    if len(plotArea.sers) != 1 or any(len(x.sers) == 0 for x in plotArea.xCharts):
        return {"confirmed": True, "witness_class": "rewriter-trim", "detail": "trimmed to 1 series: %d series, plots %s" % (len(plotArea.sers), [len(x.sers) for x in plotArea.xCharts])}
    # three plots, one series each, trimmed to one series: both emptied plots must go
    ch3 = sl.shapes.add_chart(XL_CHART_TYPE.COLUMN_CLUSTERED, 0, 0, Inches(2), Inches(2), data(3)).chart
    pa3 = ch3._chartSpace.plotArea
    bar3 = pa3.xCharts[0]
    anchor = bar3
    for nm in ("lineChart", "areaChart"):
        x = parse_xml('<c:%s %s><c:grouping val="standard"/><c:varyColors val="0"/><c:axId val="1"/><c:axId val="2"/></c:%s>' % (nm, C, nm))
        anchor.addnext(x)
        sr = bar3.sers[-1]
        bar3.remove(sr)
        x.insert(2, sr)
        anchor = x
    shape3 = [len(x.sers) for x in pa3.xCharts]
    ch3.replace_data(data(1))
    if shape3 == [1, 1, 1] and ([len(x.sers) for x in pa3.xCharts] != [1] or len(list(ch3.plots)) != 1):
        return {"confirmed": True, "witness_class": "rewriter-trim", "detail": "bar+line+area with one series each trimmed to 1 series: plots now hold %s series" % [len(x.sers) for x in pa3.xCharts]}
    ch2 = sl.shapes.add_chart(XL_CHART_TYPE.BAR_CLUSTERED, 0, 0, Inches(2), Inches(2), data(2)).chart
    s = ch2._chartSpace.plotArea.sers
    s[0].order.val, s[1].order.val = 1, 0
    ch2.replace_data(data(3))
    ids = [(x.idx.val, x.order.val) for x in ch2._chartSpace.plotArea.sers]
    if len({i for i, o in ids}) != 3 or len({o for i, o in ids}) != 3:
        return {"confirmed": True, "witness_class": "rewriter-idx", "detail": "series with swapped order grown 2 -> 3: (idx, order) = %s" % ids}
    return {"confirmed": False, "detail": "idx/order stay unique on multi-plot and reordered charts; trimming removes emptied plots"}


@contract("C07", "C07.chart.xmlwriter._BaseSeriesXmlRewriter._adjust_ser_count", replay=_replay_rewriter)
def _adjust(c):
    """more series wanted => exactly that many clones are added; fewer => exactly the surplus is trimmed; equal => nothing."""
    from pptx.chart.xmlwriter import _BaseSeriesXmlRewriter

    have, want = c.int("have"), c.int("want")
    c.requires(z3.And(have >= 0, want >= 0))
    events = []
    pa = SObj(None, "plotArea", sers=SSeq(have, lambda j: SObj(None, "ser"), name="sers"))
    rw = SObj(_BaseSeriesXmlRewriter, "rewriter", _add_cloned_sers=GhostFn(lambda it, a, k: events.append(("add", a[1]))),
              _trim_ser_count_by=GhostFn(lambda it, a, k: events.append(("trim", a[1]))))
    out = c.run(_BaseSeriesXmlRewriter._adjust_ser_count, rw, pa, want)
    if out.raised:
        c.fails("never_raises", "raised %s" % out.exc)
        return
    if not events:
        c.ensures("post.nothing_when_equal", have == want)
    elif events[0][0] == "add":
        c.ensures("post.adds_the_difference", z3.And(want > have, events[0][1] == want - have, len(events) == 1))
    else:
        c.ensures("post.trims_the_difference", z3.And(want < have, events[0][1] == have - want, len(events) == 1))


@contract("C07", "C07.chart.xmlwriter._BaseSeriesXmlRewriter._add_cloned_sers", replay=_replay_rewriter, timeout_ms=30000)
def _add_cloned(c):
    """each of the `count` clones gets the idx and the order the plot area reports as next at that moment (so they are
    unique within the chart by the contract of next_idx / next_order), and is placed right after the series it was cloned
    from; the chain starts at the plot area's last series."""
    from pptx.chart.xmlwriter import _BaseSeriesXmlRewriter

    count = c.int("count")
    c.requires(z3.And(count >= 0, count <= 3))  # small counts are unrolled; the body is the same for every iteration
    c.path.assumed.add("_add_cloned_sers: verified for count <= 3 by unrolling (loop body independent of the iteration number)")
    USED_IDX = [z3.Function("USED_IDX", z3.IntSort(), z3.BoolSort())]
    USED_ORD = [z3.Function("USED_ORDER", z3.IntSort(), z3.BoolSort())]
    state = {"idx": [], "ord": [], "n": 0, "placed": []}

    def fresh(kind):
        def h(it):
            r = it.path.fresh("next_%s" % kind, z3.IntSort())
            used = USED_IDX[0] if kind == "idx" else USED_ORD[0]
            prev = state["idx" if kind == "idx" else "ord"]
            it.path.assume(z3.And(r >= 0, z3.Not(used(r)), *[r != p for p in prev]))
            it.path.assumed.add("CT_PlotArea.next_idx / next_order: max over all series + 1, hence not used by any series (contract below)")
            state.setdefault("offered_" + kind, []).append(r)
            return r

        return h

    from pyvc.engine import GhostProp

    class _Val:
        __pyvc_symbolic__ = True

        def __init__(self, kind, owner):
            self.kind, self.owner = kind, owner

        def sym_setattr(self, it, name, v):
            if name != "val":
                raise Exception("unexpected store")
            state["idx" if self.kind == "idx" else "ord"].append(v)
            self.owner.fields["%s_value" % self.kind] = v

        def sym_getattr(self, it, name):
            return self.owner.fields["%s_value" % self.kind]

    def mk_ser(label, idx_v, ord_v):
        s = SObj(None, label, idx_value=idx_v, order_value=ord_v)
        s.fields["idx"] = _Val("idx", s)
        s.fields["order"] = _Val("order", s)
        s.fields["addnext"] = GhostFn(lambda it, a, k, s=s: state["placed"].append((s, a[0])), "addnext")
        return s

    last = mk_ser("last_ser", c.int("last_idx"), c.int("last_order"))
    c.requires(z3.And(USED_IDX[0](last.fields["idx_value"]), USED_ORD[0](last.fields["order_value"])))

    def deepcopy(it, a, k):
        src = a[0]
        state["n"] += 1
        return mk_ser("clone%d" % state["n"], src.fields["idx_value"], src.fields["order_value"])

    c.summaries["copy:deepcopy"] = deepcopy
    pa = SObj(None, "plotArea", last_ser=last, next_idx=GhostProp(fresh("idx")), next_order=GhostProp(fresh("order")))
    rw = SObj(_BaseSeriesXmlRewriter, "rewriter")
    from pyvc.engine import unroll_while

    for cnt in (0, 1, 2, 3):
        pass
    k = c.path.fork([count == i for i in range(4)])
    out = c.run(_BaseSeriesXmlRewriter._add_cloned_sers, rw, pa, k)
    if out.raised:
        c.fails("never_raises", "raised %s" % out.exc)
        return
    c.ensures("post.exactly_count_clones", state["n"] == k and len(state["placed"]) == k)
    if state["n"] != k:
        return
    c.ensures("post.each_clone_takes_the_offered_idx_and_order",
              len(state["idx"]) == k and len(state["ord"]) == k and all(a is b for a, b in zip(state["idx"], state.get("offered_idx", []))) and all(a is b for a, b in zip(state["ord"], state.get("offered_order", []))))
    if k:
        chain_ok = state["placed"][0][0] is last and all(state["placed"][i][0] is state["placed"][i - 1][1] for i in range(1, k))
        c.ensures("post.each_clone_placed_after_its_source_starting_at_last_ser", chain_ok)
        allidx = state["idx"]
        c.ensures("post.new_idx_values_unused_and_distinct", z3.And(*[z3.Not(USED_IDX[0](v)) for v in allidx], z3.Distinct(*allidx) if len(allidx) > 1 else True))
        allord = state["ord"]
        c.ensures("post.new_order_values_unused_and_distinct", z3.And(*[z3.Not(USED_ORD[0](v)) for v in allord], z3.Distinct(*allord) if len(allord) > 1 else True))


def _make_trim(shape):
    total = sum(shape)

    @contract("C07", "C07.chart.xmlwriter._BaseSeriesXmlRewriter._trim_ser_count_by[plots=%s]" % "+".join(map(str, shape)), replay=_replay_rewriter)
    def body(c):
        """for a plot area whose plots hold the given numbers of series and every surplus count: exactly the last `count`
        series (plot order, then series order) are removed, every plot left without a series is removed, every other plot
        and series stays, in order.  The shape of the plot area is enumerated (<= 3 plots, <= 3 series each); the
        elements are ghosts, the code is the real one."""
        from pptx.chart.xmlwriter import _BaseSeriesXmlRewriter
        from pyvc.engine import GhostProp

        c.path.assumed.add("_trim_ser_count_by: verified for plot areas of <= 3 plots with <= 3 series each, every surplus count (enumerated shapes, ghost elements)")
        count = c.path.fork([c.int("count") == k for k in range(1, total)]) + 1 if total > 1 else None
        if count is None:
            return
        removed = []
        pa = SObj(None, "plotArea")
        plots = []
        for i, n in enumerate(shape):
            x = SObj(None, "xChart%d" % i)
            x.kids = [SObj(None, "ser%d_%d" % (i, j)) for j in range(n)]
            for sr in x.kids:
                sr.fields["getparent"] = GhostFn(lambda it, a, k, x=x: x, "getparent")
            x.fields["sers"] = GhostProp(lambda it, x=x: tuple(x.kids))
            x.fields["iter_sers"] = GhostFn(lambda it, a, k, x=x: list(x.kids), "iter_sers")
            x.fields["getparent"] = GhostFn(lambda it, a, k: pa, "getparent")

            def rm(it, a, k, x=x):
                if not any(a[0] is q for q in x.kids):
                    raise Exception("remove() of an element that is not a child")
                x.kids = [q for q in x.kids if q is not a[0]]
                removed.append(a[0])

            x.fields["remove"] = GhostFn(rm, "remove")
            plots.append(x)
        state = {"plots": list(plots)}
        original = [sr for x in plots for sr in x.kids]
        pa.fields["sers"] = GhostProp(lambda it: tuple(sr for x in state["plots"] for sr in x.kids))
        pa.fields["iter_sers"] = GhostFn(lambda it, a, k: [sr for x in state["plots"] for sr in x.kids], "iter_sers")
        pa.fields["xCharts"] = GhostProp(lambda it: tuple(state["plots"]))
        pa.fields["iter_xCharts"] = GhostFn(lambda it, a, k: list(state["plots"]), "iter_xCharts")

        def rmx(it, a, k):
            if not any(a[0] is q for q in state["plots"]):
                raise Exception("remove() of an element that is not a child")
            state["plots"] = [q for q in state["plots"] if q is not a[0]]
            removed.append(a[0])

        pa.fields["remove"] = GhostFn(rmx, "remove")
        rw = SObj(_BaseSeriesXmlRewriter, "rewriter")
        out = c.run(_BaseSeriesXmlRewriter._trim_ser_count_by, rw, pa, count)
        if out.raised:
            c.fails("never_raises", "raised %s" % out.exc)
            return
        keep = original[: total - count]
        left = [sr for x in state["plots"] for sr in x.kids]
        c.ensures("post.exactly_the_last_count_series_removed", len(left) == len(keep) and all(a is b for a, b in zip(left, keep)))
        want_plots = [x for x in plots if x.kids]
        c.ensures("post.no_plot_left_without_series", all(len(x.kids) > 0 for x in state["plots"]))
        c.ensures("post.every_plot_that_keeps_a_series_stays_in_order", len(state["plots"]) == len(want_plots) and all(a is b for a, b in zip(state["plots"], want_plots)))

    return body


for _shape in [(2,), (3,), (1, 1), (2, 1), (1, 2), (2, 2), (1, 1, 1), (2, 1, 1), (1, 2, 1), (1, 1, 2), (2, 2, 2), (3, 1, 2)]:
    _make_trim(_shape)


def _make_next(kind):
    @contract("C07", "C07.oxml.chart.chart.CT_PlotArea.next_%s" % kind, replay=_replay_rewriter, timeout_ms=20000)
    def body(c):
        """0 without series; otherwise one more than the maximum over all series of the chart -- so not the value of any of them."""
        from pptx.oxml.chart.chart import CT_PlotArea

        n = c.int("n_sers")
        c.requires(n >= 0)
        F = z3.Function("SER_%s" % kind.upper(), z3.IntSort(), z3.IntSort())
        sers = SSeq(n, lambda j: SObj(None, "ser[%s]" % j, **{kind: SObj(None, kind, val=F(j))}), name="sers")
        pa = SObj(CT_PlotArea, "plotArea", sers=sers)
        out = c.run(getattr(CT_PlotArea, "next_%s" % kind).fget, pa)
        if out.raised:
            c.fails("never_raises", "raised %s" % out.exc)
            return
        j = z3.Int("nj")
        r = out.value
        c.ensures("post.not_used_by_any_series", z3.ForAll([j], z3.Implies(z3.And(0 <= j, j < n), F(j) != r)))
        c.ensures("post.zero_without_series", z3.Implies(n == 0, r == 0) if not isinstance(r, int) else (r == 0 if True else True))

    return body


_make_next("idx")
_make_next("order")


# ---------------------------------------------------------------------------------------------------------
# data side: the category tree -- index of a category = number of leaves before it (so leaf indices are consecutive and a
# parent's index is the index of its first leaf)


class _Cat:
    """child j of a level: identity j, LC(j) leaves below it"""

    __pyvc_symbolic__ = True

    def __init__(self, j, LC):
        self.j, self.LC = j, LC

    def sym_is(self, it, other):
        return isinstance(other, _Cat) and (self.j == other.j)

    def sym_truth(self, it):
        return True

    def sym_getattr(self, it, name):
        if name == "leaf_count":
            return self.LC(self.j)
        raise Exception("ghost category asked for %s" % name)


def _prefix(c, LC):
    PRE = z3.Function("LEAVES_BEFORE", z3.IntSort(), z3.IntSort())
    j = z3.Int("pj")
    c.path.assume(PRE(0) == 0)
    c.path.assume(z3.ForAll([j], z3.Implies(j >= 0, PRE(j + 1) == PRE(j) + LC(j))))
    c.path.assumed.add("LEAVES_BEFORE(k): ghost definition (sum of the leaf counts of the first k children)")
    return PRE


def _replay_tree(model, rec):
    from pptx.chart.data import CategoryChartData

    d = CategoryChartData()
    want = []
    leaf = 0
    for p, mids in (("P0", (3, 1)), ("P1", (2,)), ("P2", (1, 1, 4))):
        cat = d.add_category(p)
        want.append((cat, leaf))
        for mi, nleaf in enumerate(mids):
            m = cat.add_sub_category("%s.%d" % (p, mi))
            want.append((m, leaf))
            for k in range(nleaf):
                lf = m.add_sub_category("%s.%d.%d" % (p, mi, k))
                want.append((lf, leaf))
                leaf += 1
    bad = [(c_.label, c_.idx, w) for c_, w in want if c_.idx != w]
    if bad or d.categories.leaf_count != leaf or d.categories.depth != 3:
        return {"confirmed": True, "witness_class": "category-tree", "detail": "3-level tree: (label, idx, expected first-leaf index) mismatches %s; leaf_count %s (expected %d)" % (bad[:4], d.categories.leaf_count, leaf)}
    lv = list(d.categories.levels)
    if [i for i, _ in lv[0]] != list(range(leaf)) or [i for i, _ in lv[2]] != [0, 4, 6]:
        return {"confirmed": True, "witness_class": "category-tree", "detail": "levels give leaf idxs %s, top idxs %s" % ([i for i, _ in lv[0]], [i for i, _ in lv[2]])}
    return {"confirmed": False, "detail": "idx of every node of a ragged 3-level tree is the index of its first leaf"}


def _make_index(owner):
    @contract("C07", "C07.chart.data.%s.index" % owner, replay=_replay_tree, timeout_ms=30000)
    def body(c):
        """index(child t) = (own starting index) + number of leaves below the children before t; ValueError when the object is
        not a child -- for any number of children with any leaf counts."""
        import pptx.chart.data as cd

        n = c.int("n_children")
        c.requires(n >= 0)
        LC = z3.Function("LEAF_COUNT", z3.IntSort(), z3.IntSort())
        j = z3.Int("cj")
        c.requires(z3.ForAll([j], z3.Implies(z3.And(0 <= j, j < n), LC(j) >= 1)))
        PRE = _prefix(c, LC)
        t = c.int("target")
        kids = SSeq(n, lambda q: _Cat(q, LC), name="children")
        target = _Cat(t, LC)
        if owner == "Categories":
            base = z3.IntVal(0)
            obj = SObj(cd.Categories, "categories", _categories=kids)
            fn = cd.Categories.index
        else:
            base = c.int("own_index")
            parent = SObj(None, "parent", index=GhostFn(lambda it, a, k: base, "parent.index"))
            obj = SObj(cd.Category, "category", _parent=parent, _sub_categories=kids)
            fn = cd.Category.index
        qn = "pptx.chart.data:%s.index" % owner
        c.loop_specs[(qn, 0)] = invariant_loop("C07.chart.data.%s.index.loop0" % owner, ["index"],
                                               lambda env, k: z3.And(env["index"] == base + PRE(k), z3.ForAll([j], z3.Implies(z3.And(0 <= j, j < k), j != t))))
        out = c.run(fn, obj, target)
        if out.raised:
            c.ensures("post.only_ValueError", out.exc.exc_cls is ValueError)
            c.ensures("post.raises_only_for_a_non_child", z3.Not(z3.And(0 <= t, t < n)))
            return
        c.ensures("post.is_a_child", z3.And(0 <= t, t < n))
        c.ensures("post.index_is_leaves_before_it", out.value == base + PRE(t))

    return body


_make_index("Categories")
_make_index("Category")


def _make_leaf_count(owner):
    @contract("C07", "C07.chart.data.%s.leaf_count" % owner, replay=_replay_tree, timeout_ms=30000)
    def body(c):
        """leaf_count = sum of the children's leaf counts (1 for a category without sub-categories)."""
        import pptx.chart.data as cd

        n = c.int("n_children")
        c.requires(n >= 0)
        LC = z3.Function("LEAF_COUNT", z3.IntSort(), z3.IntSort())
        j = z3.Int("cj")
        c.requires(z3.ForAll([j], z3.Implies(z3.And(0 <= j, j < n), LC(j) >= 1)))
        kids = SSeq(n, lambda q: _Cat(q, LC), name="children")
        if owner == "Categories":
            obj = SObj(cd.Categories, "categories", _categories=kids)
            out = c.run(cd.Categories.leaf_count.fget, obj)
        else:
            obj = SObj(cd.Category, "category", _sub_categories=kids)
            out = c.run(cd.Category.leaf_count.fget, obj)
        if out.raised:
            c.fails("never_raises", "raised %s" % out.exc)
            return
        r = out.value
        if owner == "Category" and (isinstance(r, int) and r == 1):
            c.ensures("post.one_for_a_leaf", n == 0)
            return
        sums = c.path.ghost.get("sums", [])
        c.ensures("post.is_the_sum_over_the_children", len(sums) >= 1 and sums[-1].get("n") is not None and z3.And(sums[-1]["n"] == n, r == sums[-1]["total"]))
        if sums:
            k = c.int("probe")
            c.requires(z3.And(0 <= k, k < n))
            c.ensures("post.summand_is_the_childs_leaf_count", sums[-1]["elt"](k) == LC(k))

    return body


_make_leaf_count("Categories")
_make_leaf_count("Category")


# ---------------------------------------------------------------------------------------------------------
# the chart-wide series sequence (what replace_data pairs the supplied series with, what is trimmed from the end)


def _replay_iter_sers(model, rec):
    import glob
    import os

    from pptx import Presentation

    C_ = "{http://schemas.openxmlformats.org/drawingml/2006/chart}"
    repo = os.environ.get("PPTX_REPO", "/repo")
    seen = 0
    for f in sorted(glob.glob(os.path.join(repo, "features", "steps", "test_files", "cht-*.pptx"))):
        for sl in Presentation(f).slides:
            for sh in sl.shapes:
                if not sh.has_chart or len(list(sh.chart.plots)) < 2:
                    continue
                chart = sh.chart
                plots_ = [sorted(p._element.findall(C_ + "ser"), key=lambda e_: int(e_.find(C_ + "order").get("val"))) for p in chart.plots]
                k_, rr_ = 0, [list(p_) for p_ in plots_]
                while any(rr_):
                    for p_ in rr_:
                        if p_:
                            p_.pop(0).find(C_ + "order").set("val", str(k_))
                            k_ += 1
                seen += 1
                got = list(chart._chartSpace.chart.plotArea.iter_sers())
                if got != [e_ for p_ in plots_ for e_ in p_]:
                    return {"confirmed": True, "witness_class": "chart-roundtrip", "detail": "%s: with c:order interleaved between %d plots the chart-wide series sequence is not plot by plot" % (os.path.basename(f), len(plots_))}
    return {"confirmed": False, "detail": "%d multi-plot corpus charts: series sequence is plot by plot" % seen}


def _make_iter_sers(sizes):
    @contract("C07", "C07.oxml.chart.chart.CT_PlotArea.iter_sers[plots of %s series]" % "+".join(map(str, sizes)), replay=_replay_iter_sers)
    def body(c):
        """the series of a chart are those of its first plot, in that plot's own sequence, followed by those of the next plot, and so on
        (plots in document order); nothing else decides the sequence.  Plot counts / sizes enumerated."""
        from pptx.oxml.chart.chart import CT_PlotArea

        plots, want = [], []
        for i, n in enumerate(sizes):
            sers = [SObj(None, "ser_%d_%d" % (i, j), __external__=True) for j in range(n)]
            want += sers
            plots.append(SObj(None, "xChart%d" % i, iter_sers=GhostFn(lambda it, a, k, sers=sers: iter(list(sers)), "xChart.iter_sers"), __external__=True))
        pa = SObj(CT_PlotArea, "plotArea", iter_xCharts=GhostFn(lambda it, a, k: iter(list(plots)), "iter_xCharts"))
        out = c.run(lambda p: list(p.iter_sers()), pa)
        if out.raised:
            c.fails("never_raises", "raised %s" % out.exc)
            return
        got = out.value
        c.ensures("post.plot_by_plot", len(got) == len(want) and all(a is b for a, b in zip(got, want)))

    return body


for _sizes in ((), (2,), (3, 2), (1, 0, 2), (2, 2, 1)):
    _make_iter_sers(_sizes)

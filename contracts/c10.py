"""C10 -- a child is inserted where the schema allows it, whatever siblings exist.  DESIGN.md 5/C10.

For every registered element class x every XSD complex type its tag can have (resolved along the
paths from the part roots) x every child declaration whose generated mutators are referenced in
src/pptx, the *real* generated method (`_insert_x`, `get_or_add_x`, `_add_x`,
`get_or_change_to_x`; or the hand-written override when the class defines one) is executed
symbolically on an abstract parent whose children are an unbounded, universally quantified
sequence that is valid for the type's content model.  The obligation is that the sequence is
still valid afterwards.  The content model (slots, order, multiplicity) is extracted from the
XSD files on every run."""
from __future__ import annotations

import ast
import functools
import inspect
import os

import z3

from pyvc import decls, xsd
from pyvc.elem import Kids, SElem, TagTable
from pyvc.engine import Unsupported
from pyvc.verify import contract

META = {
    "residual": [
        "content models that do not flatten to a sequence of element/choice slots are reported per type as not_flattened and not claimed",
        "slots with a finite maxOccurs > 1 are treated as repeatable (order is proved, the count bound is not)",
        "lxml element API (find/append/addprevious/remove) enters through assumed contracts (pyvc/elem.py)",
    ],
    "trusted_base": ["XSD files under /repo/spec are the standard", "lxml element API contracts of pyvc/elem.py"],
}

SRC = "/repo/src/pptx"


@functools.lru_cache(maxsize=1)
def referenced_names():
    """Every attribute name used anywhere in src/pptx outside xmlchemy.py (syntactic scope rule)."""
    names = set()
    for dp, dn, fns in os.walk(SRC):
        for fn in fns:
            if not fn.endswith(".py") or fn == "xmlchemy.py":
                continue
            try:
                tree = ast.parse(open(os.path.join(dp, fn)).read())
            except SyntaxError:
                continue
            for n in ast.walk(tree):
                if isinstance(n, ast.Attribute):
                    names.add(n.attr)
                elif isinstance(n, ast.Constant) and isinstance(n.value, str) and n.value.isidentifier():
                    names.add(n.value)
    return names


def mutators_of(d):
    p = d.prop_name
    ms = ["_add_%s" % p, "_insert_%s" % p]
    if d.kind == "ZeroOrOne":
        ms.append("get_or_add_%s" % p)
    if d.kind == "OneOrMore":
        ms.append("add_%s" % p)
    if d.kind == "Choice":
        ms.append("get_or_change_to_%s" % p)
    return ms


def in_scope(d):
    ref = referenced_names()
    return [m for m in mutators_of(d) if m in ref]


# --------------------------------------------------------------------------------------------
# the content model as z3 predicates over a Seq(Int) of tag ids


class Model:
    """The flattened content model of one complex type as z3 predicates over Kids (n, f)."""

    def __init__(self, ct):
        self.ct = ct
        tags = []
        self.slot_of = {}
        for si, s in enumerate(ct.slots):
            for t in s.tags:
                if t not in self.slot_of:
                    self.slot_of[t] = si
                    tags.append(t)
        self.table = TagTable(tags)
        self.n = len(tags)
        self.single = [s.max == 1 for s in ct.slots]
        self.required = [s.min >= 1 for s in ct.slots]
        self.R = z3.Function("rank", z3.IntSort(), z3.IntSort())

    def axioms(self):
        """Ground definition of rank on the finite tag table."""
        return z3.And(*[self.R(z3.IntVal(tid)) == self.slot_of[t] for t, tid in self.table.ids.items()])

    def is_single(self, r):
        singles = [i for i, s in enumerate(self.single) if s]
        if not singles:
            return z3.BoolVal(False)
        return z3.Or(*[r == i for i in singles])

    def universal(self, kids, tag=""):
        """order + single-occurrence + table membership (the universally quantified part of validity)."""
        i, j = z3.Ints("vi%s vj%s" % (tag, tag))
        n, f, R = kids.n, kids.f, self.R
        in_table = z3.ForAll([i], z3.Implies(z3.And(0 <= i, i < n), z3.And(f(i) >= 0, f(i) < self.n)))
        ordered = z3.ForAll([i, j], z3.Implies(z3.And(0 <= i, i < j, j < n), R(f(i)) <= R(f(j))))
        once = z3.ForAll([i, j], z3.Implies(z3.And(0 <= i, i < j, j < n, R(f(i)) == R(f(j))), z3.Not(self.is_single(R(f(i))))))
        return z3.And(n >= 0, in_table, ordered, once)

    def witnesses(self, skip_required=None):
        """Skolem constants: w_r is the position of a child of required slot r in the ORIGINAL sequence."""
        return {si: z3.Int("w_req_%d" % si) for si, r in enumerate(self.required) if r and si != skip_required}

    def valid_pre(self, kids, skip_required=None):
        ws = self.witnesses(skip_required)
        req = [z3.And(0 <= w, w < kids.n, self.R(kids.f(w)) == si) for si, w in ws.items()]
        return z3.And(self.universal(kids, "0"), *req)

    def required_after(self, kids_after, skip_required=None):
        """[(slot, claim)]: the required child of each slot is still there (ground instance at the moved witness)."""
        out = []
        for si, w in self.witnesses(skip_required).items():
            k = kids_after.fwd(w)
            out.append((si, z3.And(0 <= k, k < kids_after.n, self.R(kids_after.f(k)) == si)))
        return out

    def absent(self, kids, tids, tag=""):
        return z3.And(*[kids.absent(t, "%s_%d" % (tag, t)) for t in tids]) if tids else z3.BoolVal(True)

    def count_is_one(self, kids, tid, at):
        """exactly one child with tag id `tid`, namely the one at position `at`."""
        i = z3.Int("ci")
        n, f = kids.n, kids.f
        return z3.And(0 <= at, at < n, f(at) == tid,
                      z3.ForAll([i], z3.Implies(z3.And(0 <= i, i < n, i != at), f(i) != tid)))


def native_valid(ct, child_tags):
    """Python evaluation of the same validity predicate on a concrete child list (used by replays)."""
    last = -1
    seen = {}
    for t in child_tags:
        si = ct.slot_of(t)
        if si is None:
            return False, "%s is not a child of %s" % (t, ct.name)
        if si < last:
            return False, "%s (slot %d) comes after a child of slot %d" % (t, si, last)
        last = si
        seen[si] = seen.get(si, 0) + 1
        if ct.slots[si].max == 1 and seen[si] > 1:
            return False, "two members of the single-occurrence slot %s" % ct.slots[si]
    return True, ""


# --------------------------------------------------------------------------------------------
# replay: rebuild the parent natively with the model's children and call the real mutator


def _replay_decl(cls, tag, ct, meth, model_obj):
    def replay(model, rec):
        from pptx.oxml import parse_xml
        from pptx.oxml.ns import nsdecls, qn
        from pptx.oxml.xmlchemy import OxmlElement

        tags = model_obj.table.tags
        cands = []
        n = model.get("n")
        if isinstance(n, int) and 0 <= n <= 6:
            ks = [model.get("k%d" % q) for q in range(n)]
            if all(isinstance(k, int) and 0 <= k < len(tags) for k in ks):
                cands.append([tags[k] for k in ks])
        # systematic small contexts (the property's own quantifier): single other child, all later, all earlier, pairs
        alltags = [t for t in tags if not t.startswith("#")]
        for t in alltags:
            cands.append([t])
        for a in alltags:
            for b in alltags:
                cands.append([a, b])
        cands.append(alltags)
        tried = 0
        for cand in cands:
            ok, _ = native_valid(ct, cand)
            if not ok:
                continue
            parent = OxmlElement(tag)
            try:
                for t in cand:
                    parent.append(OxmlElement(t))
            except Exception:
                continue
            if not isinstance(parent, cls):
                return {"confirmed": False, "detail": "could not build a %s for %s" % (cls.__name__, tag)}
            from pptx.oxml.ns import NamespacePrefixedTag
            nst = lambda e: str(NamespacePrefixedTag.from_clark_name(e.tag))
            before = [nst(c) for c in parent]
            slot = ct.slots[ct.slot_of(rec_child_tag(rec))]
            ctag = rec_child_tag(rec)
            if slot.max == 1 and not meth.startswith("get_or_change_to_"):
                if any(t in before for t in slot.tags if t != ctag or not meth.startswith("get_or_add_")):
                    continue  # outside the contract's precondition
            try:
                getattr(parent, meth)(*( [OxmlElement(rec_child_tag(rec))] if meth.startswith("_insert_") else []))
            except Exception as e:
                continue
            tried += 1
            after = [nst(c) for c in parent]
            ok2, why = native_valid(ct, after)
            if not ok2:
                return {"confirmed": True, "witness_class": "misplaced-child",
                        "detail": "%s.%s() on <%s> with children %s gives %s: %s (type %s)" % (cls.__name__, meth, tag, before, after, why, ct.name),
                        "input": {"parent": tag, "children": before}}
        return {"confirmed": False, "detail": "%d valid sibling contexts replayed natively, all stay valid" % tried}

    return replay


def rec_child_tag(rec):
    return rec.get("info", {}).get("child_tag") or rec["name"].split("<")[1].split(">")[0]


# --------------------------------------------------------------------------------------------
# contracts


def _qual(cls):
    return "%s.%s" % (cls.__module__.replace("pptx.", ""), cls.__name__)


def _make(cls, tag, ct, d, meth):
    M = Model(ct)
    tid = M.table.id(d.tag)
    group_ids = [M.table.id(t) for t in d.members if M.table.id(t) is not None] if d.kind == "Choice" else [tid]
    cname = "C10.%s.%s@%s<%s>.%s" % (_qual(cls), d.prop_name, ct.name, d.tag, meth)

    @contract("C10", cname, replay=_replay_decl(cls, tag, ct, meth, M), timeout_ms=15000)
    def body(c):
        kids0, K, n = Kids.symbolic("K")
        c.input("n", n)
        for q in range(6):
            c.input("k%d" % q, K(z3.IntVal(q)))
        parent = SElem(cls, M.table, kids=kids0, tagid=None, name="parent")
        c.requires(M.axioms())
        slot = ct.slots[M.slot_of[d.tag]]
        # the parent holds any schema-permitted combination of *other* children: the inserted child's own
        # slot may still be empty even when the schema requires it (element under construction)
        own = M.slot_of[d.tag]
        c.requires(M.valid_pre(kids0, skip_required=own))
        if meth.startswith("get_or_change_to_"):
            pass  # any member of the group may be present; the method removes it
        elif slot.max == 1:
            # single-occurrence slot: adding is schema-permitted only when the slot's *other* members are absent
            # (caller obligation, recorded in evidence; the composite mutators that remove the alternative first
            # are under contract in C03); for direct _add_x/_insert_x the tag itself must be absent too
            others = [M.table.id(t) for t in slot.tags if M.table.id(t) is not None and (t != d.tag or not meth.startswith("get_or_add_"))]
            c.requires(M.absent(kids0, others, "pre"))
            if len(slot.tags) > 1:
                c.note("caller-obligation: %s.%s requires the other members of %s to be absent" % (cls.__name__, meth, "|".join(slot.tags)))
        fn = inspect.getattr_static(cls, meth)
        c.summaries["pptx.oxml.xmlchemy:BaseOxmlElement.remove_all"] = lambda it, a, k: a[0].summary_remove_all(it, a[1:])
        if meth.startswith("_insert_"):
            child = SElem(decls.registry().get(d.tag), M.table, tagid=tid, name="child")
            out = c.run(fn, parent, child)
        else:
            out = c.run(fn, parent)
        if out.raised:
            c.fails("raises", "%s raised %s" % (meth, out.exc), child_tag=d.tag)
            return
        after = parent.kids
        from pyvc.elem import SChild
        at = out.value.pos if isinstance(out.value, SChild) else after.last_insert
        c.ensures("valid_after.order_and_multiplicity", M.universal(after, "1"), child_tag=d.tag)
        for si, claim in M.required_after(after, skip_required=own):
            c.ensures("valid_after.required[%s]" % "|".join(ct.slots[si].tags), claim, child_tag=d.tag)
        if at is None:
            c.fails("returns_child", "%s did not return / insert a child" % meth, child_tag=d.tag)
            return
        c.ensures("child_present", z3.And(0 <= at, at < after.n, after.f(at) == tid), child_tag=d.tag)
        if meth.startswith("get_or_add_"):
            c.ensures("exactly_one", M.count_is_one(after, tid, at), child_tag=d.tag)
            c.ensures("unchanged_if_present", z3.Or(kids0.absent(tid, "u"), after.same_as(kids0, "u")), child_tag=d.tag)
        elif meth.startswith("get_or_change_to_"):
            others = [g for g in group_ids if g != tid]
            c.ensures("exactly_one_group_member", z3.And(M.count_is_one(after, tid, at), M.absent(after, others, "g")), child_tag=d.tag)
        else:
            c.ensures("one_more", after.n == kids0.n + 1, child_tag=d.tag)
        c.mustfail("mustfail.unchanged", after.n == kids0.n)

    return body


COVERAGE = {"unreferenced": [], "not_applicable_in_type": [], "not_flattened": [], "no_xsd_type": []}


def _build():
    S = xsd.load()
    bt = xsd.reachable_types(S)
    seen = set()
    for tag, (cls, attrs, kids) in decls.all_decls().items():
        cts = bt.get(tag, {})
        if not cts and kids:
            COVERAGE["no_xsd_type"].append(tag)
        for d in kids:
            if d.kind == "OneAndOnlyOne":
                continue
            meths = in_scope(d)
            if not meths:
                COVERAGE["unreferenced"].append("%s.%s" % (cls.__name__, d.prop_name))
                continue
            for key, ct in cts.items():
                if ct.slot_of(d.tag) is None:
                    COVERAGE["not_applicable_in_type"].append("%s.%s@%s" % (cls.__name__, d.prop_name, ct.name))
                    continue
                slot = ct.slots[ct.slot_of(d.tag)]
                if not slot.exact:
                    COVERAGE["not_flattened"].append("%s.%s@%s" % (cls.__name__, d.prop_name, ct.name))
                    continue
                for meth in meths:
                    k = (cls, d.prop_name, ct.key, meth)
                    if k in seen:
                        continue
                    seen.add(k)
                    if inspect.getattr_static(cls, meth, None) is None:
                        continue
                    _make(cls, tag, ct, d, meth)


_build()

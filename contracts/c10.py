"""C10 -- a child is inserted where the schema allows it, whatever siblings exist.  DESIGN.md 5/C10.

For every registered element class x every XSD complex type its tag can have (resolved along the
paths from the part roots) x every child declaration whose generated mutators are referenced in
src/pptx, the *real* generated method (`_insert_x`, `get_or_add_x`, `_add_x`,
`get_or_change_to_x`; or the hand-written override when the class defines one) is executed
symbolically on an abstract parent whose children are an unbounded, universally quantified
sequence that is valid for the type's content model.  The obligation is that the sequence is
still valid afterwards.  The content model (slots, order, multiplicity) is extracted from the
XSD files on every run."""
from __future__ import annotations

import ast
import functools
import inspect
import re
import os

import z3

from pyvc import decls, xsd
from pyvc.elem import Kids, SElem, TagTable
from pyvc.engine import Unsupported
from pyvc.verify import contract

META = {
    "residual": [
        "content models that do not flatten to a sequence of element/choice slots are reported per type as not_flattened and not claimed",
        "slots with a finite maxOccurs > 1 are treated as repeatable (order is proved, the count bound is not)",
        "lxml element API (find/append/addprevious/remove) enters through assumed contracts (pyvc/elem.py)",
    ],
    "trusted_base": ["XSD files under /repo/spec are the standard", "lxml element API contracts of pyvc/elem.py"],
}

SRC = "/repo/src/pptx"


@functools.lru_cache(maxsize=1)
def referenced_names():
    """Every attribute name used anywhere in src/pptx outside xmlchemy.py (syntactic scope rule)."""
    names = set()
    for dp, dn, fns in os.walk(SRC):
        for fn in fns:
            if not fn.endswith(".py") or fn == "xmlchemy.py":
                continue
            try:
                tree = ast.parse(open(os.path.join(dp, fn)).read())
            except SyntaxError:
                continue
            for n in ast.walk(tree):
                if isinstance(n, ast.Attribute):
                    names.add(n.attr)
                elif isinstance(n, ast.Constant) and isinstance(n.value, str) and n.value.isidentifier():
                    names.add(n.value)
    return names


def mutators_of(d):
    p = d.prop_name
    ms = ["_add_%s" % p, "_insert_%s" % p]
    if d.kind == "ZeroOrOne":
        ms.append("get_or_add_%s" % p)
    if d.kind == "OneOrMore":
        ms.append("add_%s" % p)
    if d.kind == "Choice":
        ms.append("get_or_change_to_%s" % p)
    return ms


def in_scope(d):
    ref = referenced_names()
    return [m for m in mutators_of(d) if m in ref]


# --------------------------------------------------------------------------------------------
# the content model as z3 predicates over a Seq(Int) of tag ids


class Model:
    """The flattened content model of one complex type as z3 predicates over Kids (n, f)."""

    def __init__(self, ct):
        self.ct = ct
        tags = []
        self.slot_of = {}
        for si, s in enumerate(ct.slots):
            for t in s.tags:
                if t not in self.slot_of:
                    self.slot_of[t] = si
                    tags.append(t)
        self.table = TagTable(tags)
        self.n = len(tags)
        self.single = [s.max == 1 for s in ct.slots]
        self.required = [s.min >= 1 for s in ct.slots]
        self.R = z3.Function("rank", z3.IntSort(), z3.IntSort())

    def axioms(self):
        """Ground definition of rank on the finite tag table."""
        return z3.And(*[self.R(z3.IntVal(tid)) == self.slot_of[t] for t, tid in self.table.ids.items()])

    def is_single(self, r):
        singles = [i for i, s in enumerate(self.single) if s]
        if not singles:
            return z3.BoolVal(False)
        return z3.Or(*[r == i for i in singles])

    def universal(self, kids, tag=""):
        """order + single-occurrence + table membership (the universally quantified part of validity)."""
        i, j = z3.Ints("vi%s vj%s" % (tag, tag))
        n, f, R = kids.n, kids.f, self.R
        in_table = z3.ForAll([i], z3.Implies(z3.And(0 <= i, i < n), z3.And(f(i) >= 0, f(i) < self.n)))
        ordered = z3.ForAll([i, j], z3.Implies(z3.And(0 <= i, i < j, j < n), R(f(i)) <= R(f(j))))
        once = z3.ForAll([i, j], z3.Implies(z3.And(0 <= i, i < j, j < n, R(f(i)) == R(f(j))), z3.Not(self.is_single(R(f(i))))))
        return z3.And(n >= 0, in_table, ordered, once)

    def witnesses(self, skip_required=None):
        """Skolem constants: w_r is the position of a child of required slot r in the ORIGINAL sequence."""
        return {si: z3.Int("w_req_%d" % si) for si, r in enumerate(self.required) if r and si != skip_required}

    def valid_pre(self, kids, skip_required=None):
        ws = self.witnesses(skip_required)
        req = [z3.And(0 <= w, w < kids.n, self.R(kids.f(w)) == si) for si, w in ws.items()]
        return z3.And(self.universal(kids, "0"), *req)

    def required_after(self, kids_after, skip_required=None):
        """[(slot, claim)]: the required child of each slot is still there (ground instance at the moved witness)."""
        out = []
        for si, w in self.witnesses(skip_required).items():
            k = kids_after.fwd(w)
            out.append((si, z3.And(0 <= k, k < kids_after.n, self.R(kids_after.f(k)) == si)))
        return out

    def absent(self, kids, tids, tag=""):
        return z3.And(*[kids.absent(t, "%s_%d" % (tag, t)) for t in tids]) if tids else z3.BoolVal(True)

    def count_is_one(self, kids, tid, at):
        """exactly one child with tag id `tid`, namely the one at position `at`."""
        i = z3.Int("ci")
        n, f = kids.n, kids.f
        return z3.And(0 <= at, at < n, f(at) == tid,
                      z3.ForAll([i], z3.Implies(z3.And(0 <= i, i < n, i != at), f(i) != tid)))


def native_valid(ct, child_tags):
    """Python evaluation of the same validity predicate on a concrete child list (used by replays)."""
    last = -1
    seen = {}
    for t in child_tags:
        si = ct.slot_of(t)
        if si is None:
            return False, "%s is not a child of %s" % (t, ct.name)
        if si < last:
            return False, "%s (slot %d) comes after a child of slot %d" % (t, si, last)
        last = si
        seen[si] = seen.get(si, 0) + 1
        if ct.slots[si].max == 1 and seen[si] > 1:
            return False, "two members of the single-occurrence slot %s" % ct.slots[si]
    return True, ""


# --------------------------------------------------------------------------------------------
# replay: rebuild the parent natively with the model's children and call the real mutator


def _replay_decl(cls, tag, ct, meth, model_obj):
    def replay(model, rec):
        from pptx.oxml import parse_xml
        from pptx.oxml.ns import nsdecls, qn
        from pptx.oxml.xmlchemy import OxmlElement

        tags = model_obj.table.tags
        cands = []
        n = model.get("n")
        if isinstance(n, int) and 0 <= n <= 6:
            ks = [model.get("k%d" % q) for q in range(n)]
            if all(isinstance(k, int) and 0 <= k < len(tags) for k in ks):
                cands.append([tags[k] for k in ks])
        # systematic small contexts (the property's own quantifier): single other child, all later, all earlier, pairs
        alltags = [t for t in tags if not t.startswith("#")]
        for t in alltags:
            cands.append([t])
        for a in alltags:
            for b in alltags:
                cands.append([a, b])
        cands.append(alltags)
        tried = 0
        # the contract's precondition: a valid parent, i.e. with its required children (all but the slot being filled) present
        own_slot = ct.slot_of(rec_child_tag(rec))
        required = [sl.tags[0] for i, sl in enumerate(ct.slots) if getattr(sl, "min", 0) >= 1 and i != own_slot]
        completed = []
        for cand in cands:
            if any(ct.slot_of(t) is None for t in cand):
                continue
            have = {ct.slot_of(t) for t in cand}
            full = list(cand) + [t for t in required if ct.slot_of(t) not in have]
            order = {id(t_): i for i, t_ in enumerate(full)}
            full = [t_ for _, _, t_ in sorted(((ct.slot_of(t_), i, t_) for i, t_ in enumerate(full)), key=lambda q: (q[0], q[1]))] if len(full) != len(cand) else list(cand)
            completed.append(full)
        for cand in completed:
            ok, _ = native_valid(ct, cand)
            if not ok:
                continue
            parent = OxmlElement(tag)
            try:
                for t in cand:
                    parent.append(OxmlElement(t))
            except Exception:
                continue
            if not isinstance(parent, cls):
                return {"confirmed": False, "detail": "could not build a %s for %s" % (cls.__name__, tag)}
            from pptx.oxml.ns import NamespacePrefixedTag
            nst = lambda e: str(NamespacePrefixedTag.from_clark_name(e.tag))
            before = [nst(c) for c in parent]
            slot = ct.slots[ct.slot_of(rec_child_tag(rec))]
            ctag = rec_child_tag(rec)
            if slot.max == 1 and not meth.startswith("get_or_change_to_"):
                if any(t in before for t in slot.tags if t != ctag or not meth.startswith("get_or_add_")):
                    continue  # outside the contract's precondition
            try:
                getattr(parent, meth)(*( [OxmlElement(rec_child_tag(rec))] if meth.startswith("_insert_") else []))
            except Exception as e:
                continue
            tried += 1
            after = [nst(c) for c in parent]
            ok2, why = native_valid(ct, after)
            if not ok2:
                return {"confirmed": True, "witness_class": "misplaced-child",
                        "detail": "%s.%s() on <%s> with children %s gives %s: %s (type %s)" % (cls.__name__, meth, tag, before, after, why, ct.name),
                        "input": {"parent": tag, "children": before}}
        return {"confirmed": False, "detail": "%d valid sibling contexts replayed natively, all stay valid" % tried}

    return replay


def rec_child_tag(rec):
    return rec.get("info", {}).get("child_tag") or rec["name"].split("<")[1].split(">")[0]


# --------------------------------------------------------------------------------------------
# contracts


def _qual(cls):
    return "%s.%s" % (cls.__module__.replace("pptx.", ""), cls.__name__)


def _make(cls, tag, ct, d, meth):
    M = Model(ct)
    tid = M.table.id(d.tag)
    group_ids = [M.table.id(t) for t in d.members if M.table.id(t) is not None] if d.kind == "Choice" else [tid]
    cname = "C10.%s.%s@%s<%s>.%s" % (_qual(cls), d.prop_name, ct.name, d.tag, meth)

    @contract("C10", cname, replay=_replay_decl(cls, tag, ct, meth, M), timeout_ms=15000)
    def body(c):
        kids0, K, n = Kids.symbolic("K")
        c.input("n", n)
        for q in range(6):
            c.input("k%d" % q, K(z3.IntVal(q)))
        parent = SElem(cls, M.table, kids=kids0, tagid=None, name="parent")
        c.requires(M.axioms())
        slot = ct.slots[M.slot_of[d.tag]]
        # the parent holds any schema-permitted combination of *other* children: the inserted child's own
        # slot may still be empty even when the schema requires it (element under construction)
        own = M.slot_of[d.tag]
        c.requires(M.valid_pre(kids0, skip_required=own))
        if meth.startswith("get_or_change_to_"):
            pass  # any member of the group may be present; the method removes it
        elif slot.max == 1:
            # single-occurrence slot: adding is schema-permitted only when the slot's *other* members are absent
            # (caller obligation, recorded in evidence; the composite mutators that remove the alternative first
            # are under contract in C03); for direct _add_x/_insert_x the tag itself must be absent too
            others = [M.table.id(t) for t in slot.tags if M.table.id(t) is not None and (t != d.tag or not meth.startswith("get_or_add_"))]
            c.requires(M.absent(kids0, others, "pre"))
            if len(slot.tags) > 1:
                c.note("caller-obligation: %s.%s requires the other members of %s to be absent" % (cls.__name__, meth, "|".join(slot.tags)))
        fn = inspect.getattr_static(cls, meth)
        c.summaries["pptx.oxml.xmlchemy:BaseOxmlElement.remove_all"] = lambda it, a, k: a[0].summary_remove_all(it, a[1:])
        if meth.startswith("_insert_"):
            child = SElem(decls.registry().get(d.tag), M.table, tagid=tid, name="child")
            out = c.run(fn, parent, child)
        else:
            out = c.run(fn, parent)
        if out.raised:
            c.fails("raises", "%s raised %s" % (meth, out.exc), child_tag=d.tag)
            return
        after = parent.kids
        from pyvc.elem import SChild
        at = out.value.pos if isinstance(out.value, SChild) else after.last_insert
        c.ensures("valid_after.order_and_multiplicity", M.universal(after, "1"), child_tag=d.tag)
        for si, claim in M.required_after(after, skip_required=own):
            c.ensures("valid_after.required[%s]" % "|".join(ct.slots[si].tags), claim, child_tag=d.tag)
        if at is None:
            c.fails("returns_child", "%s did not return / insert a child" % meth, child_tag=d.tag)
            return
        c.ensures("child_present", z3.And(0 <= at, at < after.n, after.f(at) == tid), child_tag=d.tag)
        if meth.startswith("get_or_add_"):
            c.ensures("exactly_one", M.count_is_one(after, tid, at), child_tag=d.tag)
            c.ensures("unchanged_if_present", z3.Or(kids0.absent(tid, "u"), after.same_as(kids0, "u")), child_tag=d.tag)
        elif meth.startswith("get_or_change_to_"):
            others = [g for g in group_ids if g != tid]
            c.ensures("exactly_one_group_member", z3.And(M.count_is_one(after, tid, at), M.absent(after, others, "g")), child_tag=d.tag)
        else:
            c.ensures("one_more", after.n == kids0.n + 1, child_tag=d.tag)
        c.mustfail("mustfail.unchanged", after.n == kids0.n)

    return body


COVERAGE = {"unreferenced": [], "not_applicable_in_type": [], "not_flattened": [], "no_xsd_type": []}


def _build():
    S = xsd.load()
    bt = xsd.reachable_types(S)
    seen = set()
    for tag, (cls, attrs, kids) in decls.all_decls().items():
        cts = bt.get(tag, {})
        if not cts and kids:
            COVERAGE["no_xsd_type"].append(tag)
        for d in kids:
            if d.kind == "OneAndOnlyOne":
                continue
            meths = in_scope(d)
            if not meths:
                COVERAGE["unreferenced"].append("%s.%s" % (cls.__name__, d.prop_name))
                continue
            for key, ct in cts.items():
                if ct.slot_of(d.tag) is None:
                    COVERAGE["not_applicable_in_type"].append("%s.%s@%s" % (cls.__name__, d.prop_name, ct.name))
                    continue
                slot = ct.slots[ct.slot_of(d.tag)]
                if not slot.exact:
                    COVERAGE["not_flattened"].append("%s.%s@%s" % (cls.__name__, d.prop_name, ct.name))
                    continue
                for meth in meths:
                    k = (cls, d.prop_name, ct.key, meth)
                    if k in seen:
                        continue
                    seen.add(k)
                    if inspect.getattr_static(cls, meth, None) is None:
                        continue
                    _make(cls, tag, ct, d, meth)


_build()


# --------------------------------------------------------------------------------------------
# hand-written insertions that bypass the declarations (DESIGN.md 5/C10)


def _tagged(M, tag, name="new"):
    return SElem(decls.registry().get(tag), M.table, tagid=M.table.id(tag), name=name)


def _post_valid(c, M, ct, kids0, after, own, child_tag):
    c.ensures("valid_after.order_and_multiplicity", M.universal(after, "1"), child_tag=child_tag)
    for si, claim in M.required_after(after, skip_required=own):
        c.ensures("valid_after.required[%s]" % "|".join(ct.slots[si].tags), claim, child_tag=child_tag)
    at = after.last_insert
    if at is None:
        c.fails("inserted", "no child was inserted", child_tag=child_tag)
        return
    c.ensures("child_present", z3.And(0 <= at, at < after.n, after.f(at) == M.table.id(child_tag)), child_tag=child_tag)
    c.ensures("one_more", after.n == kids0.n + 1, child_tag=child_tag)


def _replay_spTree(meth_desc, build):
    def replay(model, rec):
        from pptx.oxml.ns import NamespacePrefixedTag
        from pptx.oxml.xmlchemy import OxmlElement

        S = xsd.load()
        ct = S.complex_type(("http://schemas.openxmlformats.org/presentationml/2006/main", "CT_GroupShape"))
        try:
            before, after = build()
        except Exception as e:
            return {"confirmed": False, "detail": "replay could not run: %r" % (e,)}
        ok, why = native_valid(ct, after)
        return {"confirmed": not ok, "witness_class": "misplaced-child",
                "detail": "%s on a shape tree with children %s gives %s: %s" % (meth_desc, before, after, why or "valid"),
                "input": {"children": before}}

    return replay


def _spTree_with_extLst():
    """A real slide whose p:spTree ends with p:extLst (schema-permitted; PowerPoint writes it)."""
    from pyvc import native
    from pptx.oxml.xmlchemy import OxmlElement

    slide = native.blank_slide()
    spTree = slide.shapes._spTree
    spTree.append(OxmlElement("p:extLst"))
    return slide, spTree


def _kids_tags(spTree):
    from pptx.oxml.ns import NamespacePrefixedTag

    return [str(NamespacePrefixedTag.from_clark_name(e.tag)) for e in spTree]


def _group_add_contracts():
    from pptx.oxml.shapes.groupshape import CT_GroupShape

    S = xsd.load()
    P = "http://schemas.openxmlformats.org/presentationml/2006/main"
    ct = S.complex_type((P, "CT_GroupShape"))
    M = Model(ct)
    creators = {
        "add_autoshape": ("pptx.oxml.shapes.autoshape:CT_Shape.new_autoshape_sp", "p:sp", 7),
        "add_cxnSp": ("pptx.oxml.shapes.connector:CT_Connector.new_cxnSp", "p:cxnSp", 9),
        "add_freeform_sp": ("pptx.oxml.shapes.autoshape:CT_Shape.new_freeform_sp", "p:sp", 4),
        "add_grpSp": ("pptx.oxml.shapes.groupshape:CT_GroupShape.new_grpSp", "p:grpSp", 0),
        "add_pic": ("pptx.oxml.shapes.picture:CT_Picture.new_pic", "p:pic", 8),
        "add_placeholder": ("pptx.oxml.shapes.autoshape:CT_Shape.new_placeholder_sp", "p:sp", 6),
        "add_table": ("pptx.oxml.shapes.graphfrm:CT_GraphicalObjectFrame.new_table_graphicFrame", "p:graphicFrame", 8),
        "add_textbox": ("pptx.oxml.shapes.autoshape:CT_Shape.new_textbox_sp", "p:sp", 6),
    }
    for meth, (creator_qn, tag, nargs) in creators.items():
        def build(meth=meth):
            slide, spTree = _spTree_with_extLst()
            before = _kids_tags(spTree)
            sh = slide.shapes
            {"add_autoshape": lambda: sh.add_shape(1, 0, 0, 10, 10), "add_cxnSp": lambda: sh.add_connector(1, 0, 0, 5, 5),
             "add_freeform_sp": lambda: sh.build_freeform(0, 0).add_line_segments([(1, 1), (2, 0)]).convert_to_shape(),
             "add_grpSp": lambda: sh.add_group_shape(), "add_pic": lambda: spTree.add_pic(9, "n", "d", "rId9", 0, 0, 1, 1),
             "add_placeholder": lambda: spTree.add_placeholder(9, "n", __import__("pptx.enum.shapes", fromlist=["x"]).PP_PLACEHOLDER.BODY, "horz", "full", 1),
             "add_table": lambda: sh.add_table(1, 1, 0, 0, 10, 10), "add_textbox": lambda: sh.add_textbox(0, 0, 10, 10)}[meth]()
            return before, _kids_tags(spTree)

        @contract("C10", "C10.oxml.shapes.groupshape.CT_GroupShape.%s@CT_GroupShape<%s>" % (meth, tag),
                  replay=_replay_spTree("CT_GroupShape.%s" % meth, build), timeout_ms=15000)
        def body(c, meth=meth, creator_qn=creator_qn, tag=tag, nargs=nargs):
            """hand-written `insert_element_before(x, 'p:extLst')`: the new shape lands in the shape slot."""
            kids0, K, n = Kids.symbolic("K")
            parent = SElem(CT_GroupShape, M.table, kids=kids0, name="spTree")
            c.requires(M.axioms())
            c.requires(M.valid_pre(kids0))
            c.summaries[creator_qn] = lambda it, a, k: _tagged(M, tag)
            c.summaries["pptx.enum.base:BaseXmlEnum.to_xml"] = lambda it, a, k: "line"
            parent.fields["_next_shape_id"] = c.int("next_id")
            args = [c.int("a%d" % i) for i in range(nargs)]
            out = c.run(getattr(CT_GroupShape, meth), parent, *args)
            if out.raised:
                c.fails("raises", "%s raised %s" % (meth, out.exc), child_tag=tag)
                return
            _post_valid(c, M, ct, kids0, parent.kids, None, tag)

        del body

    # shapetree.py: add_group_shape moves existing shapes into the new group with the same idiom, and
    # add_chart / add_ole_object append the graphic frame to the shape tree
    import pptx.shapes.shapetree as st

    def build_chart():
        from pptx.chart.data import CategoryChartData
        from pptx.enum.chart import XL_CHART_TYPE

        slide, spTree = _spTree_with_extLst()
        before = _kids_tags(spTree)
        cd = CategoryChartData()
        cd.categories = ["a"]
        cd.add_series("s", (1,))
        slide.shapes.add_chart(XL_CHART_TYPE.PIE, 0, 0, 10, 10, cd)
        return before, _kids_tags(spTree)

    @contract("C10", "C10.shapes.shapetree._BaseGroupShapes._add_chart_graphicFrame@CT_GroupShape<p:graphicFrame>",
              replay=_replay_spTree("shapes.add_chart()", build_chart), timeout_ms=15000)
    def _chart(c):
        """add_chart places the p:graphicFrame where CT_GroupShape allows it, whatever siblings exist."""
        from pyvc.engine import SObj

        kids0, K, n = Kids.symbolic("K")
        spTree = SElem(CT_GroupShape, M.table, kids=kids0, name="spTree")
        c.requires(M.axioms())
        c.requires(M.valid_pre(kids0))
        c.summaries["pptx.oxml.shapes.graphfrm:CT_GraphicalObjectFrame.new_chart_graphicFrame"] = lambda it, a, k: _tagged(M, "p:graphicFrame")
        shapes = SObj(st._BaseGroupShapes, "shapes", _spTree=spTree, _next_shape_id=c.int("next_id"))
        out = c.run(st._BaseGroupShapes._add_chart_graphicFrame, shapes, "rId1", c.int("x"), c.int("y"), c.int("cx"), c.int("cy"))
        if out.raised:
            c.fails("raises", "raised %s" % out.exc, child_tag="p:graphicFrame")
            return
        _post_valid(c, M, ct, kids0, spTree.kids, None, "p:graphicFrame")


_group_add_contracts()


def _scope_job(tier="quick", seed=0):
    """Reports which declarations carry obligations and which do not (and why) -- no verdict of its own."""
    cov = {k: sorted(set(v)) for k, v in COVERAGE.items()}
    return {"contract": "C10.scope", "prop": "C10", "status": "ok", "obligations": [], "paths": 0, "assumed": [], "functions": {}, "notes": [],
            "solver_s": 0.0, "wall_s": 0.0,
            "coverage": {"declarations_unreferenced_no_obligation": cov["unreferenced"][:400],
                         "declarations_not_applicable_in_type": len(cov["not_applicable_in_type"]),
                         "declarations_not_flattened_not_claimed": cov["not_flattened"],
                         "registered_tags_without_reachable_xsd_type": cov["no_xsd_type"]}}


JOBS = {"C10.scope": _scope_job}


# ---------------------------------------------------------------------------------------------------------
# BOUNDED: hand-written mutators of the element classes, run on the elements of real parts (PowerPoint-authored prior states)

# helpers whose callers establish a precondition (the method itself is not an entry point): calling them out of context proves nothing
_HELPERS_WITH_PRECONDITION = {
    ("CT_Background", "add_noFill_bgPr"): "called by CT_CommonSlideData.get_or_add_bgPr after it removed the existing p:bgPr / p:bgRef",
    ("CT_TextBody", "clear_content"): "documented to leave the body without a:p until the caller adds one",
    ("CT_TableRow", "add_tc"): "adds a cell; the caller adds the grid column (rectangularity is C14's)",
}


def _native_mutators(tier="quick", seed=0):
    import copy
    import glob
    import inspect
    import io
    import os
    import time as _t
    import types

    from pptx import Presentation

    from .c03 import validate_root

    t0 = _t.time()
    obls, evals = [], 0
    # entry points only: `_add_x` / `_insert_x` are the second half of `get_or_add_x` and assume the child is absent
    prefixes = ("get_or_add", "add_", "get_or_change_to", "remove_", "unclear_")

    def mutators(cls):
        out = []
        for k in cls.__mro__:
            if not k.__module__.startswith("pptx.oxml") or k.__name__ in ("BaseOxmlElement", "_OxmlElementBase"):
                continue
            for n, f in k.__dict__.items():
                if not (isinstance(f, types.FunctionType) and f.__module__ == k.__module__ and n.startswith(prefixes)):
                    continue
                if (k.__name__, n) in _HELPERS_WITH_PRECONDITION or n.startswith("_insert_"):
                    continue
                ps = list(inspect.signature(f).parameters.values())[1:]
                if any(p.default is p.empty and p.kind in (p.POSITIONAL_ONLY, p.POSITIONAL_OR_KEYWORD) for p in ps):
                    continue
                if not any(n == m for _, m in out):
                    out.append((k.__name__, n))
        return out

    repo = os.environ.get("PPTX_REPO", "/repo")
    files = sorted(glob.glob(os.path.join(repo, "features", "steps", "test_files", "*.pptx")))
    if tier == "quick":
        files = [f for f in files if os.path.basename(f) in ("cht-point-props.pptx", "cht-charts.pptx", "shp-shapes.pptx", "tbl-cell.pptx", "sld-background.pptx", "dml-fill.pptx",
                                                              "cht-datalabels.pptx", "cht-axis-props.pptx", "txt-paragraph-props.pptx", "shp-picture.pptx", "test.pptx", "cht-chart-props.pptx")]
    cap = 3 if tier == "quick" else 12
    found, count, tried = {}, {}, set()
    for f in [None] + files:
        prs = Presentation(f) if f else Presentation()
        label = os.path.basename(f) if f else "default template"
        for part in prs.part.package.iter_parts():
            root = getattr(part, "_element", None)
            if root is None or [m for m in validate_root(root, None) if "not expected" in m]:
                continue  # not an XML part, or a child is already out of place (outside the property's premise)
            for el in list(root.iter()):
                if not isinstance(el.tag, str):
                    continue
                ms = mutators(type(el))
                seqs = [(cname, (meth,)) for cname, meth in ms] + [(c1, (m1, m2)) for c1, m1 in ms for _, m2 in ms if m1 != m2]
                for cname, meths in seqs:
                    meth = "+".join(meths)
                    key = (type(el).__name__, meth)
                    if count.get(key, 0) >= cap:
                        continue
                    count[key] = count.get(key, 0) + 1
                    tried.add((cname, meth))
                    evals += 1
                    r2 = copy.deepcopy(root)
                    idxs, cur = [], el
                    while cur is not root:
                        par = cur.getparent()
                        idxs.append(par.index(cur))
                        cur = par
                    el2 = r2
                    for i in reversed(idxs):
                        el2 = el2[i]
                    kids_before = [c.tag.split("}")[-1] for c in el2 if isinstance(c.tag, str)]
                    try:
                        for m in meths:
                            getattr(el2, m)()
                    except (ValueError, TypeError, AttributeError, KeyError, IndexError):
                        continue  # the helper does not apply to this element in this state
                    # the property is about where a child lands: a container that is still empty (its caller fills it) or an attribute
                    # still to be set is not a misplaced child
                    v = [m for m in validate_root(r2, None) if "not expected" in m]
                    if v:
                        found.setdefault("%s.%s" % (cname, meth), "%s, part %s: <%s> with children %s, after %s(): %s -- %s" % (
                            label, part.partname, el.tag.split("}")[-1], kids_before, meth, [c.tag.split("}")[-1] for c in el2 if isinstance(c.tag, str)], v[:1]))

    # hand-written property setters of the element classes, each with a few representative values, applied once and then once more
    # (a setter that creates a bare child meets that child on the second call)
    def setters(cls):
        out = []
        for k in cls.__mro__:
            if not k.__module__.startswith("pptx.oxml") or k.__name__ in ("BaseOxmlElement", "_OxmlElementBase"):
                continue
            for n, f in k.__dict__.items():
                if isinstance(f, property) and f.fset is not None and getattr(f.fset, "__module__", None) == k.__module__ and not any(n == m for _, m in out):
                    out.append((k.__name__, n))
        return out

    SET_VALUES = [True, False, None, 0, 1, 2, 0.5, "x", 914400]
    ntried_set = 0
    for f in [None] + files:
        prs = Presentation(f) if f else Presentation()
        label = os.path.basename(f) if f else "default template"
        for part in prs.part.package.iter_parts():
            root = getattr(part, "_element", None)
            if root is None or [m for m in validate_root(root, None) if "not expected" in m]:
                continue
            for el in list(root.iter()):
                if not isinstance(el.tag, str):
                    continue
                for cname, prop in setters(type(el)):
                    for val in SET_VALUES:
                        # one element per (class, property, value, children present): the same class serves different contexts
                        key = (type(el).__name__, prop, repr(val), tuple(sorted({c.tag for c in el if isinstance(c.tag, str)})))
                        if count.get(key, 0) >= (1 if tier == "quick" else 3):
                            continue
                        count[key] = count.get(key, 0) + 1
                        evals += 1
                        r2 = copy.deepcopy(root)
                        idxs, cur = [], el
                        while cur is not root:
                            par = cur.getparent()
                            idxs.append(par.index(cur))
                            cur = par
                        el2 = r2
                        for i in reversed(idxs):
                            el2 = el2[i]
                        kids_before = [c.tag.split("}")[-1] for c in el2 if isinstance(c.tag, str)]
                        for times in (1, 2):
                            try:
                                setattr(el2, prop, val)
                            except Exception:
                                break  # the value is refused, or the setter does not apply to this element in this state
                            ntried_set += 1
                            v = [m for m in validate_root(r2, None) if "not expected" in m]
                            if v:
                                found.setdefault("%s.%s=" % (cname, prop), "%s, part %s: <%s> with children %s, after %s = %r (%d time(s)): %s -- %s" % (
                                    label, part.partname, el.tag.split("}")[-1], kids_before, prop, val, times, [c.tag.split("}")[-1] for c in el2 if isinstance(c.tag, str)], v[:1]))
                                break

    def rec(name, bad):
        r = {"name": name, "base": name, "kind": "bounded", "status": "refuted" if bad else "discharged", "backend": "native", "time": 0, "path": 0}
        if bad:
            r["replay"] = {"confirmed": True, "witness_class": "misplaced-child", "detail": bad}
            r["model"] = None
        obls.append(r)

    # "remove" removes ALL children of the kind: where the schema lets a child repeat (and another producer wrote it twice), a remover
    # that takes the first one only leaves the rest behind.  For every zero-argument remover / clearer: note which kinds of children it
    # takes away from a real element, duplicate those children (keeping the part free of misplaced children), run it again: none is left
    rm_prefixes = ("remove_", "_remove_", "clear_", "_clear_", "unclear_")
    leftovers = {}
    rm_count = {}
    for f in [None] + files:
        prs = Presentation(f) if f else Presentation()
        label = os.path.basename(f) if f else "default template"
        for part in prs.part.package.iter_parts():
            root = getattr(part, "_element", None)
            if root is None or [m for m in validate_root(root, None) if "not expected" in m]:
                continue
            for el in list(root.iter()):
                if not isinstance(el.tag, str) or not len(el):
                    continue
                for k in type(el).__mro__:
                    if not k.__module__.startswith("pptx.oxml") or k.__name__ in ("BaseOxmlElement", "_OxmlElementBase"):
                        continue
                    for n_, f_ in list(k.__dict__.items()):
                        if not (isinstance(f_, types.FunctionType) and n_.startswith(rm_prefixes)):
                            continue
                        if any(p.default is p.empty and p.kind in (p.POSITIONAL_ONLY, p.POSITIONAL_OR_KEYWORD) for p in list(inspect.signature(f_).parameters.values())[1:]):
                            continue
                        key = (type(el).__name__, n_)
                        if rm_count.get(key, 0) >= 2 or ("%s.%s" % (k.__name__, n_)) in leftovers:
                            continue
                        idxs, cur = [], el
                        while cur is not root:
                            par = cur.getparent()
                            idxs.append(par.index(cur))
                            cur = par

                        def locate(r_):
                            e_ = r_
                            for i_ in reversed(idxs):
                                e_ = e_[i_]
                            return e_

                        r1 = copy.deepcopy(root)
                        e1 = locate(r1)
                        tags0 = [c.tag for c in e1 if isinstance(c.tag, str)]
                        try:
                            getattr(e1, n_)()
                        except Exception:
                            continue
                        gone = set(tags0) - {c.tag for c in e1 if isinstance(c.tag, str)}
                        if not gone:
                            continue
                        r2 = copy.deepcopy(root)
                        e2 = locate(r2)
                        for c in list(e2):
                            if isinstance(c.tag, str) and c.tag in gone:
                                c.addnext(copy.deepcopy(c))
                        if [m for m in validate_root(r2, None) if "not expected" in m]:
                            continue  # the schema does not let this child repeat here
                        rm_count[key] = rm_count.get(key, 0) + 1
                        evals += 1
                        try:
                            getattr(e2, n_)()
                        except Exception:
                            continue
                        left = sorted(c.tag.split("}")[-1] for c in e2 if isinstance(c.tag, str) and c.tag in gone)
                        if left:
                            leftovers["%s.%s" % (k.__name__, n_)] = "%s, part %s: <%s> holding %s twice (the schema allows it), after %s(): %s left behind" % (
                                label, part.partname, el.tag.split("}")[-1], sorted(t.split("}")[-1] for t in gone), n_, left)
    # whatever creates a child creates a NEW element: a creator that hands out an element it handed out before moves that element out
    # of its first parent when it is inserted again (an element has one parent), leaving the first parent without the child
    from pptx.oxml import parse_xml as _parse_xml
    from pptx.oxml.ns import _nsmap as _NS

    from pyvc import decls as _decls

    shared = []
    n_creators = 0
    for tag_, cls_ in sorted(_decls.registry().items()):
        pfx_, local_ = tag_.split(":")
        try:
            inst = _parse_xml('<%s:%s xmlns:%s="%s"/>' % (pfx_, local_, pfx_, _NS[pfx_]))
        except Exception:
            continue
        for k in type(inst).__mro__:
            if not k.__module__.startswith("pptx.oxml") or k.__name__ in ("BaseOxmlElement", "_OxmlElementBase"):
                continue
            for n_, f_ in list(k.__dict__.items()):
                fn_ = getattr(f_, "__func__", f_)
                if not (n_.startswith(("new", "_new")) and isinstance(fn_, types.FunctionType)):
                    continue
                is_static = isinstance(f_, staticmethod)
                ps = list(inspect.signature(fn_).parameters.values())
                ps = ps if is_static else ps[1:]
                if any(p.default is p.empty and p.kind in (p.POSITIONAL_ONLY, p.POSITIONAL_OR_KEYWORD) for p in ps):
                    continue
                bound = getattr(inst, n_, None) if not isinstance(f_, (staticmethod, classmethod)) else getattr(type(inst), n_, None)
                if bound is None:
                    continue
                try:
                    a_, b_ = bound(), bound()
                except Exception:
                    continue
                n_creators += 1
                evals += 1
                if a_ is b_ and hasattr(a_, "getparent"):
                    shared.append("%s.%s" % (k.__name__, n_))

    for sig, wit in sorted(found.items()):
        rec("C10.native.handwritten_mutator_keeps_part_valid[%s]" % sig, wit)
    for sig, wit in sorted(leftovers.items()):
        rec("C10.native.remover_removes_every_child_of_the_kind[%s]" % sig, wit)
    rec("C10.native.removers_remove_every_child_of_the_kind", None if not leftovers else "%d removers leave repeated children behind: %s" % (len(leftovers), sorted(leftovers)))
    rec("C10.native.creators_return_a_new_element_each_time", "called twice, these creators return one and the same element: %s" % sorted(set(shared)) if shared else
        (None if n_creators else "no zero-argument creator found"))
    rec("C10.native.handwritten_mutators_on_real_parts", None if not found else "%d hand-written mutators leave a valid part invalid: %s" % (len(found), sorted(found)))
    return {"contract": "C10.native_mutators", "prop": "C10", "status": "ok", "obligations": obls, "paths": 0, "assumed": [], "functions": {},
            "notes": ["excluded helpers (precondition established by their caller): %s" % sorted("%s.%s" % k for k in _HELPERS_WITH_PRECONDITION)], "solver_s": 0.0, "wall_s": _t.time() - t0,
            "bounded": {"name": "C10.native_mutators", "bound": "%d hand-written zero-argument mutators of the element classes (get_or_add_* / add_* / remove_* ...) and ordered pairs of them, each on up to %d elements of its class "
                        "taken from the default template and %d corpus decks, the whole part validated against the XSD afterwards" % (len(tried), cap, len(files)),
                        "evaluations": evals, "samples": sorted("%s.%s" % k for k in tried)[:6], "counted_as_proved": False}}


JOBS["C10.native_mutators"] = _native_mutators


# ---------------------------------------------------------------------------------------------------------
# hand-written members of the element classes that change children (property setters and mutator methods): whatever the valid
# prior children are, the children afterwards are in schema order with schema multiplicities (in particular: at most one member
# of each choice).  Same symbolic element model as above; the argument is an opaque value.

_HW_PREFIXES = ("get_or_add", "add_", "get_or_change_to", "remove_", "unclear_")


def _handwritten_members(cls):
    import types

    out = []
    for k in cls.__mro__:
        if not k.__module__.startswith("pptx.oxml") or k.__name__ in ("BaseOxmlElement", "_OxmlElementBase"):
            continue
        for n, f in k.__dict__.items():
            if isinstance(f, property) and isinstance(f.fset, types.FunctionType) and f.fset.__module__ == k.__module__:
                out.append((k, n + ".fset", f.fset, 1))
            elif isinstance(f, types.FunctionType) and f.__module__ == k.__module__ and n.startswith(_HW_PREFIXES) and (k.__name__, n) not in _HELPERS_WITH_PRECONDITION:
                ps = list(inspect.signature(f).parameters.values())[1:]
                req = [p_ for p_ in ps if p_.default is p_.empty and p_.kind in (p_.POSITIONAL_ONLY, p_.POSITIONAL_OR_KEYWORD)]
                if len(req) <= 1:
                    out.append((k, n, f, len(req)))
    seen, res = set(), []
    for k, n, f, na in out:
        if n not in seen:
            seen.add(n)
            res.append((k, n, f, na))
    return res


# members outside the generator's subset on the unchanged tree (reason), or paired with an XSD type they never occur in: they carry no
# contract of their own and stay with the bounded C10.native_mutators job / the contracts named
_HW_NO_CONTRACT = {
    ("CT_RegularTextRun", "text.fset"): "stores text only (re.sub over the characters): no child changes; C04",
    ("CT_TextBody", "unclear_content"): "findall-based; C04 contracts cover it",
    ("CT_Boolean_Explicit", "val.fset"): "attribute only",
    ("CT_TimeNodeList", "add_video"): "uses super(); covered by C03 template contract for the video timing",
    ("CT_GroupShape", "add_grpSp"): "uses super(); has its own contract above (CT_GroupShape.add_grpSp@CT_GroupShape<p:grpSp>)",
    ("CT_SlideIdList", "add_sldId"): "uses super(); C13 contract add_sldId",
    ("CT_Slide", "get_or_add_childTnLst"): "uses super(); C03 / C10 contract for _add_childTnLst",
}


def _arg_kinds(fn, nargs):
    """representative arguments: an opaque value, plus -- when the code inspects its argument -- one value of each kind it can ask about"""
    import enum

    if not nargs:
        return [("", [])]
    try:
        src = inspect.getsource(fn)
    except (OSError, TypeError):
        src = ""
    kinds = [("", None)]
    if fn.__name__ == fn.__name__ and (getattr(fn, "__qualname__", "").split(".")[-1] == fn.__name__) and ("isinstance(" in src or " is None" in src or " in " in src or "==" in src or "validate" in src or src.lstrip().startswith("@")):
        from pptx.util import Emu

        kinds = [("[Length]", Emu(12700)), ("[float]", 1.5), ("[int]", 2), ("[None]", None), ("[True]", True), ("[False]", False)]
        for nm, g in fn.__globals__.items():
            if isinstance(g, type) and issubclass(g, enum.Enum) and nm in src:
                for m in list(g)[:8]:
                    kinds.append(("[%s.%s]" % (nm, m.name), m))
    return [(lbl, [v] if lbl else None) for lbl, v in kinds]


def _make_handwritten(cls, tag, ct, owner, name, fn, nargs, kind_label="", kind_args=None):
    M = Model(ct)
    cname = "C10.%s.%s%s@%s.keeps_children_in_schema_order" % (_qual(owner), name, kind_label, ct.name)

    def replay(model, rec):
        r = _native_mutators(tier="quick", seed=0)
        badr = [o for o in r["obligations"] if o["status"] == "refuted"]
        if badr:
            return {"confirmed": True, "witness_class": "misplaced-child", "detail": badr[0]["replay"]["detail"]}
        return {"confirmed": False, "detail": "no hand-written mutator misplaces a child on the corpus parts"}

    @contract("C10", cname, replay=replay, timeout_ms=15000)
    def body(c):
        from pyvc.engine import SObj

        kids0, K, n = Kids.symbolic("K")
        c.input("n", n)
        parent = SElem(cls, M.table, kids=kids0, tagid=None, name="parent")
        parent.opaque_children = True
        c.summaries["<option>ignore_child_attribute_stores"] = True
        c.requires(M.axioms())
        c.requires(M.valid_pre(kids0))
        c.summaries["pptx.oxml.xmlchemy:BaseOxmlElement.remove_all"] = lambda it, a, k: a[0].summary_remove_all(it, a[1:])
        args = list(kind_args) if kind_args is not None else [SObj(None, "value")] * nargs
        try:
            out = c.run(fn, parent, *args)
        except Unsupported as e:
            if "content model" in str(e):
                # the class is registered for several tags / XSD types; this member creates a child the type at hand does not have
                c.ensures("not_applicable_in_this_type", True)
                return
            raise
        if out.raised:
            c.ensures("raised.no_claim", True)
            return
        c.ensures("valid_after.order_and_multiplicity", M.universal(parent.kids, "1"))

    return body


def _build_handwritten():
    S = xsd.load()
    bt = xsd.reachable_types(S)
    done = set()
    for tag, (cls, attrs, kids) in sorted(decls.all_decls().items()):
        for key, ct in bt.get(tag, {}).items():
            if not all(sl.exact for sl in ct.slots):
                continue
            for owner, name, fn, nargs in _handwritten_members(cls):
                k = (owner, name, ct.key)
                if k in done or (owner.__name__, name) in _HW_NO_CONTRACT:
                    continue
                done.add(k)
                # the member must be able to occur in this XSD type at all: every child it can create is in the type's content model
                for lbl, kargs in _arg_kinds(fn, nargs):
                    _make_handwritten(cls, tag, ct, owner, name, fn, nargs, lbl, kargs)


_build_handwritten()

"""C01 -- opening and saving a package preserves every reachable part and relationship.  DESIGN.md 5/C01.

Writer side: content-type lemma (what _ContentTypesItem writes, read back through the real _ContentTypeMap lookup,
gives every part its own content type), _write_parts (every part's blob under its own name, a rels item iff it has
relationships), _write (the three streams).  Walks: iter_parts yields every internal target of iter_rels exactly
once; the loader's depth-first walk (_xml_rels.load_rels) visits a set that contains the root, is closed under internal
relationships and contains only names reached from the root (recursive-procedure contract).  Reader side of
relationships is C16."""
from __future__ import annotations

import z3

from pyvc.engine import Atom, GhostFn, SObj, SSeq, SStr, invariant_loop
from pyvc.gsets import GDict, GSet, YLog
from pyvc.verify import contract

from .opc import EXT, LOWER, OPTIONS, GName, name_key

META = {
    "residual": [
        "payload bytes, XML equivalence and byte-identity of a second save are covered by the bounded C01.native_roundtrip job only (zlib, libxml2)",
        "part names are pairwise distinct also when compared case-insensitively (OPC requirement) -- stated precondition of the content-type lemma",
        "termination of the depth-first walks is not proved (partial correctness)",
        "sorted() over dict items in _ContentTypesItem._xml and _Relationships.xml: emission of every entry exactly once is probed natively, not proved",
    ],
    "trusted_base": ["z3 arrays / quantifier instantiation", "zipfile", "lxml serialisation", "C19 part-name contracts", "C16 reader contracts"],
}


def _isdef(e, t):
    """(e, t) is one of the (extension, content type) pairs of pptx.opc.spec.default_content_types -- read from the real tuple."""
    from pptx.opc.spec import default_content_types

    return z3.Or(*[z3.And(e == z3.StringVal(x), t == z3.StringVal(y)) for x, y in default_content_types])


def _replay_ct_lemma(model, rec):
    """two parts sharing an extension whose (ext, type) pairs are both 'default' pairs, plus neighbours"""
    import io
    import itertools

    from pptx.opc.package import Part, _ContentTypeMap
    from pptx.opc.packuri import PackURI
    from pptx.opc.serialized import _ContentTypesItem
    from pptx.opc.oxml import serialize_part_xml
    from pptx.opc.spec import default_content_types

    by_ext = {}
    for e, t in default_content_types:
        by_ext.setdefault(e, []).append(t)
    cands = []
    for e, ts in by_ext.items():
        if len(ts) > 1:
            for a, b in itertools.permutations(ts, 2):
                cands.append([("/ppt/x/a1.%s" % e, a), ("/ppt/y/b2.%s" % e, b)])
    cands.append([("/ppt/media/image1.PNG", "image/png"), ("/ppt/media/image2.png", "image/x-other")])
    cands.append([("/ppt/a.xml", "application/xml"), ("/ppt/b.xml", "application/vnd.x+xml"), ("/ppt/c.XML", "application/xml")])
    cands.append([("/ppt/a.jpg", "image/jpeg"), ("/ppt/b.jpeg", "image/jpeg"), ("/ppt/c.jpg", "image/jpg")])
    for parts_spec in cands:
        parts = [Part(PackURI(n), t, None, b"") for n, t in parts_spec]
        xml = serialize_part_xml(_ContentTypesItem.xml_for(parts))
        m = _ContentTypeMap.from_xml(xml)
        for n, t in parts_spec:
            try:
                got = m[PackURI(n)]
            except KeyError:
                got = None
            if got != t:
                return {"confirmed": True, "witness_class": "content-type-not-preserved",
                        "detail": "parts %s: written [Content_Types].xml gives %s the type %r" % (parts_spec, n, got), "input": parts_spec}
    return {"confirmed": False, "detail": "%d candidate part lists keep their content types" % len(cands)}


@contract("C01", "C01.opc.serialized._ContentTypesItem._defaults_and_overrides", replay=_replay_ct_lemma, timeout_ms=60000)
def _ct_lemma(c):
    """content-type lemma, for any number of parts with distinct names: after the loop every part's content type is
    what the reader's lookup (override by name, else default by lower(ext)) finds in (defaults, overrides)."""
    from pptx.opc.constants import CONTENT_TYPE as CT
    from pptx.opc.serialized import _ContentTypesItem

    c.summaries.update(OPTIONS)
    made = {}

    def mk(tag):
        if tag == "CaseInsensitiveDict":
            made["D"] = GDict("defaults", key_of=name_key)
            return made["D"]
        if tag.endswith("_defaults_and_overrides"):
            made["O"] = GDict("overrides", key_of=name_key)
            return made["O"]
        return None

    c.summaries["<option>ghost_dicts"] = mk
    n = c.int("n_parts")
    c.requires(n >= 0)
    PN = z3.Function("PARTNAME", z3.IntSort(), z3.StringSort())
    CTY = z3.Function("CONTENT_TYPE", z3.IntSort(), z3.StringSort())
    for q in range(2):
        c.input("partname%d" % q, PN(z3.IntVal(q)))
        c.input("content_type%d" % q, CTY(z3.IntVal(q)))
    i, j = z3.Ints("ci cj")
    c.requires(z3.ForAll([i, j], z3.Implies(z3.And(0 <= i, i < j, j < n), PN(i) != PN(j))))
    parts = SSeq(n, lambda q: SObj(None, "part[%s]" % q, partname=GName(PN(q), "partname[%s]" % q), content_type=SStr([Atom("content_type[%s]" % q, zs=CTY(q))])), name="parts")
    item = SObj(_ContentTypesItem, "content_types_item", _parts=parts)
    e_of = lambda q: LOWER(EXT(PN(q)))
    # lower() is idempotent and fixes the lower-case literals the code uses
    s = z3.String("ls")
    c.path.assume(z3.ForAll([s], LOWER(LOWER(s)) == LOWER(s)))
    c.path.assumed.add("str.lower is idempotent")

    def inv(env, k):
        D, O = made["D"], made["O"]
        e = z3.String("ie")
        return z3.And(
            # every processed part is found by the reader's lookup: its own override, or -- having none -- the default of its extension
            z3.ForAll([j], z3.Implies(z3.And(0 <= j, j < k),
                                      z3.Or(z3.And(O.has(PN(j)), O.val(PN(j)) == CTY(j)),
                                            z3.And(z3.Not(O.has(PN(j))), D.has(e_of(j)), D.val(e_of(j)) == CTY(j))))),
            # overrides are keyed by names of processed parts only
            z3.ForAll([e], z3.Implies(O.has(e), z3.Exists([j], z3.And(0 <= j, j < k, PN(j) == e)))),
        )

    qn = "pptx.opc.serialized:_ContentTypesItem._defaults_and_overrides"
    c.loop_specs[(qn, 0)] = invariant_loop("C01.opc.serialized._ContentTypesItem._defaults_and_overrides.loop0", [], inv)
    out = c.run(_ContentTypesItem.__dict__["_defaults_and_overrides"]._fget, item)
    if out.raised:
        c.fails("never_raises", "raised %s" % out.exc)
        return
    D, O = made["D"], made["O"]
    ok = isinstance(out.value, tuple) and len(out.value) == 2 and out.value[1] is O and getattr(out.value[0], "fields", {}).get("__payload__") is D
    c.ensures("post.returns_(defaults, overrides)", ok)
    k = c.int("probe")
    c.requires(z3.And(0 <= k, k < n))
    lookup = z3.If(O.has(PN(k)), O.val(PN(k)), D.val(e_of(k)))
    c.ensures("post.every_part_is_declared", z3.Or(O.has(PN(k)), D.has(e_of(k))))
    c.ensures("post.lookup_gives_own_content_type", lookup == CTY(k))


def _replay_write(model, rec):
    import io
    import zipfile

    from pptx.opc.package import Part, _Relationships
    from pptx.opc.packuri import PackURI
    from pptx.opc.serialized import PackageWriter

    a = Part(PackURI("/ppt/a.bin"), "application/x-a", None, b"\x00\x01AAA")
    b = Part(PackURI("/ppt/sub/b.dat"), "application/x-b", None, b"BBB\xff")
    a.__dict__["_rels"] = _Relationships(a.partname.baseURI)
    b.__dict__["_rels"] = _Relationships(b.partname.baseURI)
    a._rels._add_relationship("http://t/x", b)
    pkg_rels = _Relationships("/")
    pkg_rels._add_relationship("http://t/root", a)
    buf = io.BytesIO()
    PackageWriter.write(buf, pkg_rels, (a, b))
    z = zipfile.ZipFile(io.BytesIO(buf.getvalue()))
    names = z.namelist()
    want = ["[Content_Types].xml", "_rels/.rels", "ppt/a.bin", "ppt/_rels/a.bin.rels", "ppt/sub/b.dat"]
    if sorted(names) != sorted(want) or len(set(names)) != len(names):
        return {"confirmed": True, "witness_class": "writer-members", "detail": "members written: %s, expected %s" % (names, want)}
    if z.read("ppt/a.bin") != a.blob or z.read("ppt/sub/b.dat") != b.blob:
        return {"confirmed": True, "witness_class": "writer-bytes", "detail": "payload bytes differ"}
    return {"confirmed": False, "detail": "two-part package written with the expected members"}


class _Writer:
    """ghost physical writer: log of (name, blob) writes"""

    __pyvc_symbolic__ = True

    def __init__(self):
        self.cnt = z3.IntVal(0)
        self.NAME = z3.Array("W_NAME0", z3.IntSort(), z3.StringSort())
        self.BLOB = z3.Array("W_BLOB0", z3.IntSort(), z3.IntSort())
        self.entered = self.exited = 0

    def havoc(self, tag):
        self.cnt = z3.Int("W_cnt_%s" % tag)
        self.NAME = z3.Array("W_NAME_%s" % tag, z3.IntSort(), z3.StringSort())
        self.BLOB = z3.Array("W_BLOB_%s" % tag, z3.IntSort(), z3.IntSort())

    def sym_getattr(self, it, name):
        if name == "write":
            def write(i2, a, k):
                nm, blob = a
                self.NAME = z3.Store(self.NAME, self.cnt, name_key(nm))
                self.BLOB = z3.Store(self.BLOB, self.cnt, blob.fields["blob_id"] if isinstance(blob, SObj) else blob)
                self.cnt = self.cnt + 1

            return GhostFn(write, "phys_writer.write")
        if name == "__enter__":
            return GhostFn(lambda i2, a, k: (setattr(self, "entered", self.entered + 1), self)[1], "__enter__")
        if name == "__exit__":
            return GhostFn(lambda i2, a, k: setattr(self, "exited", self.exited + 1), "__exit__")
        raise Exception("ghost writer asked for %s" % name)


RELS_OF = z3.Function("RELS_URI_OF", z3.StringSort(), z3.StringSort())


@contract("C01", "C01.opc.serialized.PackageWriter._write_parts", replay=_replay_write, timeout_ms=30000)
def _write_parts(c):
    """for any number of parts: part j's blob is written under part j's name, followed by its rels item (under the
    part's rels_uri, holding part.rels.xml) iff the part has relationships; nothing else is written; order is the
    order of the parts."""
    from pptx.opc.serialized import PackageWriter

    n = c.int("n_parts")
    c.requires(n >= 0)
    PN = z3.Function("PARTNAME", z3.IntSort(), z3.StringSort())
    BL = z3.Function("BLOB_OF", z3.IntSort(), z3.IntSort())
    RX = z3.Function("RELS_XML_OF", z3.IntSort(), z3.IntSort())
    HASRELS = z3.Function("HAS_RELS", z3.IntSort(), z3.BoolSort())

    class _R:
        __pyvc_symbolic__ = True

        def __init__(self, q):
            self.q = q

        def sym_truth(self, it):
            return HASRELS(self.q)

    def part(q):
        return SObj(None, "part[%s]" % q, partname=GName(PN(q)), blob=SObj(None, "blob", blob_id=BL(q)), _rels=_R(q),
                    rels=SObj(None, "rels", xml=SObj(None, "rels_xml", blob_id=RX(q))))

    parts = SSeq(n, part, name="parts")
    w = _Writer()
    c.path.ghost.setdefault("ghost_state", []).append(w)
    pw = SObj(PackageWriter, "package_writer", _parts=parts)
    # POSN(k) = number of writes after k parts (ghost rank function)
    POSN = z3.Function("POSN", z3.IntSort(), z3.IntSort())
    j = z3.Int("wj")
    c.path.assume(POSN(0) == 0)
    c.path.assume(z3.ForAll([j], z3.Implies(j >= 0, POSN(j + 1) == POSN(j) + z3.If(HASRELS(j), 2, 1))))
    c.path.assumed.add("POSN(k): ghost definition (number of members written for the first k parts)")

    def facts(k):
        return z3.And(w.cnt == POSN(k), POSN(k) >= 0,
                      z3.ForAll([j], z3.Implies(z3.And(0 <= j, j < k),
                                                z3.And(POSN(j) >= 0, POSN(j) < POSN(j + 1), POSN(j + 1) <= w.cnt,
                                                       w.NAME[POSN(j)] == PN(j), w.BLOB[POSN(j)] == BL(j),
                                                       z3.Implies(HASRELS(j), z3.And(w.NAME[POSN(j) + 1] == RELS_OF(PN(j)), w.BLOB[POSN(j) + 1] == RX(j)))))))

    c.loop_specs[("pptx.opc.serialized:PackageWriter._write_parts", 0)] = invariant_loop("C01.opc.serialized.PackageWriter._write_parts.loop0", [], lambda env, k: facts(k))
    out = c.run(PackageWriter._write_parts, pw, w)
    if out.raised:
        c.fails("never_raises", "raised %s" % out.exc)
        return
    c.ensures("post.every_part_and_its_rels_item_written_in_order", facts(n))
    c.ensures("post.nothing_else_written", w.cnt == POSN(n))


@contract("C01", "C01.opc.serialized.PackageWriter._write", replay=_replay_write)
def _write(c):
    """the package file receives the content-types stream, then the package relationships, then the parts, inside one
    open/close of the physical writer."""
    from pptx.opc.serialized import PackageWriter

    events = []
    w = _Writer()
    c.summaries["pptx.opc.serialized:_PhysPkgWriter.factory"] = lambda it, a, k: (events.append(("factory", a[-1])), w)[1]
    pw = SObj(PackageWriter, "package_writer", _pkg_file=SObj(None, "pkg_file"),
              _write_content_types_stream=GhostFn(lambda it, a, k: events.append(("content_types", a[0])), "_write_content_types_stream"),
              _write_pkg_rels=GhostFn(lambda it, a, k: events.append(("pkg_rels", a[0])), "_write_pkg_rels"),
              _write_parts=GhostFn(lambda it, a, k: events.append(("parts", a[0])), "_write_parts"))
    out = c.run(PackageWriter._write, pw)
    if out.raised:
        c.fails("never_raises", "raised %s" % out.exc)
        return
    kinds = [e[0] for e in events]
    c.ensures("post.three_streams_in_order", kinds == ["factory", "content_types", "pkg_rels", "parts"])
    c.ensures("post.same_writer_for_all", all(e[1] is w for e in events[1:]) and events[0][1] is pw.fields["_pkg_file"])
    c.ensures("post.writer_closed_once", w.entered == 1 and w.exited == 1)


@contract("C01", "C01.opc.serialized.PackageWriter._write_content_types_stream+_write_pkg_rels", replay=_replay_write)
def _write_streams(c):
    """[Content_Types].xml holds the serialisation of xml_for(these parts); /_rels/.rels holds pkg_rels.xml."""
    from pptx.opc.packuri import CONTENT_TYPES_URI, PACKAGE_URI
    from pptx.opc.serialized import PackageWriter

    parts = SObj(None, "parts")
    seen = []
    c.summaries["pptx.opc.serialized:_ContentTypesItem.xml_for"] = lambda it, a, k: (seen.append(a[-1]), SObj(None, "types_elm"))[1]
    c.summaries["pptx.opc.oxml:serialize_part_xml"] = lambda it, a, k: SObj(None, "ct_bytes", blob_id=z3.IntVal(11), src=a[0])
    w = _Writer()
    pw = SObj(PackageWriter, "package_writer", _parts=parts, _pkg_rels=SObj(None, "pkg_rels", xml=SObj(None, "pkg_rels_xml", blob_id=z3.IntVal(22))))
    out = c.run(PackageWriter._write_content_types_stream, pw, w)
    if out.raised:
        c.fails("never_raises", "raised %s" % out.exc)
        return
    out2 = c.run(PackageWriter._write_pkg_rels, pw, w)
    if out2.raised:
        c.fails("never_raises", "raised %s" % out2.exc)
        return
    c.ensures("post.content_types_for_these_parts", len(seen) == 1 and seen[0] is parts)
    c.ensures("post.two_members", z3.And(w.cnt == 2, w.NAME[0] == z3.StringVal(str(CONTENT_TYPES_URI)), w.BLOB[0] == 11,
                                         w.NAME[1] == z3.StringVal(str(PACKAGE_URI.rels_uri)), w.BLOB[1] == 22))


# ---------------------------------------------------------------------------------------------------------
# walks


def _replay_walks(model, rec):
    """all relationship graphs over 3 parts (each ordered pair present or not, root edges to any subset incl. a double edge)"""
    import itertools

    from pptx.opc.package import OpcPackage, Part, _Relationships
    from pptx.opc.packuri import PackURI

    names = ["/p/a.xml", "/p/b.xml", "/p/c.xml"]
    pairs = [(i, j) for i in range(3) for j in range(3)]
    count = 0
    for mask in range(0, 1 << 9, 7):  # stride keeps the replay quick; the native job sweeps all
        for root in ([0], [0, 0], [1, 2], [0, 1, 2]):
            pkg = OpcPackage(None)
            parts = [Part(PackURI(n), "x", pkg, b"") for n in names]
            for p in parts:
                p.__dict__["_rels"] = _Relationships(p.partname.baseURI)
            for b, (i, j) in enumerate(pairs):
                if mask >> b & 1:
                    parts[i]._rels._add_relationship("t%d" % b, parts[j])
            for r in root:
                pkg._rels._add_relationship("root%d" % count, parts[r])
                count += 1
            for p in parts:
                p._rels._add_relationship("ext", "http://example.com/", is_external=True)
            pkg._rels._add_relationship("ext", "http://example.com/", is_external=True)
            reach = set(root)
            ch = True
            while ch:
                ch = False
                for b, (i, j) in enumerate(pairs):
                    if mask >> b & 1 and i in reach and j not in reach:
                        reach.add(j)
                        ch = True
            got = list(pkg.iter_parts())
            if len(got) != len(set(map(id, got))) or set(map(id, got)) != {id(parts[i]) for i in reach}:
                return {"confirmed": True, "witness_class": "iter-parts", "detail": "graph mask %d roots %s: iter_parts gave %s, reachable %s" % (mask, root, [str(p.partname) for p in got], sorted(reach))}
            rels = list(pkg.iter_rels())
            want = len(pkg._rels) + sum(len(parts[i]._rels) for i in reach)
            if len(rels) != want or len(set(map(id, rels))) != len(rels):
                return {"confirmed": True, "witness_class": "iter-rels", "detail": "graph mask %d roots %s: iter_rels gave %d relationships, expected %d" % (mask, root, len(rels), want)}
    return {"confirmed": False, "detail": "sampled 3-part graphs: walks complete and duplicate-free"}


@contract("C01", "C01.opc.package.OpcPackage.iter_parts", replay=_replay_walks, timeout_ms=30000)
def _iter_parts(c):
    """for any sequence of relationships produced by iter_rels: every internal target part is yielded, no part is
    yielded twice, and only target parts of internal relationships are yielded."""
    from pptx.opc.package import OpcPackage

    n = c.int("n_rels")
    c.requires(n >= 0)
    EXTR = z3.Function("IS_EXTERNAL", z3.IntSort(), z3.BoolSort())
    TP = z3.Function("TARGET_PART", z3.IntSort(), z3.IntSort())
    rels = SSeq(n, lambda q: SObj(None, "rel[%s]" % q, is_external=EXTR(q), target_part=SObj(None, "part", gkey=TP(q))), name="iter_rels()")
    log = {}

    def mklog(qn):
        log["y"] = YLog("parts_yielded")
        return log["y"]

    vis = {}

    def mkset():
        vis["v"] = GSet("visited")
        return vis["v"]

    c.summaries["<option>yield_log"] = mklog
    c.summaries["<option>symbolic_sets"] = mkset
    pkg = SObj(OpcPackage, "package", iter_rels=GhostFn(lambda it, a, k: rels, "iter_rels"))
    j, a, b = z3.Ints("pj pa pb")
    p = z3.Int("pp")

    def inv(env, k):
        Y, V = log["y"], vis["v"]
        return z3.And(
            Y.cnt >= 0,
            z3.ForAll([j], z3.Implies(z3.And(0 <= j, j < k, z3.Not(EXTR(j))), V.has(TP(j)))),
            z3.ForAll([a], z3.Implies(z3.And(0 <= a, a < Y.cnt), V.has(Y.LOG[a]))),
            z3.ForAll([a, b], z3.Implies(z3.And(0 <= a, a < b, b < Y.cnt), Y.LOG[a] != Y.LOG[b])),
            z3.ForAll([p], V.has(p) == z3.Select(Y.MEM, p)),
            z3.ForAll([a], z3.Implies(z3.And(0 <= a, a < Y.cnt), z3.Exists([j], z3.And(0 <= j, j < k, z3.Not(EXTR(j)), TP(j) == Y.LOG[a])))),
        )

    c.loop_specs[("pptx.opc.package:OpcPackage.iter_parts", 0)] = invariant_loop("C01.opc.package.OpcPackage.iter_parts.loop0", [], inv)
    out = c.run(OpcPackage.iter_parts, pkg)
    if out.raised:
        c.fails("never_raises", "raised %s" % out.exc)
        return
    Y = log["y"]
    c.ensures("post.result_is_the_yield_log", out.value is Y)
    c.ensures("post.every_internal_target_yielded", z3.ForAll([j], z3.Implies(z3.And(0 <= j, j < n, z3.Not(EXTR(j))), z3.Select(Y.MEM, TP(j)))))
    c.ensures("post.no_part_twice", z3.ForAll([a, b], z3.Implies(z3.And(0 <= a, a < b, b < Y.cnt), Y.LOG[a] != Y.LOG[b])))
    c.ensures("post.only_internal_targets", z3.ForAll([a], z3.Implies(z3.And(0 <= a, a < Y.cnt), z3.Exists([j], z3.And(0 <= j, j < n, z3.Not(EXTR(j)), TP(j) == Y.LOG[a])))))


# ---------------------------------------------------------------------------------------------------------
# the loader's depth-first walk: a recursive procedure verified against its own contract


def _dfs_world(c):
    """The package as the walk sees it: NR(u) relationships in the rels item of u, each external or with target T(u, j);
    REACH = names reached from the root over internal relationships (least such set: only its closure rules are used)."""
    W = {}
    W["NR"] = z3.Function("N_RELS", z3.StringSort(), z3.IntSort())
    W["EXTR"] = z3.Function("REL_IS_EXTERNAL", z3.StringSort(), z3.IntSort(), z3.BoolSort())
    W["REF"] = z3.Function("REL_TARGET_REF", z3.StringSort(), z3.IntSort(), z3.StringSort())
    W["BASE"] = z3.Function("BASE_URI_OF", z3.StringSort(), z3.StringSort())
    W["FROM_REF"] = z3.Function("FROM_REL_REF", z3.StringSort(), z3.StringSort(), z3.StringSort())
    W["T"] = lambda u, j: W["FROM_REF"](W["BASE"](u), W["REF"](u, j))
    W["REACH"] = z3.Function("REACHED_FROM_ROOT", z3.StringSort(), z3.BoolSort())
    u, j = z3.String("wu"), z3.Int("wj")
    c.path.assume(z3.ForAll([u], W["NR"](u) >= 0))
    c.path.assume(W["REACH"](z3.StringVal("/")))
    c.path.assume(z3.ForAll([u, j], z3.Implies(z3.And(W["REACH"](u), 0 <= j, j < W["NR"](u), z3.Not(W["EXTR"](u, j))), W["REACH"](W["T"](u, j)))))
    c.path.assumed.add("REACH: ghost definition (closure rules of 'reached from the package root over internal relationships')")
    return W


class _WRel:
    __pyvc_symbolic__ = True

    def __init__(self, W, u, j):
        self.W, self.u, self.j = W, u, j

    def sym_getattr(self, it, name):
        from pptx.opc.constants import RELATIONSHIP_TARGET_MODE as RTM

        if name == "targetMode":
            return RTM.EXTERNAL if it.path.branch(self.W["EXTR"](self.u, self.j)) else RTM.INTERNAL
        if name == "target_ref":
            return SStr([Atom("target_ref", zs=self.W["REF"](self.u, self.j))])
        raise Exception("ghost relationship asked for %s" % name)


def _rels_for(W, u):
    return SObj(None, "xml_rels(%s)" % u, owner=u, relationship_lst=SSeq(W["NR"](u), lambda j: _WRel(W, u, j), name="relationship_lst"))


def _closed(W, x, V):
    j = z3.Int("cj")
    return z3.ForAll([j], z3.Implies(z3.And(0 <= j, j < W["NR"](x), z3.Not(W["EXTR"](x, j))), z3.Select(V, W["T"](x, j))))


def _dfs_setup(c, W, symbolic_start):
    from pyvc.gsets import str_key

    st = {}

    def mkset():
        g = GSet("visited", key_of=name_key, sort=z3.StringSort())
        if symbolic_start:
            g.arr = z3.Array("V0", z3.StringSort(), z3.BoolSort())
        st["V"] = g
        st["V0"] = g.arr
        return g

    def mkdict(tag):
        g = GDict("xml_rels", key_of=name_key, wrap=lambda v: v.fields["owner"], unwrap=lambda t: _rels_for(W, t))
        if symbolic_start:
            g.HAS = z3.Array("K0", z3.StringSort(), z3.BoolSort())
            g.VAL = z3.Array("KV0", z3.StringSort(), z3.StringSort())
        st["K"] = g
        return g

    c.summaries.update(OPTIONS)
    c.summaries["<option>symbolic_sets"] = mkset
    c.summaries["<option>ghost_dicts"] = mkdict

    def from_rel_ref(it, a, k):
        args = [x for x in a if not isinstance(x, type)]
        return GName(W["FROM_REF"](str_key(args[0]), str_key(args[1])), "target_partname")

    c.summaries["pptx.opc.packuri:PackURI.from_rel_ref"] = from_rel_ref
    c.path.assumed.add("PackURI.from_rel_ref / baseURI are functions of their arguments (C19 contracts)")
    return st


def _dfs_post(W, st, Vb, s, label=""):
    """contract of load_rels(s, rels(s)) relative to the visited set Vb at the call"""
    V, K = st["V"].arr, st["K"]
    x = z3.String("px" + label)
    return z3.And(
        z3.ForAll([x], z3.Implies(z3.Select(Vb, x), z3.Select(V, x))),
        z3.Select(V, s),
        z3.ForAll([x], z3.Implies(z3.And(z3.Select(V, x), z3.Not(z3.Select(Vb, x))), _closed(W, x, V))),
        z3.ForAll([x], z3.Implies(z3.Select(V, x), W["REACH"](x))),
        z3.ForAll([x], z3.And(K.has(x) == z3.Select(V, x), z3.Implies(K.has(x), K.val(x) == x))),
    )


def _callee_contract(c, W, st, tag):
    """what a (recursive) call load_rels(t, rels) may be taken to do: checked precondition, assumed postcondition"""

    def h(it, a, k):
        t, rels = a
        tz = name_key(t)
        Vb = st["V"].arr
        it.path.oblige("%s.call.pre.target_not_yet_visited" % tag, z3.Not(z3.Select(Vb, tz)), kind="post")
        it.path.oblige("%s.call.pre.target_reached_from_root" % tag, W["REACH"](tz), kind="post")
        it.path.oblige("%s.call.pre.rels_argument_is_the_rels_item_of_the_target" % tag,
                       z3.BoolVal(isinstance(rels, SObj) and "owner" in rels.fields) if not (isinstance(rels, SObj) and "owner" in rels.fields) else rels.fields["owner"] == tz, kind="post")
        n = len(it.path.taken)
        st["V"].havoc("call%d" % n)
        st["K"].havoc("call%d" % n)
        it.path.assume(_dfs_post(W, st, Vb, tz, "c%d" % n))
        return None

    return h


def _replay_dfs(model, rec):
    """loader walk on graphs with cycles, shared targets, self-loops and a dangling target"""
    import io
    import zipfile

    from pptx.opc.package import OpcPackage

    def rels(items):
        body = "".join('<Relationship Id="rId%d" Type="http://t/%d" Target="%s"%s/>' % (i + 1, i, t, ' TargetMode="External"' if ext else "") for i, (t, ext) in enumerate(items))
        return ('<?xml version="1.0"?><Relationships xmlns="http://schemas.openxmlformats.org/package/2006/relationships">%s</Relationships>' % body).encode()

    graphs = [
        {"/": [("a/x.xml", 0)], "/a/x.xml": [("y.xml", 0), ("../b/z.xml", 0)], "/a/y.xml": [("x.xml", 0)], "/b/z.xml": [("/a/y.xml", 0), ("http://e", 1), ("z.xml", 0)]},
        {"/": [("a/x.xml", 0), ("a/x.xml", 0), ("b/z.xml", 0)], "/a/x.xml": [], "/b/z.xml": [("../a/x.xml", 0), ("gone.xml", 0)]},
        {"/": [("/a/x.xml", 0)], "/a/x.xml": [("/c/only.xml", 0), ("./../a/./w.xml", 0)], "/c/only.xml": [], "/a/w.xml": [("http://x/", 1)]},
        dict([("/", [("p/n0.xml", 0)])] + [("/p/n%d.xml" % i, [("n%d.xml" % (i + 1), 0)]) for i in range(45)] + [("/p/n45.xml", [])]),
    ]
    for g in graphs:
        buf = io.BytesIO()
        with zipfile.ZipFile(buf, "w") as z:
            z.writestr("[Content_Types].xml", b'<Types xmlns="http://schemas.openxmlformats.org/package/2006/content-types"><Default Extension="xml" ContentType="application/xml"/><Default Extension="rels" ContentType="application/vnd.openxmlformats-package.relationships+xml"/></Types>')
            for u, items in g.items():
                if u == "/":
                    z.writestr("_rels/.rels", rels(items))
                else:
                    z.writestr(u[1:], b"<x/>")
                    if items:
                        d, f = u[1:].rsplit("/", 1)
                        z.writestr("%s/_rels/%s.rels" % (d, f), rels(items))
        try:
            pkg = OpcPackage.open(io.BytesIO(buf.getvalue()))
        except Exception as e:
            return {"confirmed": True, "witness_class": "loader-walk", "detail": "graph %s: open raised %r" % (g, e)}
        got = sorted(str(p.partname) for p in pkg.iter_parts())
        want = sorted(u for u in g if u != "/")
        if got != want:
            return {"confirmed": True, "witness_class": "loader-walk", "detail": "graph %s: loaded parts %s, reachable %s" % (g, got, want)}
    return {"confirmed": False, "detail": "loader walk complete on cyclic / shared-target graphs"}


@contract("C01", "C01.opc.package._PackageLoader._xml_rels.load_rels", replay=_replay_dfs, timeout_ms=60000)
def _load_rels(c):
    """recursive-procedure contract of the depth-first walk, for an arbitrary source s reached from the root, an arbitrary
    visited set V0 not containing s (with xml_rels keyed by exactly V0): afterwards V0 + {s} is visited, every newly visited
    name (s included) has all its internal targets visited, only names reached from the root are visited, and xml_rels is
    keyed by exactly the visited names, each mapped to its own rels item.  Recursive calls are taken at their contract,
    their precondition is checked at the call."""
    from pptx.opc.package import _PackageLoader

    W = _dfs_world(c)
    st = _dfs_setup(c, W, symbolic_start=True)
    s = c.input("source", z3.String("source"))
    # proof device: the root constant the outer function starts from is generalised to an arbitrary reached name
    c.summaries["<global>pptx.opc.package:PACKAGE_URI"] = GName(s, "source_partname")
    c.path.assumed.add("proof device: PACKAGE_URI generalised to an arbitrary reached name, initial visited set arbitrary (to verify the nested procedure in isolation)")
    c.requires(W["REACH"](s))
    loader = SObj(_PackageLoader, "loader", _xml_rels_for=GhostFn(lambda it, a, k: _rels_for(W, name_key(a[0])), "_xml_rels_for"))
    qn = "pptx.opc.package:_PackageLoader._xml_rels.<locals>"
    c.summaries["<recursive>pptx.opc.package:_PackageLoader._xml_rels.<locals>.load_rels"] = _callee_contract(c, W, st, "C01.load_rels")
    x, j = z3.String("ix"), z3.Int("ij")
    pre = {}

    def inv(env, k):
        V, K, V0 = st["V"].arr, st["K"], st["V0"]
        if "done" not in pre:
            # precondition of the procedure (first evaluation happens at loop entry, before anything is havocked)
            pre["done"] = True
        return z3.And(
            z3.ForAll([x], z3.Implies(z3.Select(V0, x), z3.Select(V, x))),
            z3.Select(V, s),
            z3.ForAll([x], z3.Implies(z3.And(z3.Select(V, x), z3.Not(z3.Select(V0, x)), x != s), _closed(W, x, V))),
            z3.ForAll([j], z3.Implies(z3.And(0 <= j, j < k, z3.Not(W["EXTR"](s, j))), z3.Select(V, W["T"](s, j)))),
            z3.ForAll([x], z3.Implies(z3.Select(V, x), W["REACH"](x))),
            z3.ForAll([x], z3.And(K.has(x) == z3.Select(V, x), z3.Implies(K.has(x), K.val(x) == x))),
        )

    c.loop_specs[(qn, 0)] = invariant_loop("C01.opc.package._PackageLoader._xml_rels.load_rels.loop0", [], inv)
    # precondition on the arbitrary start state
    V0 = z3.Array("V0", z3.StringSort(), z3.BoolSort())
    K0, KV0 = z3.Array("K0", z3.StringSort(), z3.BoolSort()), z3.Array("KV0", z3.StringSort(), z3.StringSort())
    c.requires(z3.Not(z3.Select(V0, s)))
    c.requires(z3.ForAll([x], z3.Implies(z3.Select(V0, x), W["REACH"](x))))
    c.requires(z3.ForAll([x], z3.And(z3.Select(K0, x) == z3.Select(V0, x), z3.Implies(z3.Select(K0, x), z3.Select(KV0, x) == x))))
    out = c.run(_PackageLoader.__dict__["_xml_rels"]._fget, loader)
    if out.raised:
        c.fails("never_raises", "raised %s" % out.exc)
        return
    c.ensures("post.procedure_contract", _dfs_post(W, st, V0, s, "f"))
    c.ensures("post.returns_xml_rels", out.value is st["K"])


@contract("C01", "C01.opc.package._PackageLoader._xml_rels", replay=_replay_dfs, timeout_ms=60000)
def _xml_rels(c):
    """the walk started at the package root (load_rels taken at its verified contract): the keys of xml_rels contain '/',
    are closed under internal relationships (every reachable name is a key: completeness), are all reached from the root
    (soundness), and each key maps to its own rels item."""
    from pptx.opc.package import _PackageLoader

    W = _dfs_world(c)
    st = _dfs_setup(c, W, symbolic_start=False)
    loader = SObj(_PackageLoader, "loader", _xml_rels_for=GhostFn(lambda it, a, k: _rels_for(W, name_key(a[0])), "_xml_rels_for"))
    c.summaries["<sfunc>pptx.opc.package:_PackageLoader._xml_rels.<locals>.load_rels"] = _callee_contract(c, W, st, "C01.xml_rels")
    out = c.run(_PackageLoader.__dict__["_xml_rels"]._fget, loader)
    if out.raised:
        c.fails("never_raises", "raised %s" % out.exc)
        return
    K = st["K"]
    x = z3.String("fx")
    c.ensures("post.returns_xml_rels", out.value is K)
    c.ensures("post.root_is_a_key", K.has(z3.StringVal("/")))
    c.ensures("post.keys_closed_under_internal_relationships", z3.ForAll([x], z3.Implies(K.has(x), _closed(W, x, K.HAS))))
    c.ensures("post.keys_reached_from_root", z3.ForAll([x], z3.Implies(K.has(x), W["REACH"](x))))
    c.ensures("post.each_key_maps_to_its_own_rels_item", z3.ForAll([x], z3.Implies(K.has(x), K.val(x) == x)))


# ---------------------------------------------------------------------------------------------------------
# iter_rels: the recursive generator walk_rels, verified against its own contract with a ghost yield log


RelId, _mkrel, (_rel_u, _rel_j) = z3.TupleSort("RelId", [z3.StringSort(), z3.IntSort()])
ROOT = z3.StringVal("<package>")


def _walk_world(c):
    W = {}
    W["NR"] = z3.Function("N_RELS", z3.StringSort(), z3.IntSort())
    W["EXTR"] = z3.Function("REL_IS_EXTERNAL", z3.StringSort(), z3.IntSort(), z3.BoolSort())
    W["TP"] = z3.Function("REL_TARGET_PART", z3.StringSort(), z3.IntSort(), z3.StringSort())
    W["REACH"] = z3.Function("REACHED_FROM_ROOT", z3.StringSort(), z3.BoolSort())
    u, j = z3.String("wu"), z3.Int("wj")
    c.path.assume(z3.ForAll([u], W["NR"](u) >= 0))
    c.path.assume(z3.ForAll([u, j], W["TP"](u, j) != ROOT))
    c.path.assume(W["REACH"](ROOT))
    c.path.assume(z3.ForAll([u, j], z3.Implies(z3.And(W["REACH"](u), 0 <= j, j < W["NR"](u), z3.Not(W["EXTR"](u, j))), W["REACH"](W["TP"](u, j)))))
    c.path.assumed.add("REACH: ghost definition (closure rules); a part is never the package itself")
    return W


def _wrels(W, u):
    def rel(j):
        tgt = W["TP"](u, j)
        return SObj(None, "rel(%s,%s)" % (u, j), gkey=_mkrel(u, j), is_external=W["EXTR"](u, j),
                    target_part=SObj(None, "part", gkey=tgt, rels=GhostRels(W, tgt)))

    return SSeq(W["NR"](u), rel, name="rels.values()")


class GhostRels:
    __pyvc_symbolic__ = True

    def __init__(self, W, u):
        self.W, self.u = W, u

    def sym_getattr(self, it, name):
        if name == "values":
            return GhostFn(lambda i2, a, k: _wrels(self.W, self.u), "rels.values")
        raise Exception("ghost relationships asked for %s" % name)


def _walk_setup(c, W, symbolic_start):
    st = {}

    def mkset():
        g = GSet("visited", key_of=lambda x: x.fields["gkey"], sort=z3.StringSort())
        if symbolic_start:
            g.arr = z3.Array("V0", z3.StringSort(), z3.BoolSort())
        st["V"] = g
        return g

    def mklog(qn):
        if "Y" not in st:
            y = YLog("rels_yielded", key_of=lambda x: x.fields["gkey"], sort=RelId)
            if symbolic_start:
                y.cnt = z3.Int("Y0_cnt")
                y.LOG = z3.Array("Y0_log", z3.IntSort(), RelId)
                y.MEM = z3.Array("Y0_mem", RelId, z3.BoolSort())
            st["Y"] = y
            return y
        return _SameLog(st["Y"])

    c.summaries["<option>symbolic_sets"] = mkset
    c.summaries["<option>yield_log"] = mklog
    return st


class _SameLog:
    """the nested generator logs into the log of the outer one (one ghost log per walk)"""

    def __new__(cls, y):
        return y


def _on_path(W, x, V):
    return z3.Or(x == ROOT, z3.Select(V, x))


def _walk_state_ok(W, V, Y):
    """consistency of (visited, log) between calls"""
    a, b = z3.Ints("sa sb")
    r = z3.Const("sr", RelId)
    return z3.And(
        Y.cnt >= 0,
        z3.Not(z3.Select(V, ROOT)),
        z3.ForAll([a, b], z3.Implies(z3.And(0 <= a, a < b, b < Y.cnt), Y.LOG[a] != Y.LOG[b])),
        z3.ForAll([a], z3.Implies(z3.And(0 <= a, a < Y.cnt), z3.Select(Y.MEM, Y.LOG[a]))),
        z3.ForAll([r], z3.Implies(z3.Select(Y.MEM, r), z3.And(_on_path(W, _rel_u(r), V), 0 <= _rel_j(r), _rel_j(r) < W["NR"](_rel_u(r))))),
        z3.ForAll([z3.String("sx")], z3.Implies(z3.Select(V, z3.String("sx")), W["REACH"](z3.String("sx")))),
    )


def _walk_post(W, u, Vb, cntb, LOGb, MEMb, V, Y, tag=""):
    x, j, a = z3.String("qx" + tag), z3.Int("qj" + tag), z3.Int("qa" + tag)
    r = z3.Const("qr" + tag, RelId)
    all_logged = lambda y: z3.ForAll([j], z3.Implies(z3.And(0 <= j, j < W["NR"](y)), z3.Select(Y.MEM, _mkrel(y, j))))
    closed = lambda y: z3.ForAll([j], z3.Implies(z3.And(0 <= j, j < W["NR"](y), z3.Not(W["EXTR"](y, j))), z3.Select(V, W["TP"](y, j))))
    return z3.And(
        _walk_state_ok(W, V, Y),
        z3.ForAll([x], z3.Implies(z3.Select(Vb, x), z3.Select(V, x))),
        Y.cnt >= cntb,
        z3.ForAll([a], z3.Implies(z3.And(0 <= a, a < cntb), Y.LOG[a] == LOGb[a])),
        z3.ForAll([r], z3.Implies(z3.Select(MEMb, r), z3.Select(Y.MEM, r))),
        all_logged(u), closed(u),
        z3.ForAll([x], z3.Implies(z3.And(z3.Select(V, x), z3.Not(z3.Select(Vb, x))), z3.And(all_logged(x), closed(x)))),
        # frame: what is newly logged belongs to u or to a newly visited part
        z3.ForAll([r], z3.Implies(z3.And(z3.Select(Y.MEM, r), z3.Not(z3.Select(MEMb, r))),
                                  z3.Or(_rel_u(r) == u, z3.And(z3.Select(V, _rel_u(r)), z3.Not(z3.Select(Vb, _rel_u(r))))))),
    )


def _walk_pre(W, u, V, Y):
    j = z3.Int("ej")
    return z3.And(_walk_state_ok(W, V, Y), _on_path(W, u, V), W["REACH"](u),
                  z3.ForAll([j], z3.Not(z3.Select(Y.MEM, _mkrel(u, j)))))


def _walk_callee(c, W, st, tag):
    def h(it, a, k):
        rels = a[0]
        V, Y = st["V"], st["Y"]
        ok = isinstance(rels, GhostRels)
        it.path.oblige("%s.call.pre.argument_is_a_relationship_collection" % tag, z3.BoolVal(ok), kind="post")
        u = rels.u
        it.path.oblige("%s.call.pre" % tag, _walk_pre(W, u, V.arr, Y), kind="post")
        Vb, cntb, LOGb, MEMb = V.arr, Y.cnt, Y.LOG, Y.MEM
        n = len(it.path.taken)
        V.havoc("call%d" % n)
        Y.havoc("call%d" % n)
        it.path.assume(_walk_post(W, u, Vb, cntb, LOGb, MEMb, V.arr, Y, "c%d" % n))
        return Y

    return h


@contract("C01", "C01.opc.package.OpcPackage.iter_rels.walk_rels", replay=_replay_walks, timeout_ms=120000)
def _walk_rels(c):
    """recursive-generator contract, for an arbitrary collection u (the package's or that of a visited part) none of whose
    relationships has been yielded, an arbitrary consistent (visited, log) state: afterwards every relationship of u and of
    every newly visited part has been yielded, the log still has no duplicates and only grew at its end, every internal
    target of u and of the newly visited parts is visited, and nothing else was yielded.  Recursive calls are taken at
    this contract; their precondition is checked at the call."""
    from pptx.opc.package import OpcPackage

    W = _walk_world(c)
    st = _walk_setup(c, W, symbolic_start=True)
    u = c.input("owner", z3.String("owner"))
    pkg = SObj(OpcPackage, "package", _rels=GhostRels(W, u))
    c.path.assumed.add("proof device: the package's own collection generalised to an arbitrary collection u, initial (visited, log) arbitrary but consistent")
    V0 = z3.Array("V0", z3.StringSort(), z3.BoolSort())
    Y0 = YLog("y0", sort=RelId)
    Y0.cnt, Y0.LOG, Y0.MEM = z3.Int("Y0_cnt"), z3.Array("Y0_log", z3.IntSort(), RelId), z3.Array("Y0_mem", RelId, z3.BoolSort())
    c.requires(_walk_pre(W, u, V0, Y0))
    c.summaries["<recursive>pptx.opc.package:OpcPackage.iter_rels.<locals>.walk_rels"] = _walk_callee(c, W, st, "C01.walk_rels")
    j, x = z3.Int("ij"), z3.String("ix")
    r = z3.Const("ir", RelId)

    def inv(env, k):
        V, Y = st["V"].arr, st["Y"]
        all_logged = lambda y: z3.ForAll([j], z3.Implies(z3.And(0 <= j, j < W["NR"](y)), z3.Select(Y.MEM, _mkrel(y, j))))
        closed = lambda y: z3.ForAll([j], z3.Implies(z3.And(0 <= j, j < W["NR"](y), z3.Not(W["EXTR"](y, j))), z3.Select(V, W["TP"](y, j))))
        a = z3.Int("ia")
        return z3.And(
            _walk_state_ok(W, V, Y),
            z3.ForAll([x], z3.Implies(z3.Select(V0, x), z3.Select(V, x))),
            Y.cnt >= Y0.cnt,
            z3.ForAll([a], z3.Implies(z3.And(0 <= a, a < Y0.cnt), Y.LOG[a] == Y0.LOG[a])),
            z3.ForAll([r], z3.Implies(z3.Select(Y0.MEM, r), z3.Select(Y.MEM, r))),
            z3.ForAll([j], z3.Implies(z3.And(0 <= j, j < k), z3.Select(Y.MEM, _mkrel(u, j)))),
            z3.ForAll([j], z3.Implies(j >= k, z3.Not(z3.Select(Y.MEM, _mkrel(u, j))))),
            z3.ForAll([j], z3.Implies(z3.And(0 <= j, j < k, z3.Not(W["EXTR"](u, j))), z3.Select(V, W["TP"](u, j)))),
            z3.ForAll([x], z3.Implies(z3.And(z3.Select(V, x), z3.Not(z3.Select(V0, x))), z3.And(all_logged(x), closed(x)))),
            z3.ForAll([r], z3.Implies(z3.And(z3.Select(Y.MEM, r), z3.Not(z3.Select(Y0.MEM, r))),
                                      z3.Or(_rel_u(r) == u, z3.And(z3.Select(V, _rel_u(r)), z3.Not(z3.Select(V0, _rel_u(r))))))),
        )

    c.loop_specs[("pptx.opc.package:OpcPackage.iter_rels.<locals>", 0)] = invariant_loop("C01.opc.package.OpcPackage.iter_rels.walk_rels.loop0", [], inv, split=True)
    out = c.run(OpcPackage.iter_rels, pkg)
    if out.raised:
        c.fails("never_raises", "raised %s" % out.exc)
        return
    c.ensures("post.procedure_contract", _walk_post(W, u, V0, Y0.cnt, Y0.LOG, Y0.MEM, st["V"].arr, st["Y"], "f"))
    c.ensures("post.result_is_the_log", out.value is st["Y"])


@contract("C01", "C01.opc.package.OpcPackage.iter_rels", replay=_replay_walks, timeout_ms=60000)
def _iter_rels(c):
    """walk started at the package's relationships with nothing visited (walk_rels taken at its verified contract): every
    relationship of the package and of every visited part is yielded, none twice, every internal target of these is
    visited (so every part reached from the root contributes its relationships: completeness), and only relationships of
    the package or of parts reached from the root are yielded."""
    from pptx.opc.package import OpcPackage

    W = _walk_world(c)
    st = _walk_setup(c, W, symbolic_start=False)
    pkg = SObj(OpcPackage, "package", _rels=GhostRels(W, ROOT))
    c.summaries["<sfunc>pptx.opc.package:OpcPackage.iter_rels.<locals>.walk_rels"] = _walk_callee(c, W, st, "C01.iter_rels")
    out = c.run(OpcPackage.iter_rels, pkg)
    if out.raised:
        c.fails("never_raises", "raised %s" % out.exc)
        return
    V, Y = st["V"].arr, st["Y"]
    x, j = z3.String("fx"), z3.Int("fj")
    a, b = z3.Ints("fa fb")
    r = z3.Const("fr", RelId)
    c.ensures("post.result_is_the_log", out.value is Y)
    c.ensures("post.every_relationship_of_package_and_visited_parts_yielded",
              z3.ForAll([x, j], z3.Implies(z3.And(_on_path(W, x, V), 0 <= j, j < W["NR"](x)), z3.Select(Y.MEM, _mkrel(x, j)))))
    c.ensures("post.internal_targets_visited",
              z3.ForAll([x, j], z3.Implies(z3.And(_on_path(W, x, V), 0 <= j, j < W["NR"](x), z3.Not(W["EXTR"](x, j))), z3.Select(V, W["TP"](x, j)))))
    c.ensures("post.no_relationship_twice", z3.ForAll([a, b], z3.Implies(z3.And(0 <= a, a < b, b < Y.cnt), Y.LOG[a] != Y.LOG[b])))
    c.ensures("post.only_existing_relationships_of_reached_owners",
              z3.ForAll([r], z3.Implies(z3.Select(Y.MEM, r), z3.And(W["REACH"](_rel_u(r)), 0 <= _rel_j(r), _rel_j(r) < W["NR"](_rel_u(r))))))


# ---------------------------------------------------------------------------------------------------------
# BOUNDED native job: open/save round trips


def _pkg_view(data):
    """(parts: name -> (content type, payload), rels: source -> {rId: (type, mode, target)}) read with the stdlib only"""
    import io
    import posixpath
    import re
    import zipfile

    from lxml import etree

    z = zipfile.ZipFile(io.BytesIO(data))
    names = z.namelist()
    assert len(names) == len(set(names)), "duplicate member names %s" % names
    ct = etree.fromstring(z.read("[Content_Types].xml"))
    ns = "{http://schemas.openxmlformats.org/package/2006/content-types}"
    defaults = {e.get("Extension").lower(): e.get("ContentType") for e in ct.findall(ns + "Default")}
    overrides = {e.get("PartName").lower(): e.get("ContentType") for e in ct.findall(ns + "Override")}
    parts, rels = {}, {}
    for n in names:
        if n == "[Content_Types].xml":
            continue
        if n.endswith(".rels") and "_rels/" in n:
            d, f = posixpath.split(n)
            src = "/" + posixpath.join(posixpath.dirname(d), f[:-5]) if f != ".rels" else "/"
            src = src.replace("//", "/")
            base = posixpath.dirname(src) if src != "/" else "/"
            rr = {}
            for e in etree.fromstring(z.read(n)):
                ext = e.get("TargetMode") == "External"
                tgt = e.get("Target") if ext else posixpath.normpath(posixpath.join(base, e.get("Target")))
                rr[e.get("Id")] = (e.get("Type"), "External" if ext else "Internal", tgt)
            rels[src] = rr
            continue
        pn = "/" + n
        t = overrides.get(pn.lower(), defaults.get(posixpath.splitext(n)[1][1:].lower()))
        parts[pn] = (t, z.read(n))
    return parts, rels


def _same_payload(name, ctype, a, b):
    from lxml import etree

    if a == b:
        return True
    if ctype and (ctype.endswith("xml") or name.endswith(".xml")):
        try:
            return etree.tostring(etree.fromstring(a), method="c14n") == etree.tostring(etree.fromstring(b), method="c14n")
        except Exception:
            return False
    return False


def _compare_roundtrip(src, what):
    """open `src` with the library, save, compare with `src` restricted to what is reachable; then save again"""
    import io

    from pptx.opc.package import OpcPackage

    pkg = OpcPackage.open(io.BytesIO(src))
    out = io.BytesIO()
    pkg.save(out)
    p0, r0 = _pkg_view(src)
    p1, r1 = _pkg_view(out.getvalue())
    # reachable part names of the source
    reach, todo = set(), ["/"]
    while todo:
        u = todo.pop()
        for rid, (t, mode, tgt) in r0.get(u, {}).items():
            if mode == "Internal" and tgt in p0 and tgt not in reach:
                reach.add(tgt)
                todo.append(tgt)
    if set(p1) != reach:
        return "%s: parts written %s, reachable in the source %s" % (what, sorted(set(p1) ^ reach), len(reach))
    for n in sorted(reach):
        if p0[n][0] != p1[n][0]:
            return "%s: %s content type %r became %r" % (what, n, p0[n][0], p1[n][0])
        if not _same_payload(n, p0[n][0], p0[n][1], p1[n][1]):
            return "%s: payload of %s changed" % (what, n)
    for u in ["/"] + sorted(reach):
        want = {rid: v for rid, v in r0.get(u, {}).items() if v[1] == "External" or v[2] in p0}
        if want != r1.get(u, {}):
            return "%s: relationships of %s: %s became %s" % (what, u, want, r1.get(u, {}))
    # file-like form, as callers hand streams over: a stream positioned at its end that already holds something -- the package it was
    # opened from, or an earlier, longer save (zipfile writes from the cursor on; what follows the old content is the new package)
    same = io.BytesIO(src + b"")
    pkg_s = OpcPackage.open(same)
    same.seek(0, 2)
    pkg_s.save(same)
    reused = io.BytesIO()
    pkg_r = OpcPackage.open(io.BytesIO(src))
    pkg_r.save(reused)
    reused.write(b"PADDING" * 200)
    pkg_r.save(reused)
    for label, stream in (("the stream it was opened from (positioned at its end)", same), ("a stream that already holds an earlier save and more", reused)):
        try:
            pv, rv = _pkg_view(stream.getvalue())
        except Exception as e:
            return "%s: saved into %s: the stream does not open afterwards: %r" % (what, label, e)
        if pv != p1 or rv != r1:
            return "%s: saved into %s: the stream holds another package than a save into a fresh stream" % (what, label)
    pkg2 = OpcPackage.open(io.BytesIO(out.getvalue()))
    out2 = io.BytesIO()
    pkg2.save(out2)
    p2, r2 = _pkg_view(out2.getvalue())
    if {k: v for k, v in p1.items()} != p2 or r1 != r2:
        diff = [n for n in p1 if p2.get(n) != p1[n]]
        return "%s: second save differs from the first in %s" % (what, diff[:3] or "relationships")
    return None


def _gen_package(rnd, n_parts):
    """arbitrary OPC package: random graph (cycles, shared targets, multi-edges, external links), targets written as
    relative, '../', './' or absolute references, parts at random depths, content types by Default or Override, binary payloads"""
    import io
    import posixpath
    import zipfile

    exts = ["xml", "bin", "png", "PNG", "dat", "jpeg", "Xml"]
    types = {"xml": ["application/xml", "application/vnd.x.one+xml", "application/vnd.x.two+xml"],
             "bin": ["application/vnd.openxmlformats-officedocument.presentationml.printerSettings", "application/vnd.openxmlformats-officedocument.spreadsheetml.printerSettings", "application/x-bin"],
             "png": ["image/png", "image/x-png-other"], "dat": ["application/x-dat"], "jpeg": ["image/jpeg"]}
    dirs = ["", "a", "a/b", "a/b/c", "d", "ab", "a/bc", "a2/b"]  # incl. sibling directories whose names are string prefixes of each other
    names = []
    for i in range(n_parts):
        d = rnd.choice(dirs)
        e = rnd.choice(exts)
        # file names as users and other producers leave them: sub-delimiters, '@', ':' and blanks are legal in a part name
        odd = rnd.choice(["", "", "", "@2x", " (1)", "+a,b;c=d", "$x!y*z", "'q'", "~t_-.u", ":c"])
        names.append("/" + posixpath.join(d, "p%d%s.%s" % (i, odd, e)))
    ctype = {n: rnd.choice(types[n.rsplit(".", 1)[1].lower()]) for n in names}
    payload = {}
    for n in names:
        if ctype[n].endswith("xml"):
            payload[n] = ('<?xml version="1.0" encoding="UTF-8" standalone="yes"?>\n<r xmlns="urn:x" a="%d"><c>%s</c></r>' % (rnd.randint(0, 9), n)).encode()
        else:
            payload[n] = bytes(rnd.randint(0, 255) for _ in range(rnd.randint(0, 40)))
    # distinct parts may hold identical bytes (the same picture stored twice by another producer): they stay distinct parts
    binary = [n for n in names if not ctype[n].endswith("xml")]
    for _ in range(rnd.randint(0, 2)):
        if len(binary) >= 2:
            a_, b_ = rnd.sample(binary, 2)
            payload[b_] = payload[a_] = payload[a_] or b"\x89PNG same bytes"
    edges = {u: [] for u in ["/"] + names}
    for u in edges:
        for _ in range(rnd.randint(0, 3) if u != "/" else rnd.randint(1, 3)):
            if rnd.random() < 0.15:
                edges[u].append((rnd.choice(["http://example.com/%d" % rnd.randint(0, 9), "file:///C:\\Users\\me\\My Documents\\Book %d.xlsx" % rnd.randint(0, 9),
                                             "http://example.com/a b?q=\u00e9&amp;x=%20{1}|^`", "mailto:a@b.c?subject=x y", "../outside/file name.txt", "#frag only",
                                             "http://example.com/%7Euser/%C3%A9"]), True))
            else:
                edges[u].append((rnd.choice(names), False))

    def ref(u, t):
        base = posixpath.dirname(u) if u != "/" else "/"
        style = rnd.choice(["rel", "abs", "dot", "rel", "abs", "dot", "absdot", "reldot"])
        if style == "abs":
            return t
        if style == "absdot":  # root-absolute, not in normal form: '..', '.' and doubled '/' segments resolve like anywhere else
            d_, f_ = posixpath.split(t)
            d_ = d_.rstrip("/")
            return rnd.choice([d_ + "/zz/../" + f_, d_ + "/./" + f_, (d_ + "//" + f_) if d_ else "/./" + f_, "/../" + t[1:], "/q/r/../../" + t[1:]])
        r = posixpath.relpath(t, base)
        if style == "reldot":
            return rnd.choice(["zz/../" + r, "./" + "./" + r if not r.startswith("..") else r, r.replace("/", "/./", 1)])
        return "./" + r if style == "dot" and not r.startswith("..") else r

    def rels_xml(u):
        # relationship ids as other producers write them: rIdN, non-contiguous, zero-padded, with suffixes, without the prefix
        ids = ["rId%d" % (i + 1) for i in range(len(edges[u]))]
        style = rnd.randrange(4)
        if style == 1:
            ids = ["rId%d" % (3 * i + 2) for i in range(len(ids))]
        elif style == 2:
            ids = [rnd.choice(["rIdImage%d", "rId%da", "R%d", "rId0%d", "id%d"]) % (i + 1) for i in range(len(ids))]
        # relationship types as other producers spell them: Transitional, Strict-conformance (purl.oclc.org), vendor-specific, mixed case
        types = ["http://t/%d", "http://purl.oclc.org/ooxml/officeDocument/relationships/kind%d", "http://schemas.openxmlformats.org/officeDocument/2006/relationships/kind%d",
                 "http://schemas.microsoft.com/office/2007/relationships/kind%d", "HTTP://Vendor.example/Rel%d", "urn:x-rel:%d"]
        tstyle = rnd.randrange(len(types) + 1)
        tof = lambda i: (types[tstyle] if tstyle < len(types) else types[i % len(types)]) % (i % 3)
        body = "".join('<Relationship Id="%s" Type="%s" Target="%s"%s/>' % (ids[i], tof(i), (t if ext else ref(u, t)), ' TargetMode="External"' if ext else "")
                       for i, (t, ext) in enumerate(edges[u]))
        return ('<?xml version="1.0" encoding="UTF-8" standalone="yes"?>\n<Relationships xmlns="http://schemas.openxmlformats.org/package/2006/relationships">%s</Relationships>' % body).encode()

    # content types: Default for the first type seen per extension (as spelled), Override for the rest
    defaults, overrides = {"rels": "application/vnd.openxmlformats-package.relationships+xml"}, {}
    flip_case = rnd.random() < 0.4  # Override part names spelled in another case than the member (names are matched case-insensitively)
    for n in names:
        e = n.rsplit(".", 1)[1]
        if e.lower() not in {k.lower() for k in defaults} and rnd.random() < 0.7:
            defaults[e] = ctype[n]
        elif {k.lower(): v for k, v in defaults.items()}.get(e.lower()) != ctype[n] or rnd.random() < 0.3:
            overrides[n] = ctype[n]
    ct = ('<?xml version="1.0" encoding="UTF-8" standalone="yes"?>\n<Types xmlns="http://schemas.openxmlformats.org/package/2006/content-types">%s%s</Types>'
          % ("".join('<Default Extension="%s" ContentType="%s"/>' % kv for kv in defaults.items()), "".join('<Override PartName="%s" ContentType="%s"/>' % ((k.swapcase() if flip_case and rnd.random() < 0.5 else k), v) for k, v in overrides.items()))).encode()
    buf = io.BytesIO()
    with zipfile.ZipFile(buf, "w") as z:
        z.writestr("[Content_Types].xml", ct)
        z.writestr("_rels/.rels", rels_xml("/"))
        for n in names:
            z.writestr(n[1:], payload[n])
            if edges[n]:
                d, f = posixpath.split(n[1:])
                z.writestr(posixpath.join(d, "_rels", f + ".rels"), rels_xml(n))
    return buf.getvalue()


def _native_roundtrip(tier="quick", seed=0):
    import io
    import random
    import time as _t

    from .c16 import _decks

    t0 = _t.time()
    obls, evals = [], 0

    def rec(name, bad):
        r = {"name": name, "base": name, "kind": "bounded", "status": "refuted" if bad else "discharged", "backend": "native", "time": 0, "path": 0}
        if bad:
            r["replay"] = {"confirmed": True, "witness_class": "roundtrip", "detail": bad}
            r["model"] = None
        obls.append(r)

    bad = None
    for dname, data in _decks():
        bad = bad or _compare_roundtrip(data, dname)
        evals += 1
    import os

    tmpl = os.path.join(os.path.dirname(__import__("pptx").__file__), "templates", "default.pptx")
    bad = bad or _compare_roundtrip(open(tmpl, "rb").read(), "default.pptx")
    evals += 1
    rec("C01.native.decks_open_save_compare", bad)
    rnd = random.Random(seed)
    bad = None
    N = 150 if tier == "quick" else 2500
    for i in range(N):
        src = _gen_package(rnd, rnd.randint(1, 7))
        b = _compare_roundtrip(src, "generated package #%d (seed %d)" % (i, seed))
        evals += 1
        if b and not bad:
            bad = b
    rec("C01.native.generated_packages_open_save_compare", bad)
    # the traversal contracts (iter_parts / iter_rels: "each part exactly once") treat the visited set as a set of object identities:
    # that is what the code gets as long as no part class defines its own equality or hash
    import pptx  # noqa: F401  (registers the part classes)
    from pptx.opc.package import Part, PartFactory

    from pptx.opc.packuri import PackURI as _PU

    merged, made = [], 0
    for ct_, cls_ in sorted({"application/x-any": Part, **PartFactory.part_type_for}.items()):
        for blob_ in (b"<a:x xmlns:a='urn:x'/>", b"\x89PNG\r\n\x1a\n same bytes"):
            try:
                a_ = cls_.load(_PU("/d/p1.bin"), ct_, None, blob_)
                b_ = cls_.load(_PU("/d/p2.bin"), ct_, None, blob_)
            except Exception:
                continue
            made += 1
            try:
                if a_ == b_ or len({a_, b_}) != 2:
                    merged.append("%s (%s)" % (cls_.__name__, ct_))
            except Exception as e:
                merged.append("%s (%s): %r" % (cls_.__name__, ct_, e))
            break
    rec("C01.assumption.parts_are_compared_by_identity", "two distinct parts holding the same bytes compare equal / collapse in a set for %s: the visited set of iter_parts / iter_rels then merges them"
        % sorted(set(merged))[:4] if merged else (None if made else "no part class could be instantiated"))
    # directory form and file path form
    import shutil
    import tempfile
    import zipfile

    from pptx.opc.package import OpcPackage

    bad = None
    d = tempfile.mkdtemp()
    try:
        src = _decks()[1][1]
        zipfile.ZipFile(io.BytesIO(src)).extractall(os.path.join(d, "dir"))
        open(os.path.join(d, "f.pptx"), "wb").write(src)
        # the directory form also as a user's file system may hold it: reached through a link, one sub-directory linked from elsewhere
        os.symlink(os.path.join(d, "dir"), os.path.join(d, "dirlink"))
        shutil.copytree(os.path.join(d, "dir"), os.path.join(d, "dir2"))
        subdirs = sorted(os.path.join(r_, x_) for r_, ds_, _ in os.walk(os.path.join(d, "dir2")) for x_ in ds_ if x_ != "_rels")
        deepest = max(subdirs, key=lambda p_: p_.count(os.sep))
        shutil.move(deepest, os.path.join(d, "elsewhere"))
        os.symlink(os.path.join(d, "elsewhere"), deepest)
        views = []
        forms = [("directory", os.path.join(d, "dir")), ("path", os.path.join(d, "f.pptx")), ("stream", io.BytesIO(src)), ("directory reached through a symbolic link", os.path.join(d, "dirlink")),
                 ("directory with a symbolically linked sub-directory (%s)" % os.path.relpath(deepest, os.path.join(d, "dir2")), os.path.join(d, "dir2"))]
        for label, arg in forms:
            out = io.BytesIO()
            OpcPackage.open(arg).save(out)
            views.append(_pkg_view(out.getvalue()))
            evals += 1
        for (label, _), v_ in zip(forms, views):
            if v_ != views[2]:
                bad = bad or "the %s form of a package saves differently from its stream form (%d parts vs %d)" % (label, len(v_[0]), len(views[2][0]))
    finally:
        shutil.rmtree(d, ignore_errors=True)
    rec("C01.native.directory_path_stream_forms_agree", bad)
    return {"contract": "C01.native_roundtrip", "prop": "C01", "status": "ok", "obligations": obls, "paths": 0, "assumed": [], "functions": {},
            "notes": [], "solver_s": 0.0, "wall_s": _t.time() - t0,
            "bounded": {"name": "C01.native_roundtrip", "bound": "default.pptx + 2 generated decks + %d random OPC packages of 1..7 parts (cycles, shared targets, multi-edges, external links, "
                        "relative/dot/absolute references, Default/Override mixes incl. shared extensions and upper-case extensions, binary payloads); zip, path and directory forms" % N,
                        "evaluations": evals, "samples": [], "counted_as_proved": False}}


JOBS = {"C01.native_roundtrip": _native_roundtrip}


# ---------------------------------------------------------------------------------------------------------
# relationship items: every relationship written exactly once with its own id, type, mode and target reference


def _replay_rels_xml(model, rec):
    from lxml import etree

    from pptx.opc.package import Part, _Relationships
    from pptx.opc.packuri import PackURI

    a = Part(PackURI("/x/a.xml"), "t", None, b"")
    r = _Relationships("/x")
    want = {}
    for k, (rid, ext) in enumerate([("rId10", False), ("rId2", False), ("rIdImage3", False), ("foo", True), ("rId07", False), ("rId", True), ("R5", False)]):
        from pptx.opc.package import _Relationship

        tgt = "http://e/%d" % k if ext else a
        r._rels[rid] = _Relationship("/x", rid, "http://t/%d" % k, "External" if ext else "Internal", tgt)
        want[rid] = ("http://t/%d" % k, "External" if ext else None, "http://e/%d" % k if ext else "a.xml")
    root = etree.fromstring(r.xml)
    got = {e.get("Id"): (e.get("Type"), e.get("TargetMode"), e.get("Target")) for e in root}
    if got != want or len(root) != len(want):
        return {"confirmed": True, "witness_class": "rels-xml", "detail": "relationships %s written as %s" % (sorted(want), sorted(got)), "input": sorted(want)}
    return {"confirmed": False, "detail": "seven relationships with assorted ids written once each"}


@contract("C01", "C01.opc.package._Relationships.xml", replay=_replay_rels_xml, timeout_ms=60000)
def _rels_xml(c):
    """for any number of relationships with arbitrary ids: add_rel is called exactly once per relationship, with that
    relationship's own id, type, target reference and mode (whatever order sorted() chooses), and the bytes returned are those
    of the element they were added to."""
    from pptx.opc.package import _Relationships

    n = c.int("n_rels")
    c.requires(n >= 0)
    RID = z3.Function("RID_AT", z3.IntSort(), z3.StringSort())
    TYPE_OF = z3.Function("TYPE_BY_RID", z3.StringSort(), z3.StringSort())
    REF_OF = z3.Function("TARGET_REF_BY_RID", z3.StringSort(), z3.StringSort())
    EXT_OF = z3.Function("EXTERNAL_BY_RID", z3.StringSort(), z3.BoolSort())
    i, k = z3.Ints("xi xk")
    c.requires(z3.ForAll([i, k], z3.Implies(z3.And(0 <= i, i < k, k < n), RID(i) != RID(k))))
    for q in range(2):
        c.input("rId%d" % q, RID(z3.IntVal(q)))
    STARTS = z3.Function("KEY_STARTS_WITH_rId", z3.IntSort(), z3.BoolSort())
    DIGITS = z3.Function("KEY_TAIL_IS_DIGITS", z3.IntSort(), z3.BoolSort())
    NUM = z3.Function("KEY_TAIL_NUMBER", z3.IntSort(), z3.IntSort())

    class _Key:
        """relationship id j as the sort key computation sees it: its text RID(j); startswith / [3:].isdigit() / int() are
        total functions of the text whose values do not matter here (only that sorted() permutes)"""

        __pyvc_symbolic__ = True

        def __init__(self, j, tail=False):
            self.j, self.tail = j, tail
            self.gkey = RID(j)

        def sym_getattr(self, it, name):
            if name == "startswith" and not self.tail:
                return GhostFn(lambda i2, a, k: STARTS(self.j), "str.startswith")
            if name == "isdigit" and self.tail:
                return GhostFn(lambda i2, a, k: DIGITS(self.j), "str.isdigit")
            raise Exception("ghost key asked for %s" % name)

        def sym_getitem(self, it, idx):
            return _Key(self.j, tail=True)

        def sym_int(self, it):
            return NUM(self.j)

    c.path.assumed.add("str.startswith / slicing / isdigit / int on a relationship id are total functions of its text (values irrelevant to the contract)")
    keys = SSeq(n, lambda j: _Key(j), name="keys()")

    class _Store:
        __pyvc_symbolic__ = True

        def sym_getitem(self, it, key):
            from pyvc.gsets import str_key

            z = str_key(key)
            return SObj(None, "rel", rId=SStr([Atom("rId", zs=z)]), reltype=SStr([Atom("reltype", zs=TYPE_OF(z))]),
                        target_ref=SStr([Atom("target_ref", zs=REF_OF(z))]), is_external=EXT_OF(z))

        def sym_iter(self, it):
            return keys

    log = {"cnt": z3.IntVal(0), "RID": z3.Array("L_RID0", z3.IntSort(), z3.StringSort()), "TYPE": z3.Array("L_TYPE0", z3.IntSort(), z3.StringSort()),
           "REF": z3.Array("L_REF0", z3.IntSort(), z3.StringSort()), "EXT": z3.Array("L_EXT0", z3.IntSort(), z3.BoolSort())}

    class _Log:
        def havoc(self, tag):
            log["cnt"] = z3.Int("L_cnt_%s" % tag)
            for nm, srt in (("RID", z3.StringSort()), ("TYPE", z3.StringSort()), ("REF", z3.StringSort()), ("EXT", z3.BoolSort())):
                log[nm] = z3.Array("L_%s_%s" % (nm, tag), z3.IntSort(), srt)

    c.path.ghost.setdefault("ghost_state", []).append(_Log())

    def add_rel(it, a, kw):
        from pyvc.gsets import str_key

        rid, rt, ref, ext = a
        p = log["cnt"]
        log["RID"], log["TYPE"], log["REF"] = z3.Store(log["RID"], p, str_key(rid)), z3.Store(log["TYPE"], p, str_key(rt)), z3.Store(log["REF"], p, str_key(ref))
        log["EXT"] = z3.Store(log["EXT"], p, ext if z3.is_expr(ext) else z3.BoolVal(bool(ext)))
        log["cnt"] = p + 1

    the_bytes = SObj(None, "rels_xml_bytes")
    elm = SObj(None, "rels_elm", add_rel=GhostFn(add_rel, "add_rel"), xml_file_bytes=the_bytes)
    c.summaries["pptx.opc.oxml:CT_Relationships.new"] = lambda it, a, kw: elm
    store = _Store()
    rels = SObj(_Relationships, "rels", _rels=store, keys=GhostFn(lambda it, a, kw: keys, "keys"))
    perm = {}

    def inv(env, kk):
        P = c.path.ghost["permuted"][-1]
        perm["P"] = P
        a = z3.Int("la")
        z = lambda q: RID(P.org(q))
        return z3.And(log["cnt"] == kk,
                      z3.ForAll([a], z3.Implies(z3.And(0 <= a, a < kk),
                                                z3.And(log["RID"][a] == z(a), log["TYPE"][a] == TYPE_OF(z(a)), log["REF"][a] == REF_OF(z(a)), log["EXT"][a] == EXT_OF(z(a))))))

    c.loop_specs[("pptx.opc.package:_Relationships.xml", 0)] = invariant_loop("C01.opc.package._Relationships.xml.loop0", [], inv)
    out = c.run(_Relationships.xml.fget, rels)
    if out.raised:
        c.fails("never_raises", "raised %s" % out.exc)
        return
    P = perm.get("P")
    c.ensures("post.sorted_view_was_used", P is not None)
    if P is None:
        return
    c.ensures("post.one_element_per_relationship", z3.And(log["cnt"] == P.length_term, P.length_term == n))
    j = z3.Int("fj")
    c.ensures("post.every_relationship_written_with_its_own_fields",
              z3.ForAll([j], z3.Implies(z3.And(0 <= j, j < n),
                                        z3.And(0 <= P.pos(j), P.pos(j) < log["cnt"], log["RID"][P.pos(j)] == RID(j), log["TYPE"][P.pos(j)] == TYPE_OF(RID(j)),
                                               log["REF"][P.pos(j)] == REF_OF(RID(j)), log["EXT"][P.pos(j)] == EXT_OF(RID(j))))))
    c.ensures("post.returns_the_bytes_of_that_element", out.value is the_bytes)


# ---------------------------------------------------------------------------------------------------------
# CT_Relationships.add_rel / CT_Relationship.new: what _Relationships.xml hands over is what the element holds


def _replay_add_rel(model, rec):
    from pptx.opc.oxml import CT_Relationships

    rels = CT_Relationships.new()
    cases = [("rId1", "http://t/1", "../slides/slide1.xml", False), ("rId2", "http://t/2", "file:///C:\\Users\\me\\My Documents\\Book 1.xlsx", True),
             ("rId3", "http://t/3", "http://example.com/a b?q=\u00e9&x=%20{1}|^`", True), ("x", "http://t/4", "mailto:a@b.c?subject=x y", True),
             ("rId5", "http://t/5", "/ppt/media/image 1.png", False)]
    for rid, rt, tgt, ext in cases:
        e = rels.add_rel(rid, rt, tgt, ext)
        got = (e.get("Id"), e.get("Type"), e.get("Target"), e.get("TargetMode"))
        want = (rid, rt, tgt, "External" if ext else None)
        if got != want:
            return {"confirmed": True, "witness_class": "add-rel", "detail": "add_rel%r wrote (Id, Type, Target, TargetMode) = %r" % ((rid, rt, tgt, ext), got)}
    if [e.get("Id") for e in rels] != [c[0] for c in cases]:
        return {"confirmed": True, "witness_class": "add-rel", "detail": "children %s" % [e.get("Id") for e in rels]}
    return {"confirmed": False, "detail": "five relationships with spaces, backslashes, non-ASCII and reserved characters stored verbatim"}


@contract("C01", "C01.opc.oxml.CT_Relationships.add_rel", replay=_replay_add_rel)
def _add_rel(c):
    """for any id, type and target strings: the new element carries exactly those strings (no re-encoding), TargetMode is
    'External' iff is_external (absent otherwise), and it is the element inserted into the collection and returned."""
    from pptx.opc.oxml import CT_Relationship, CT_Relationships

    from .c09 import AttrElem

    made, inserted = [], []
    c.summaries["pptx.opc.oxml:parse_xml"] = lambda it, a, k: (made.append(AttrElem(CT_Relationship, {})), made[-1])[1]
    c.summaries["pptx.oxml:parse_xml"] = c.summaries["pptx.opc.oxml:parse_xml"]
    s_ = lambda nm: SStr([Atom(nm, zs=c.input(nm, z3.String(nm)))])
    rid, rt, tgt = s_("rId"), s_("reltype"), s_("target")
    ext = c.branch(c.bool("is_external"))
    rels = SObj(CT_Relationships, "rels", _insert_relationship=GhostFn(lambda it, a, k: (inserted.append(a[0]), a[0])[1], "_insert_relationship"))
    out = c.run(CT_Relationships.add_rel, rels, rid, rt, tgt, ext)
    if out.raised:
        c.fails("never_raises", "add_rel raised %s" % out.exc)
        return
    ok = len(made) == 1 and len(inserted) == 1 and inserted[0] is made[0] and out.value is made[0]
    c.ensures("post.one_element_made_inserted_and_returned", ok)
    if not ok:
        return
    at = made[0].attrs
    same = lambda v, a: isinstance(v, SStr) and len(v.parts) == 1 and v.parts[0] is a.parts[0]
    c.ensures("post.id_type_target_verbatim", same(at.get("Id"), rid) and same(at.get("Type"), rt) and same(at.get("Target"), tgt), got=repr({k: repr(v) for k, v in at.items()}))
    c.ensures("post.target_mode", (at.get("TargetMode") == "External") if ext else ("TargetMode" not in at))
    c.ensures("post.no_other_attribute", set(at) <= {"Id", "Type", "Target", "TargetMode"})

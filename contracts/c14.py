"""C14 -- tables stay rectangular and merges consistent under any merge/split sequence.  DESIGN.md 5/C14.

Grid view: an R x C table is four functions of (row, col) -- gridSpan, rowSpan, hMerge, vMerge --
plus a ghost region map (origin and extent of the merged region every cell lies in).  WF says: every
cell lies in exactly one rectangular region inside the grid and its four attributes are the function
of its position in that region which `_Cell.merge` writes.  The real `merge`, `split`,
`TcRange._extents/_left/_right/_top/_bottom/dimensions/contains_merged_cell`,
`CT_TableCell.is_merge_origin/is_spanned` and `CT_Table.new_tbl` run symbolically on that view for an
unbounded grid; loops over cell sets are handled by the *independent-iterations rule*: the body is
explored for a generic cell of the set, its writes must go to that cell only, and the loop's effect
is the quantified update."""
from __future__ import annotations

import z3

from pyvc.engine import Frame, GhostFn, Infeasible, Path, PathDone, PyRaise, SObj, SSeq, Unsupported, _Return, _Continue, invariant_loop, to_int
from pyvc.verify import contract

META = {
    "residual": [
        "TcRange's five cell iterators enter through their contracts (each yields exactly the cells of a rectangle of indices, "
        "row-major); they and the migration of text into the origin cell (lxml node moves) are checked natively on all tables "
        "<= 4x4 by the bounded C14.native_tables job",
        "loops over cell sets use the independent-iterations rule (body explored for a generic cell; writes to that cell only)",
    ],
    "trusted_base": ["z3 E-matching on the quantified grid predicates", "lxml storage of gridSpan/rowSpan/hMerge/vMerge as independent attributes (C09)"],
}

FIELDS = ("gridSpan", "rowSpan", "hMerge", "vMerge")


class Grid:
    """Symbolic table state: field -> python function (r, c) -> term; ghost region map."""

    def __init__(self, c, tag="g"):
        self.R, self.C = c.int("rows"), c.int("cols")
        c.requires(z3.And(self.R >= 1, self.C >= 1))
        I = z3.IntSort()
        self.f = {
            "gridSpan": z3.Function("GS", I, I, I), "rowSpan": z3.Function("RS", I, I, I),
            "hMerge": z3.Function("HM", I, I, z3.BoolSort()), "vMerge": z3.Function("VM", I, I, z3.BoolSort()),
        }
        self.cur = {k: (lambda r, cc, F=F: F(r, cc)) for k, F in self.f.items()}
        # ghost region map
        self.OR, self.OC = z3.Function("ORG_R", I, I, I), z3.Function("ORG_C", I, I, I)
        self.H, self.W = z3.Function("REG_H", I, I, I), z3.Function("REG_W", I, I, I)
        self.reg = dict(OR=lambda r, cc: self.OR(r, cc), OC=lambda r, cc: self.OC(r, cc), H=lambda r, cc: self.H(r, cc), W=lambda r, cc: self.W(r, cc))

    def inside(self, r, cc):
        return z3.And(0 <= r, r < self.R, 0 <= cc, cc < self.C)

    def wf_cell(self, r, cc, cur=None, reg=None):
        """the per-cell clause of WF at a specific cell (used as a proof hint: an instance of the quantified premise)."""
        cur = cur or self.cur
        reg = reg or self.reg
        o_r, o_c = reg["OR"](r, cc), reg["OC"](r, cc)
        h, w = reg["H"](o_r, o_c), reg["W"](o_r, o_c)
        return z3.Implies(self.inside(r, cc), z3.And(
            self.inside(o_r, o_c), h >= 1, w >= 1, o_r + h <= self.R, o_c + w <= self.C,
            o_r <= r, r < o_r + h, o_c <= cc, cc < o_c + w,
            reg["OR"](o_r, o_c) == o_r, reg["OC"](o_r, o_c) == o_c,
            cur["gridSpan"](r, cc) == z3.If(cc == o_c, w, 1), cur["rowSpan"](r, cc) == z3.If(r == o_r, h, 1),
            cur["hMerge"](r, cc) == (cc > o_c), cur["vMerge"](r, cc) == (r > o_r)))

    def wf(self, cur=None, reg=None, tag=""):
        """well-formedness of (cur flags, region map)."""
        cur = cur or self.cur
        reg = reg or self.reg
        r, cc, r2, c2 = z3.Ints("wr%s wc%s wr2%s wc2%s" % (tag, tag, tag, tag))
        o_r, o_c = reg["OR"](r, cc), reg["OC"](r, cc)
        h, w = reg["H"](o_r, o_c), reg["W"](o_r, o_c)
        cell = z3.And(
            self.inside(o_r, o_c), h >= 1, w >= 1, o_r + h <= self.R, o_c + w <= self.C,
            o_r <= r, r < o_r + h, o_c <= cc, cc < o_c + w,
            # origin of a region is its own origin
            reg["OR"](o_r, o_c) == o_r, reg["OC"](o_r, o_c) == o_c,
            cur["gridSpan"](r, cc) == z3.If(cc == o_c, w, 1),
            cur["rowSpan"](r, cc) == z3.If(r == o_r, h, 1),
            cur["hMerge"](r, cc) == (cc > o_c),
            cur["vMerge"](r, cc) == (r > o_r),
        )
        per_cell = z3.ForAll([r, cc], z3.Implies(self.inside(r, cc), cell), patterns=[z3.MultiPattern(reg["OR"](r, cc), reg["OC"](r, cc))] if reg is self.reg else [])
        # every cell of an origin's rectangle maps to that origin
        o2r, o2c = reg["OR"](r2, c2), reg["OC"](r2, c2)
        rect = z3.ForAll([r, cc, r2, c2], z3.Implies(
            z3.And(self.inside(r, cc), self.inside(r2, c2), reg["OR"](r, cc) == r, reg["OC"](r, cc) == cc,
                   r <= r2, r2 < r + reg["H"](r, cc), cc <= c2, c2 < cc + reg["W"](r, cc)),
            z3.And(o2r == r, o2c == cc)))
        return z3.And(per_cell, rect)


class GCell:
    """abstract a:tc at (r, c): reads/writes of the four merge attributes go to the grid state."""

    __pyvc_symbolic__ = True

    def __init__(self, grid, r, cc, rec=None):
        self.grid, self.r, self.c = grid, r, cc
        self.rec = rec  # write recorder while a loop body is explored for a generic cell

    def sym_truth(self, it):
        return True

    def sym_is(self, it, other):
        if isinstance(other, GCell):
            return z3.And(self.r == other.r, self.c == other.c)
        return False

    def sym_getattr(self, it, name):
        if name in FIELDS:
            return self.grid.cur[name](self.r, self.c)
        if name == "row_idx":
            return self.r
        if name == "col_idx":
            return self.c
        if name == "tbl":
            return self.grid
        from pptx.oxml.table import CT_TableCell

        d = CT_TableCell.__dict__.get(name)
        if isinstance(d, property):
            return it.call(d.fget, [self])
        raise Exception("ghost cell asked for %s" % name)

    def sym_setattr(self, it, name, v):
        if name not in FIELDS:
            raise Unsupported("store to a:tc/@%s in the grid view" % name)
        if self.rec is not None:
            self.rec.append((name, v))
            return
        old = self.grid.cur[name]
        r0, c0 = self.r, self.c
        val = v if z3.is_expr(v) else (z3.BoolVal(v) if isinstance(v, bool) else z3.IntVal(v))
        self.grid.cur[name] = lambda r, cc, old=old: z3.If(z3.And(r == r0, cc == c0), val, old(r, cc))


class CellSet:
    """the cells of a rectangle [top, bottom) x [left, right) in row-major order (contract of a TcRange iterator)."""

    __pyvc_symbolic__ = True

    def __init__(self, grid, top, bottom, left, right):
        self.grid, self.top, self.bottom, self.left, self.right = grid, top, bottom, left, right

    def member(self, r, cc):
        return z3.And(self.top <= r, r < self.bottom, self.left <= cc, cc < self.right)


_K = [0]


def foreach_cells(label):
    """Loop contract for `for tc in <CellSet>`: independent-iterations rule (see module docstring)."""

    def spec(it, node, frame, cells):
        if not isinstance(cells, CellSet):
            raise Unsupported("foreach_cells on %r" % (cells,))
        grid = cells.grid
        outer = it.path
        _K[0] += 1
        gr, gc = z3.Int("gr%d" % _K[0]), z3.Int("gc%d" % _K[0])
        outcomes = []
        work = [[]]
        while work:
            prefix = work.pop()
            p = Path(prefix, outer.timeout)
            p.pc = list(outer.pc) + [cells.member(gr, gc), grid.inside(gr, gc)]
            base = len(p.pc)
            p.n = outer.n + 500 * (len(outcomes) + 1)
            p.assumed = outer.assumed
            sub = type(it)(p, loop_specs=it.loop_specs, summaries=it.summaries)
            fr = Frame(frame.fn, dict(frame.locals), frame.node, frame.qn)
            fr.globals, fr.cells, fr.parent = frame.globals, frame.cells, frame.parent
            rec = []
            try:
                sub.assign(node.target, GCell(grid, gr, gc, rec=rec), fr)
                try:
                    sub.exec_block(node.body, fr)
                    outcomes.append((p.pc[base:], "normal", rec))
                except _Continue:
                    outcomes.append((p.pc[base:], "normal", rec))
                except _Return as rv:
                    outcomes.append((p.pc[base:], "return", rv.value))
                except PyRaise as e:
                    outcomes.append((p.pc[base:], "raise", e))
            except Infeasible:
                pass
            work.extend(p.pending)
        r, cc = z3.Ints("fr%d fc%d" % (_K[0], _K[0]))

        def at(term, rr, c2):
            return z3.substitute(term, (gr, rr), (gc, c2))

        exits = [(g, k, v) for g, k, v in outcomes if k in ("return", "raise")]
        leg = outer.fork_free(len(exits) + 1)
        if leg < len(exits):
            g, k, v = exits[leg]
            wr, wc = outer.fresh("wit_r", z3.IntSort()), outer.fresh("wit_c", z3.IntSort())
            outer.assume(z3.And(cells.member(wr, wc), grid.inside(wr, wc), *[at(x, wr, wc) for x in g]))
            if k == "raise":
                raise PyRaise(v.exc_cls, v.exc_args)
            raise _Return(v)
        for g, k, v in exits:
            cond = z3.And(*g) if g else z3.BoolVal(True)
            outer.assume(z3.ForAll([r, cc], z3.Implies(z3.And(cells.member(r, cc), grid.inside(r, cc)), z3.Not(at(cond, r, cc)))))
        # apply the writes of the normal outcomes as quantified updates
        for g, k, recs in outcomes:
            if k != "normal":
                continue
            cond = z3.And(*g) if g else z3.BoolVal(True)
            for name, v in recs:
                val = v if z3.is_expr(v) else (z3.BoolVal(v) if isinstance(v, bool) else z3.IntVal(v))
                old = grid.cur[name]
                grid.cur[name] = (lambda rr, c2, old=old, val=val, cond=cond:
                                  z3.If(z3.And(cells.member(rr, c2), grid.inside(rr, c2), at(cond, rr, c2)), at(val, rr, c2), old(rr, c2)))

    return spec


def _tcrange(c, grid, corners=None):
    """TcRange over ghost cells; the five iterators are ghosted by their contracts, everything else is the real code."""
    from pptx.oxml.table import TcRange

    if corners is None:
        r1, c1, r2, c2 = c.int("r1"), c.int("c1"), c.int("r2"), c.int("c2")
        c.requires(z3.And(grid.inside(r1, c1), grid.inside(r2, c2)))
    else:
        r1, c1, r2, c2 = corners
    rng = SObj(TcRange, "tc_range", _tc=GCell(grid, r1, c1), _other_tc=GCell(grid, r2, c2))

    def mk(kind):
        def h(it, a, k):
            top, bottom = it.getattr(rng, "_top"), it.getattr(rng, "_bottom")
            left, right = it.getattr(rng, "_left"), it.getattr(rng, "_right")
            if kind == "all":
                return CellSet(grid, top, bottom, left, right)
            if kind == "top":
                return CellSet(grid, top, top + 1, left, right)
            if kind == "left":
                return CellSet(grid, top, bottom, left, left + 1)
            if kind == "xleft":
                return CellSet(grid, top, bottom, left + 1, right)
            if kind == "xtop":
                return CellSet(grid, top + 1, bottom, left, right)
        return GhostFn(h)

    rng.fields.update(iter_tcs=mk("all"), iter_top_row_tcs=mk("top"), iter_left_col_tcs=mk("left"),
                      iter_except_left_col_tcs=mk("xleft"), iter_except_top_row_tcs=mk("xtop"),
                      move_content_to_origin=GhostFn(lambda it, a, k: None))
    return rng, (r1, c1, r2, c2)


LOOPS_MERGE = ["pptx.table:_Cell.merge"]


def _replay_tables(model, rec):
    r = _native_tables(tier="quick", seed=0)
    bad = [o for o in r["obligations"] if o["status"] == "refuted"]
    if bad:
        return {"confirmed": True, "witness_class": bad[0]["replay"]["witness_class"], "detail": bad[0]["replay"]["detail"]}
    return {"confirmed": False, "detail": "all tables up to 3x3 with all depth-2 merge/split sequences keep the invariants natively"}


@contract("C14", "C14.oxml.table.TcRange._extents", replay=_replay_tables)
def _extents(c):
    """(left, top, width, height) is the normalised rectangle spanned by the two corner cells, whatever their order."""
    from pptx.oxml.table import TcRange

    grid = Grid(c)
    rng, (r1, c1, r2, c2) = _tcrange(c, grid)
    out = c.getattr(rng, "_extents")
    if out.raised:
        c.fails("never_raises", "raised %s" % out.exc)
        return
    left, top, w, h = out.value
    mn = lambda a, b: z3.If(a <= b, a, b)
    mx = lambda a, b: z3.If(a >= b, a, b)
    c.ensures("post.rectangle", z3.And(left == mn(c1, c2), top == mn(r1, r2), left + w - 1 == mx(c1, c2), top + h - 1 == mx(r1, r2)))
    c.ensures("post.positive", z3.And(w >= 1, h >= 1))
    for name, want in (("_left", left), ("_top", top), ("_right", left + w), ("_bottom", top + h)):
        o = c.getattr(rng, name)
        c.ensures("post.%s" % name, (not o.raised) and o.value == want)
    o = c.getattr(rng, "dimensions")
    c.ensures("post.dimensions_rows_cols", (not o.raised) and z3.And(o.value[0] == h, o.value[1] == w))
    c.ensures("post.inside_grid", z3.And(top >= 0, top + h <= grid.R, left >= 0, left + w <= grid.C))


@contract("C14", "C14.oxml.table.TcRange.contains_merged_cell", replay=_replay_tables)
def _contains_merged(c):
    """True iff some cell of the range has gridSpan > 1, rowSpan > 1, hMerge or vMerge."""
    grid = Grid(c)
    rng, corners = _tcrange(c, grid)
    c.loop_specs[("pptx.oxml.table:TcRange.contains_merged_cell", 0)] = foreach_cells("C14.oxml.table.TcRange.contains_merged_cell.loop0")
    out = c.getattr(rng, "contains_merged_cell")
    if out.raised:
        c.fails("never_raises", "raised %s" % out.exc)
        return
    top, bottom = c.getattr(rng, "_top").value, c.getattr(rng, "_bottom").value
    left, right = c.getattr(rng, "_left").value, c.getattr(rng, "_right").value
    r, cc = z3.Ints("mr mc")
    merged = lambda rr, c2: z3.Or(grid.cur["gridSpan"](rr, c2) > 1, grid.cur["rowSpan"](rr, c2) > 1, grid.cur["hMerge"](rr, c2), grid.cur["vMerge"](rr, c2))
    some = z3.Exists([r, cc], z3.And(top <= r, r < bottom, left <= cc, cc < right, merged(r, cc)))
    c.ensures("post.iff_some_cell_merged", (out.value if z3.is_expr(out.value) else z3.BoolVal(out.value)) == some)


def _run_merge(c, grid, corners=None, same_table=True):
    from pptx.table import _Cell
    import pptx.oxml.table as ot

    rng, (r1, c1, r2, c2) = _tcrange(c, grid, corners)
    if not same_table:
        rng.fields["in_same_table"] = False
    else:
        rng.fields["in_same_table"] = True
    for i in range(4):
        c.loop_specs[("pptx.table:_Cell.merge", i)] = foreach_cells("C14.table._Cell.merge.loop%d" % i)
    c.loop_specs[("pptx.oxml.table:TcRange.contains_merged_cell", 0)] = foreach_cells("C14.oxml.table.TcRange.contains_merged_cell.loop0")
    c.summaries["pptx.oxml.table:TcRange.__init__"] = lambda it, a, k: None
    cell = SObj(_Cell, "cell", _tc=GCell(grid, r1, c1))
    other = SObj(_Cell, "other", _tc=GCell(grid, r2, c2))
    # `TcRange(self._tc, other._tc)` inside merge: hand back the prepared range object
    import types

    c.summaries["pptx.oxml.table:TcRange"] = None
    orig = ot.TcRange

    def new_range(it, a, k):
        return rng

    from pyvc.engine import MODELS, MODEL_OBJS

    MODELS[id(orig)] = new_range
    MODEL_OBJS[id(orig)] = orig
    try:
        out = c.run(_Cell.merge, cell, other)
    finally:
        MODELS.pop(id(orig), None)
    return out, rng, (r1, c1, r2, c2)


@contract("C14", "C14.table._Cell.merge.preserves_WF", replay=_replay_tables, timeout_ms=40000)
def _merge_wf(c):
    """WF and no merged cell in the range  =>  after merge: WF again, the origin reports the span
    (row_count x col_count), every other cell of the range is spanned, cells outside are untouched."""
    grid = Grid(c)
    c.requires(grid.wf(tag="0"))
    before = dict(grid.cur)
    out, rng, (r1, c1, r2, c2) = _run_merge(c, grid)
    mn = lambda a, b: z3.If(a <= b, a, b)
    mx = lambda a, b: z3.If(a >= b, a, b)
    top, left, bottom, right = mn(r1, r2), mn(c1, c2), mx(r1, r2) + 1, mx(c1, c2) + 1
    inr = lambda r, cc: z3.And(top <= r, r < bottom, left <= cc, cc < right)
    r, cc = z3.Ints("pr pc")
    anymerged = z3.Exists([r, cc], z3.And(inr(r, cc), z3.Or(before["gridSpan"](r, cc) > 1, before["rowSpan"](r, cc) > 1, before["hMerge"](r, cc), before["vMerge"](r, cc))))
    if out.raised:
        c.ensures("refusal.ValueError_iff_overlap", z3.And(issubclass(out.exc.exc_cls, ValueError), anymerged))
        c.ensures("refusal.changes_nothing", z3.And(*[z3.ForAll([r, cc], grid.cur[f](r, cc) == before[f](r, cc)) for f in FIELDS]))
        return
    c.ensures("accepted_only_without_overlap", z3.Not(anymerged))
    # new region map: cells of the range belong to (top, left) with extent (bottom-top, right-left)
    reg = dict(
        OR=lambda rr, c2_: z3.If(inr(rr, c2_), top, grid.OR(rr, c2_)), OC=lambda rr, c2_: z3.If(inr(rr, c2_), left, grid.OC(rr, c2_)),
        H=lambda rr, c2_: z3.If(z3.And(rr == top, c2_ == left), bottom - top, grid.H(rr, c2_)),
        W=lambda rr, c2_: z3.If(z3.And(rr == top, c2_ == left), right - left, grid.W(rr, c2_)),
    )
    c.ensures("post.WF", grid.wf(cur=grid.cur, reg=reg, tag="1"))
    c.ensures("post.origin_reports_span", z3.And(grid.cur["rowSpan"](top, left) == bottom - top, grid.cur["gridSpan"](top, left) == right - left,
                                                 z3.Not(grid.cur["hMerge"](top, left)), z3.Not(grid.cur["vMerge"](top, left))))
    c.ensures("post.others_spanned", z3.ForAll([r, cc], z3.Implies(z3.And(inr(r, cc), z3.Not(z3.And(r == top, cc == left))),
                                                                    z3.Or(grid.cur["hMerge"](r, cc), grid.cur["vMerge"](r, cc)))))
    c.ensures("frame.outside_untouched", z3.And(*[z3.ForAll([r, cc], z3.Implies(z3.Not(inr(r, cc)), grid.cur[f](r, cc) == before[f](r, cc))) for f in FIELDS]))


@contract("C14", "C14.table._Cell.merge.other_table", replay=_replay_tables)
def _merge_other_table(c):
    """a merge reaching into another table is refused with ValueError and changes nothing."""
    grid = Grid(c)
    before = dict(grid.cur)
    out, rng, corners = _run_merge(c, grid, same_table=False)
    r, cc = z3.Ints("or oc")
    c.ensures("refused", out.raised and issubclass(out.exc.exc_cls, ValueError))
    c.ensures("changes_nothing", z3.And(*[z3.ForAll([r, cc], grid.cur[f](r, cc) == before[f](r, cc)) for f in FIELDS]))


@contract("C14", "C14.table._Cell.split.restores_cells", replay=_replay_tables, timeout_ms=40000)
def _split(c):
    """split on a merge origin restores the defaults on exactly its region and preserves WF; on any other cell it
    raises ValueError and changes nothing."""
    from pptx.table import _Cell
    import pptx.oxml.table as ot

    grid = Grid(c)
    c.requires(grid.wf(tag="0"))
    before = dict(grid.cur)
    r0, c0 = c.int("r0"), c.int("c0")
    c.requires(grid.inside(r0, c0))
    c.lemma("wf_at_cell", grid.wf_cell(r0, c0))
    c.lemma("wf_at_its_origin", grid.wf_cell(grid.OR(r0, c0), grid.OC(r0, c0)))
    tc = GCell(grid, r0, c0)
    cell = SObj(_Cell, "cell", _tc=tc)
    c.loop_specs[("pptx.table:_Cell.split", 0)] = foreach_cells("C14.table._Cell.split.loop0")

    # TcRange.from_merge_origin(tc): real code up to tbl.tc(row, col), which the grid answers
    class _Tbl:
        __pyvc_symbolic__ = True

        def sym_getattr(self, it, name):
            if name == "tc":
                return GhostFn(lambda i2, a, k: GCell(grid, a[0], a[1]))
            raise Exception("ghost tbl asked for %s" % name)

    orig_getattr = GCell.sym_getattr

    def ga(self, it, name):
        if name == "tbl":
            return _Tbl()
        return orig_getattr(self, it, name)

    GCell.sym_getattr = ga
    from pyvc.engine import MODELS, MODEL_OBJS

    def new_range(it, a, k):
        rng, _ = _tcrange(c, grid, corners=(a[0].r, a[0].c, a[1].r, a[1].c))
        return rng

    MODELS[id(ot.TcRange)] = new_range
    MODEL_OBJS[id(ot.TcRange)] = ot.TcRange
    try:
        out = c.run(_Cell.split, cell)
    finally:
        MODELS.pop(id(ot.TcRange), None)
        GCell.sym_getattr = orig_getattr
    r, cc = z3.Ints("sr sc")
    is_origin = z3.And(grid.OR(r0, c0) == r0, grid.OC(r0, c0) == c0, z3.Or(grid.H(r0, c0) > 1, grid.W(r0, c0) > 1))
    if out.raised:
        c.ensures("refusal.ValueError_iff_not_origin", z3.And(issubclass(out.exc.exc_cls, ValueError), z3.Not(is_origin)))
        c.ensures("refusal.changes_nothing", z3.And(*[z3.ForAll([r, cc], grid.cur[f](r, cc) == before[f](r, cc)) for f in FIELDS]))
        return
    c.ensures("accepted_only_on_origin", is_origin)
    h, w = grid.H(r0, c0), grid.W(r0, c0)
    inr = lambda rr, c2: z3.And(r0 <= rr, rr < r0 + h, c0 <= c2, c2 < c0 + w)
    c.ensures("post.region_cells_independent", z3.ForAll([r, cc], z3.Implies(inr(r, cc), z3.And(
        grid.cur["gridSpan"](r, cc) == 1, grid.cur["rowSpan"](r, cc) == 1, z3.Not(grid.cur["hMerge"](r, cc)), z3.Not(grid.cur["vMerge"](r, cc))))))
    c.ensures("frame.outside_untouched", z3.And(*[z3.ForAll([r, cc], z3.Implies(z3.And(grid.inside(r, cc), z3.Not(inr(r, cc))), grid.cur[f](r, cc) == before[f](r, cc))) for f in FIELDS]))
    reg = dict(OR=lambda rr, c2: z3.If(inr(rr, c2), rr, grid.OR(rr, c2)), OC=lambda rr, c2: z3.If(inr(rr, c2), c2, grid.OC(rr, c2)),
               H=lambda rr, c2: z3.If(inr(rr, c2), 1, grid.H(rr, c2)), W=lambda rr, c2: z3.If(inr(rr, c2), 1, grid.W(rr, c2)))
    c.ensures("post.WF", grid.wf(cur=grid.cur, reg=reg, tag="1"))


@contract("C14", "C14.oxml.table.CT_TableCell.is_merge_origin_and_is_spanned")
def _predicates(c):
    """in a WF table: is_merge_origin <=> the cell is the origin of a region larger than 1x1; is_spanned <=> it lies in
    a region without being its origin."""
    from pptx.oxml.table import CT_TableCell

    grid = Grid(c)
    c.requires(grid.wf(tag="0"))
    r0, c0 = c.int("r0"), c.int("c0")
    c.requires(grid.inside(r0, c0))
    c.lemma("wf_at_cell", grid.wf_cell(r0, c0))
    tc = GCell(grid, r0, c0)
    o = c.run(CT_TableCell.is_merge_origin.fget, tc)
    s = c.run(CT_TableCell.is_spanned.fget, tc)
    if o.raised or s.raised:
        c.fails("never_raises", "raised %s" % (o.exc or s.exc))
        return
    at_origin = z3.And(grid.OR(r0, c0) == r0, grid.OC(r0, c0) == c0)
    big = z3.Or(grid.H(grid.OR(r0, c0), grid.OC(r0, c0)) > 1, grid.W(grid.OR(r0, c0), grid.OC(r0, c0)) > 1)
    b = lambda v: v if z3.is_expr(v) else z3.BoolVal(bool(v))
    c.ensures("is_merge_origin", b(o.value) == z3.And(at_origin, big))
    c.ensures("is_spanned", b(s.value) == z3.Not(at_origin))


# --------------------------------------------------------------------------------------------
# new_tbl: r rows of c cells, widths / heights sum to the request


class _GTbl:
    """ghost a:tbl recording add_gridCol / add_tr / add_tc calls as sums and counts."""

    __pyvc_symbolic__ = True

    def __init__(self):
        self.ncols = z3.IntVal(0)
        self.wsum = z3.IntVal(0)
        self.nrows = z3.IntVal(0)
        self.hsum = z3.IntVal(0)
        self.cells_in_row = z3.IntVal(0)
        self.bad = []

    def sym_getattr(self, it, name):
        if name == "tblGrid":
            return self
        if name == "add_gridCol":
            def f(i2, a, k):
                w = k.get("width", a[0] if a else None)
                self.ncols = self.ncols + 1
                self.wsum = self.wsum + to_int(w)
                self.last_w = to_int(w)
            return GhostFn(f)
        if name == "add_tr":
            def g(i2, a, k):
                h = k.get("height", a[0] if a else None)
                self.nrows = self.nrows + 1
                self.hsum = self.hsum + to_int(h)
                self.last_h = to_int(h)
                self.cells_in_row = z3.IntVal(0)
                return self
            return GhostFn(g)
        if name == "add_tc":
            def t(i2, a, k):
                self.cells_in_row = self.cells_in_row + 1
            return GhostFn(t)
        raise Exception("ghost tbl asked for %s" % name)


def _havoc_tbl(tbl, names):
    def on_havoc(path):
        for nm in names:
            setattr(tbl, nm, path.fresh("hv_" + nm, z3.IntSort()))
    return on_havoc


@contract("C14", "C14.oxml.table.CT_Table.new_tbl", replay=_replay_tables, timeout_ms=30000)
def _new_tbl(c):
    """rows >= 1, cols >= 1: exactly `cols` grid columns whose widths sum to `width`, exactly `rows` rows of exactly
    `cols` cells whose heights sum to `height`; all widths/heights >= 0 for non-negative requests; rows == 0 or
    cols == 0 is outside the code's domain (ZeroDivisionError)."""
    from pptx.oxml.table import CT_Table

    rows, cols, width, height = c.int("rows"), c.int("cols"), c.int("width"), c.int("height")
    c.requires(z3.And(width >= 0, height >= 0, rows >= 0, cols >= 0))
    tbl = _GTbl()
    c.summaries["pptx.oxml:parse_xml"] = lambda it, a, k: tbl
    qn = "pptx.oxml.table:CT_Table.new_tbl"
    cw0 = {}

    def inv_cols(env, k):
        # k columns added; all but a possible last have the base width
        cw = width / cols if False else None
        return z3.And(tbl.ncols == k, z3.If(k == cols, tbl.wsum == width, tbl.wsum == k * env["colwidth"]),
                      z3.Implies(k < cols, env["colwidth"] * cols <= width), env["colwidth"] >= 0,
                      z3.Implies(k < cols, width - (cols - 1) * env["colwidth"] >= 0))

    def inv_rows(env, k):
        return z3.And(tbl.nrows == k, z3.If(k == rows, tbl.hsum == height, tbl.hsum == k * env["rowheight"]),
                      z3.Implies(k < rows, env["rowheight"] * rows <= height), env["rowheight"] >= 0,
                      z3.Implies(k < rows, height - (rows - 1) * env["rowheight"] >= 0),
                      z3.Implies(k > 0, tbl.cells_in_row == cols), tbl.ncols == cols, tbl.wsum == width)

    def inv_cells(env, k):
        return tbl.cells_in_row == k

    c.loop_specs[(qn, 0)] = invariant_loop("C14.oxml.table.CT_Table.new_tbl.loop_cols", ["colwidth"], inv_cols, on_havoc=_havoc_tbl(tbl, ["ncols", "wsum"]))
    c.loop_specs[(qn, 1)] = invariant_loop("C14.oxml.table.CT_Table.new_tbl.loop_rows", ["rowheight"], inv_rows, on_havoc=_havoc_tbl(tbl, ["nrows", "hsum", "cells_in_row"]))
    c.loop_specs[(qn, 2)] = invariant_loop("C14.oxml.table.CT_Table.new_tbl.loop_cells", [], inv_cells, on_havoc=_havoc_tbl(tbl, ["cells_in_row"]))
    out = c.call(CT_Table.new_tbl, rows, cols, width, height)
    if out.raised:
        c.ensures("raises.ZeroDivisionError_iff_empty", z3.And(issubclass(out.exc.exc_cls, ZeroDivisionError), z3.Or(rows == 0, cols == 0)))
        return
    c.ensures("post.nonempty_accepted", z3.And(rows >= 1, cols >= 1))
    c.ensures("post.columns", z3.And(tbl.ncols == cols, tbl.wsum == width))
    c.ensures("post.rows", z3.And(tbl.nrows == rows, tbl.hsum == height))
    c.ensures("post.cells_per_row", tbl.cells_in_row == cols)


@contract("C14", "C14.table.Table.notify_size_changed")
def _notify(c):
    """after a column width / row height assignment the graphic frame's width / height is the sum of the columns / rows."""
    from pptx.table import Table

    n = c.int("n")
    c.requires(n >= 0)
    Wd = z3.Function("COLW", z3.IntSort(), z3.IntSort())
    cols = SSeq(n, lambda i: SObj(None, "col", width=Wd(i)), name="columns")
    rows = SSeq(n, lambda i: SObj(None, "row", height=Wd(i)), name="rows")
    gf = SObj(None, "graphic_frame", width=c.int("w0"), height=c.int("h0"))
    t = SObj(Table, "table", columns=cols, rows=rows, _graphic_frame=gf)
    # sum() over a symbolic sequence: assumed contract via a ghost prefix-sum function
    S = z3.Function("SUMW", z3.IntSort(), z3.IntSort())
    k = z3.Int("sk")
    c.requires(z3.And(S(0) == 0, z3.ForAll([k], z3.Implies(k >= 0, S(k + 1) == S(k) + Wd(k)))))
    import builtins

    from pyvc.engine import MODELS

    old = MODELS.get(id(builtins.sum))

    def m_sum(it, a, kw):
        seq = a[0]
        from pyvc.engine import SSeq as _S

        if isinstance(seq, _S):
            it.path.assumed.add("sum() of a sequence is its prefix sum at len (ghost function with the recursive definition)")
            j = z3.Int("sj")
            it.path.assume(z3.ForAll([j], z3.Implies(z3.And(0 <= j, j < n), to_int(seq.get(j)) == Wd(j))))
            return S(to_int(seq.length))
        return old(it, a, kw)

    MODELS[id(builtins.sum)] = m_sum
    try:
        o1 = c.run(Table.notify_width_changed, t)
        o2 = c.run(Table.notify_height_changed, t)
    finally:
        MODELS[id(builtins.sum)] = old
    if o1.raised or o2.raised:
        c.fails("never_raises", "raised %s" % (o1.exc or o2.exc))
        return
    c.ensures("post.frame_width_is_sum", gf.fields["width"] == S(n))
    c.ensures("post.frame_height_is_sum", gf.fields["height"] == S(n))


# --------------------------------------------------------------------------------------------
# BOUNDED native job: the property's own quantifier (tables <= 4x4, merge/split sequences up to depth 3)


def _native_tables(tier="quick", seed=0):
    import itertools
    import time as _t

    from pptx import Presentation
    from pptx.util import Emu

    t0 = _t.time()
    maxdim, depth = (3, 2) if tier == "quick" else (4, 3)
    evals = 0
    bad = None

    def check(tbl, R, C, regions, texts_expected=None):
        nonlocal bad
        rows = tbl._tbl.tr_lst
        if len(rows) != R or any(len(tr.tc_lst) != C for tr in rows):
            bad = bad or ("rect", "table lost its %dx%d shape" % (R, C))
            return
        owner = {}
        for (r0, c0, h, w) in regions:
            for r in range(r0, r0 + h):
                for cc in range(c0, c0 + w):
                    if (r, cc) in owner:
                        bad = bad or ("overlap", "regions overlap at %s" % ((r, cc),))
                    owner[(r, cc)] = (r0, c0, h, w)
        for r in range(R):
            for cc in range(C):
                cell = tbl.cell(r, cc)
                reg = owner.get((r, cc))
                if reg is None:
                    if cell.is_merge_origin or cell.is_spanned:
                        bad = bad or ("flags", "free cell %s reports merged" % ((r, cc),))
                elif (r, cc) == reg[:2]:
                    if not cell.is_merge_origin or cell.span_height != reg[2] or cell.span_width != reg[3]:
                        bad = bad or ("flags", "origin %s of %s reports origin=%s span %sx%s" % ((r, cc), reg, cell.is_merge_origin, cell.span_height, cell.span_width))
                elif not cell.is_spanned:
                    bad = bad or ("flags", "cell %s inside %s is not spanned" % ((r, cc), reg))

    for R in range(1, maxdim + 1):
        for C in range(1, maxdim + 1):
            cells = [(r, cc) for r in range(R) for cc in range(C)]
            ops = [("m", a, b) for a in cells for b in cells if a != b] + [("s", a, None) for a in cells]
            seqs = itertools.product(ops, repeat=depth) if len(ops) ** depth <= (4000 if tier == "quick" else 20000) else None
            if seqs is None:
                import random

                rnd = random.Random(seed + R * 10 + C)
                seqs = [tuple(rnd.choice(ops) for _ in range(depth)) for _ in range(1500 if tier == "quick" else 6000)]
            if depth < 3 and 2 <= R * C <= 6:
                # merge, split that merge, merge again (any range): a split must leave every cell fit for a later merge
                seqs = list(seqs) + [(m1, ("s", (min(m1[1][0], m1[2][0]), min(m1[1][1], m1[2][1])), None), m2) for m1 in ops if m1[0] == "m" for m2 in ops if m2[0] == "m"]
            prs = Presentation()
            slide = prs.slides.add_slide(prs.slide_layouts[6])
            for seq in seqs:
                evals += 1
                gf = slide.shapes.add_table(R, C, Emu(0), Emu(0), Emu(1000 * C + 1), Emu(700 * R + 2))
                tbl = gf.table
                if sum(col.width for col in tbl.columns) != 1000 * C + 1 or sum(row.height for row in tbl.rows) != 700 * R + 2:
                    bad = bad or ("sums", "%dx%d: widths/heights do not sum to the request" % (R, C))
                if evals % 3 == 0:
                    # a table as another producer may write it: without the optional a:tblPr (rows are then not the third child onwards)
                    for pr_ in tbl._tbl.findall("{http://schemas.openxmlformats.org/drawingml/2006/main}tblPr"):
                        tbl._tbl.remove(pr_)
                variants = ["t%d%d", "\v", "a%d\vb%d", "", "x%d\ny%d", "t%d%d"]  # also cells whose only content is a line break, empty cells, two paragraphs
                for r, cc in cells:
                    tv = variants[(r * 3 + cc + evals) % len(variants)]
                    tbl.cell(r, cc).text = tv % (r, cc) if "%d" in tv else tv
                regions = []
                for op, a, b in seq:
                    snapshot = [(tbl.cell(r, cc)._tc.gridSpan, tbl.cell(r, cc)._tc.rowSpan, tbl.cell(r, cc)._tc.hMerge, tbl.cell(r, cc)._tc.vMerge, tbl.cell(r, cc).text) for r, cc in cells]
                    if op == "m":
                        top, left, bot, right = min(a[0], b[0]), min(a[1], b[1]), max(a[0], b[0]) + 1, max(a[1], b[1]) + 1
                        overlap = any(not (r0 + h <= top or bot <= r0 or c0 + w <= left or right <= c0) for (r0, c0, h, w) in regions)
                        before_text = [tbl.cell(r, cc).text for r in range(top, bot) for cc in range(left, right)]
                        try:
                            tbl.cell(*a).merge(tbl.cell(*b))
                            if overlap:
                                bad = bad or ("refusal", "%dx%d %s: overlapping merge accepted" % (R, C, seq))
                            regions.append((top, left, bot - top, right - left))
                            got = tbl.cell(top, left).text
                            want = "\n".join(t for t in before_text if t)
                            if got != want:
                                bad = bad or ("text", "%dx%d merge %s-%s: origin text %r, expected reading-order %r" % (R, C, a, b, got, want))
                        except ValueError:
                            if not overlap:
                                bad = bad or ("refusal", "%dx%d %s: free merge refused" % (R, C, seq))
                            after = [(tbl.cell(r, cc)._tc.gridSpan, tbl.cell(r, cc)._tc.rowSpan, tbl.cell(r, cc)._tc.hMerge, tbl.cell(r, cc)._tc.vMerge, tbl.cell(r, cc).text) for r, cc in cells]
                            if after != snapshot:
                                bad = bad or ("refusal", "%dx%d %s: refused merge changed the table" % (R, C, seq))
                    else:
                        reg = [g for g in regions if g[:2] == a]
                        try:
                            tbl.cell(*a).split()
                            if not reg:
                                bad = bad or ("split", "split of non-origin %s accepted" % (a,))
                            else:
                                regions.remove(reg[0])
                        except ValueError:
                            if reg:
                                bad = bad or ("split", "split of origin %s refused" % (a,))
                    check(tbl, R, C, regions)
                sp = gf._element
                sp.getparent().remove(sp)
                if bad:
                    break
            if bad:
                break
        if bad:
            break
    # a merge whose corner cells lie in different tables is refused (ValueError) and changes neither table: two tables on one slide,
    # the k-th table of two slides, the same position in two decks, a table and its copy
    if not bad:
        import copy

        prs = Presentation()
        s1 = prs.slides.add_slide(prs.slide_layouts[6])
        s2 = prs.slides.add_slide(prs.slide_layouts[6])
        prs_b = Presentation()
        s3 = prs_b.slides.add_slide(prs_b.slide_layouts[6])
        mk = lambda sl: sl.shapes.add_table(3, 3, Emu(0), Emu(0), Emu(3000), Emu(2100))
        ga, gb, gc, gd = mk(s1), mk(s1), mk(s2), mk(s3)
        for sl_ in (s2, s3):
            mk(sl_), mk(sl_)  # the same arrangement of shapes on every slide: position in the tree does not tell tables apart
        ge_el = copy.deepcopy(ga._element)
        s1.shapes._spTree.append(ge_el)
        ge = [x for x in s1.shapes if x._element is ge_el][0]
        flags = lambda t: [(c_._tc.gridSpan, c_._tc.rowSpan, c_._tc.hMerge, c_._tc.vMerge) for c_ in t.iter_cells()]
        for what, other in (("another table of the same slide", gb), ("the first table of another slide", gc), ("the first table of another deck", gd), ("a copy of the table on the same slide", ge)):
            evals += 1
            before = (flags(ga.table), flags(other.table))
            try:
                ga.table.cell(0, 0).merge(other.table.cell(1, 1))
                bad = bad or ("refusal", "merge of cell (0, 0) with cell (1, 1) of %s was accepted" % what)
            except ValueError:
                pass
            if (flags(ga.table), flags(other.table)) != before:
                bad = bad or ("refusal", "merge with a cell of %s changed a table" % what)
    ob = {"name": "C14.native_tables", "base": "C14.native_tables", "kind": "bounded", "status": "refuted" if bad else "discharged", "backend": "native", "time": 0, "path": 0}
    if bad:
        ob["replay"] = {"confirmed": True, "witness_class": "table-" + bad[0], "detail": bad[1]}
        ob["model"] = None
    return {"contract": "C14.native_tables", "prop": "C14", "status": "ok", "obligations": [ob], "paths": 0, "assumed": [], "functions": {}, "notes": [],
            "solver_s": 0.0, "wall_s": _t.time() - t0,
            "bounded": {"name": "C14.native_tables", "bound": "all tables up to %dx%d, all merge/split sequences of depth %d (every corner-pair orientation; sampled where the space exceeds the budget), text in every cell"
                        % (maxdim, maxdim, depth), "evaluations": evals, "samples": [{"ops": "('m',(0,0),(1,1)), ('s',(0,0),None)"}], "counted_as_proved": False}}


JOBS = {"C14.native_tables": _native_tables}


# ---------------------------------------------------------------------------------------------------------
# the coordinates the merge / split code computes with: a row's offset among the rows, a cell's offset among the cells


def _replay_idx(model, rec):
    from pptx.oxml import parse_xml
    from pptx.oxml.ns import nsdecls

    for pr in ("<a:tblPr/>", ""):
        tbl = parse_xml("<a:tbl %s>%s<a:tblGrid><a:gridCol w='1'/><a:gridCol w='1'/></a:tblGrid>%s</a:tbl>" % (
            nsdecls("a"), pr, "<a:tr h='1'><a:tc/><a:tc/><a:extLst/></a:tr>" * 3))
        for i, tr in enumerate(tbl.tr_lst):
            if tr.row_idx != i:
                return {"confirmed": True, "witness_class": "table-index", "detail": "a:tbl %s a:tblPr: row %d reports row_idx %r" % ("with" if pr else "without", i, tr.row_idx)}
            for j, tc in enumerate(tr.tc_lst):
                if tc.col_idx != j:
                    return {"confirmed": True, "witness_class": "table-index", "detail": "cell %d of row %d reports col_idx %r" % (j, i, tc.col_idx)}
    return {"confirmed": False, "detail": "row_idx / col_idx are the offsets among rows / cells, with and without a:tblPr"}


def _make_row_idx(with_pr, n, j):
    @contract("C14", "C14.oxml.table.CT_TableRow.row_idx[%s a:tblPr, row %d of %d]" % ("with" if with_pr else "without", j, n), replay=_replay_idx)
    def body(c):
        """a row's row_idx is its offset among the a:tr children of the table, whatever precedes the rows (a:tblPr is optional; shapes enumerated)."""
        from pptx.oxml.table import CT_TableRow

        rows = []
        tbl = SObj(None, "tbl", __external__=True)
        for i in range(n):
            rows.append(SObj(CT_TableRow, "tr%d" % i, getparent=GhostFn(lambda it, a, k: tbl, "getparent")))
        lead = ([SObj(None, "tblPr", __external__=True)] if with_pr else []) + [SObj(None, "tblGrid", __external__=True)]
        kids = lead + rows
        tbl.fields["tr_lst"] = list(rows)
        tbl.fields["index"] = GhostFn(lambda it, a, k: next(i for i, e in enumerate(kids) if e is a[0]), "lxml.index")
        tbl.fields["__len__"] = GhostFn(lambda it, a, k: len(kids), "len")
        out = c.getattr(rows[j], "row_idx")
        if out.raised:
            c.fails("never_raises", "raised %s" % out.exc)
            return
        c.ensures("post.offset_among_rows", out.value == j)

    return body


def _make_col_idx(n, j, with_ext):
    @contract("C14", "C14.oxml.table.CT_TableCell.col_idx[cell %d of %d%s]" % (j, n, ", a:extLst follows" if with_ext else ""), replay=_replay_idx)
    def body(c):
        """a cell's col_idx is its offset among the a:tc children of its row (the schema puts the cells first; shapes enumerated)."""
        from pptx.oxml.table import CT_TableCell

        tr = SObj(None, "tr", __external__=True)
        cells = [SObj(CT_TableCell, "tc%d" % i, getparent=GhostFn(lambda it, a, k: tr, "getparent")) for i in range(n)]
        kids = cells + ([SObj(None, "extLst", __external__=True)] if with_ext else [])
        tr.fields["tc_lst"] = list(cells)
        tr.fields["index"] = GhostFn(lambda it, a, k: next(i for i, e in enumerate(kids) if e is a[0]), "lxml.index")
        out = c.getattr(cells[j], "col_idx")
        if out.raised:
            c.fails("never_raises", "raised %s" % out.exc)
            return
        c.ensures("post.offset_among_cells", out.value == j)

    return body


for _pr in (True, False):
    for _n in (1, 3):
        for _j in sorted({0, _n - 1}):
            _make_row_idx(_pr, _n, _j)
for _n in (1, 3):
    for _j in sorted({0, _n - 1}):
        _make_col_idx(_n, _j, _j == 0)

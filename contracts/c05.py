"""C05 -- caller-supplied strings are stored as data, never interpreted as markup.  DESIGN.md 5/C05.

Qualifier contracts on strings: a caller string enters as an opaque atom with no qualifier;
`xml.sax.saxutils.escape(s, entities)` (ASSUMED) returns an atom qualified `escaped(&, <, > + keys of
entities)`; ints render to digits.  Every function that feeds a template to the XML parser is executed
symbolically *from its real source* (templates, `%`, `.format`, f-strings, `nsdecls`, helper
properties are all just code); at the sink -- `pptx.oxml.parse_xml`, or the chart XML text handed to the
part loader -- the resulting structured string is scanned with an XML lexical automaton and every
caller atom must carry the qualifier its context needs: `&`, `<` in element content, additionally the
quote character inside an attribute value.  A missing qualifier is a refuted obligation; it is replayed
through the public API with the string  a"b&<c>]]>' ."""
from __future__ import annotations

import z3

from pyvc.engine import Atom, FmtInt, FmtReal, GhostFn, SObj, SStr, Unsupported, _as_sstr, _mkstr, model
from pyvc.lift import lift
from pyvc.verify import contract

META = {
    "residual": [
        "lxml attribute/text setters (.set(), .text =) store any string verbatim and never create markup (assumed; these paths "
        "carry no obligation)",
        "chart data shapes are enumerated (1-2 series, string/number/date/2-level categories); the templates are per-series "
        "uniform, the strings inside are symbolic",
    ],
    "trusted_base": ["xml.sax.saxutils.escape replaces & < > and the given entities and is inverted by the XML parser",
                     "the XML lexical automaton of contracts/c05.py (_scan)"],
}

NASTY = 'a"b&<c>]]>\''
NASTY2 = 'tail]]>'  # no & and no <, yet not allowed raw in element content


# --------------------------------------------------------------------------------------------
# qualifiers


def tainted(label):
    a = Atom(label, tags={"caller"})
    a.escaped = frozenset()
    a.origin = label
    return SStr([a])


import xml.sax.saxutils as _sax


@model(_sax.escape)
def m_escape(it, args, kw):
    data = args[0]
    entities = args[1] if len(args) > 1 else kw.get("entities", {})
    if isinstance(data, str):
        return it.native(_sax.escape, [data, entities], {})
    it.path.assumed.add("saxutils.escape(s, entities) replaces & < > and each key of entities by a character reference the XML parser inverts")
    extra = frozenset(k for k in entities if len(k) == 1)
    out = []
    for p in _as_sstr(data).parts:
        if isinstance(p, str):
            out.append(_sax.escape(p, entities))
        elif isinstance(p, Atom) and hasattr(p, "escaped"):
            a = Atom("escape(%s)" % p.name, tags=p.tags)
            a.escaped = p.escaped | frozenset("&<>") | extra
            a.origin = p.origin
            out.append(a)
        else:
            out.append(p)
    return _mkstr(out)


def _scan(s):
    """XML lexical scan of a structured string.  Yields (atom, context, needed_chars) for every caller atom.
    context: 'text' | 'attr"' | "attr'" | 'tag' (inside a tag but outside an attribute value) | 'comment/pi'."""
    state = "text"
    quote = None
    out = []
    for p in _as_sstr(s).parts:
        if isinstance(p, str):
            i = 0
            while i < len(p):
                ch = p[i]
                if state == "text":
                    if p.startswith("<!--", i):
                        state = "comment"
                        i += 4
                        continue
                    if p.startswith("<?", i):
                        state = "pi"
                        i += 2
                        continue
                    if ch == "<":
                        state = "tag"
                elif state == "tag":
                    if ch in "\"'":
                        state, quote = "attr", ch
                    elif ch == ">":
                        state = "text"
                elif state == "attr":
                    if ch == quote:
                        state = "tag"
                elif state == "comment":
                    if p.startswith("-->", i):
                        state = "text"
                        i += 3
                        continue
                elif state == "pi":
                    if p.startswith("?>", i):
                        state = "text"
                        i += 2
                        continue
                i += 1
        elif isinstance(p, Atom) and hasattr(p, "escaped"):
            if state == "text":
                out.append((p, "text", frozenset("&<>")))  # '>' too: the sequence ']]>' is not allowed in content
            elif state == "attr":
                out.append((p, "attr" + quote, frozenset("&<") | {quote}))
            else:
                out.append((p, state, frozenset("&<>\"' =/")))
        # FmtInt / FmtReal / other atoms: digits, sign, '.', 'e' -- no markup characters
    return out


class _AnyElem:
    """permissive ghost for whatever parse_xml returns: the element API is not under study here."""

    __pyvc_symbolic__ = True

    def sym_truth(self, it):
        return True

    def sym_getattr(self, it, name):
        if name in ("text", "tail"):
            return None
        return GhostFn(lambda i2, a, k: _AnyElem())

    def sym_setattr(self, it, name, v):
        return None

    def sym_getitem(self, it, idx):
        return _AnyElem()

    def sym_iter(self, it):
        return []


def _check_sink(c, label, s):
    uses = _scan(s)
    from pyvc.engine import atom_has_char

    for atom, ctx, need in uses:
        missing = sorted(need - atom.escaped)
        # a character the code has tested to be absent (path condition) needs no escaping
        claim = z3.And(*[z3.Not(atom_has_char(atom, m)) for m in missing]) if missing else True
        c.ensures("%s[%s in %s]" % (label, atom.origin, ctx.replace('"', "dq").replace("'", "sq")), claim,
                  why="caller string %s reaches %s context without escaping %s" % (atom.origin, ctx, " ".join(repr(m) for m in missing)),
                  origin=atom.origin, context=ctx)
    return uses


def _sink_summary(c, sinks):
    def h(it, a, k):
        sinks.append(a[0])
        return _AnyElem()
    return h


# --------------------------------------------------------------------------------------------
# replays through the public API


NASTIES = [NASTY, NASTY2, "a > b", "]]>", "R&amp;D", "&#65;BC", "&#x41;", "&lt;tag&gt;", "&amp;amp;", "&quot;", "&apos;", "a&b;c", "&", "&&", "&;", "&#;",
           "<![CDATA[x]]>", "<!--c-->", "<?pi x?>", "%s %d %(x)s", "{0} {name} {", "}{", "\\n", "'", '"', "a'b\"c", 'x="1" y=\'2\'', "<c:v>", "&#0;",
           "\u00e9&\u00fc<", "\U0001F600&", "a<b>c</b>", "1 < 2 && 3 > 2",
           # characters some line splitters treat as breaks: they are data like any other (only \n and \v separate in text setters)
           "line\u2028sep <a>", "para\u2029sep &", "next\u0085line",
           # no Unicode normalisation either: a decomposed accent, the Angstrom and Ohm signs, conjoining jamo stay the code points given
           "cafe\u0301 &", "\u212b\u2126 <1>", "\u1112\u1161\u11ab"]


def _native_probe(which, nasties=None):
    """run the public entry point with each nasty string; returns (failed, detail) for the first that is not kept as data."""
    import io
    import os
    import shutil
    import tempfile

    from PIL import Image as PIL
    from pptx import Presentation
    from pptx.util import Emu

    nasties = NASTIES if nasties is None else nasties
    prs = Presentation()
    slide = prs.slides.add_slide(prs.slide_layouts[6])
    fname_ok = lambda n: "/" not in n and "\x00" not in n
    try:
        if which in ("picture-desc", "ph-picture-desc", "movie-name"):
            d = tempfile.mkdtemp(prefix="c05_")
            try:
                for k, nasty in enumerate(n for n in nasties if fname_ok(n)):
                    if which == "movie-name":
                        path = os.path.join(d, nasty + ".mp4")
                        open(path, "wb").write(b"\x00" * 16)
                        mv = slide.shapes.add_movie(path, Emu(0), Emu(0), Emu(10), Emu(10), mime_type="video/mp4")
                        got = mv._element.xpath("./p:nvPicPr/p:cNvPr/@name")[0]
                    else:
                        path = os.path.join(d, nasty + ".png")
                        PIL.new("RGB", (2, 2), (k, 7, 9)).save(path)  # distinct pixels: identical images share one part (and its name)
                        if which == "picture-desc":
                            pic = slide.shapes.add_picture(path, Emu(0), Emu(0))
                        else:
                            s2 = prs.slides.add_slide(prs.slide_layouts[8])
                            ph = [p for p in s2.placeholders if p.placeholder_format.type is not None and "PICTURE" in str(p.placeholder_format.type)][0]
                            pic = ph.insert_picture(path)
                        got = pic._element.xpath("./p:nvPicPr/p:cNvPr/@descr")[0]
                    if got != os.path.basename(path):
                        return (True, "file name %r reads %r" % (os.path.basename(path), got))
                return (False, "file names with markup characters read back verbatim")
            finally:
                shutil.rmtree(d, ignore_errors=True)
        if which == "chart-number-format":
            from pptx.chart.data import CategoryChartData, XyChartData
            from pptx.enum.chart import XL_CHART_TYPE

            for nasty in nasties:
                cd = CategoryChartData(number_format=nasty)
                cd.categories = ["a"]
                cd.add_series("s", (1,), number_format=nasty + "!")
                gf = slide.shapes.add_chart(XL_CHART_TYPE.PIE, 0, 0, 10, 10, cd)
                got = gf.chart._chartSpace.xpath(".//c:val//c:formatCode/text()")
                if got != [nasty + "!"]:
                    return (True, "series number format %r: formatCode reads %r" % (nasty + "!", got))
                cd = CategoryChartData(number_format=nasty)
                cd.categories = [1.5, 2.5]
                cd.add_series("s", (1, 2))
                gf = slide.shapes.add_chart(XL_CHART_TYPE.LINE, 0, 0, 10, 10, cd)
                got = gf.chart._chartSpace.xpath(".//c:val//c:formatCode/text()")
                if got != [nasty]:
                    return (True, "chart-data number format %r: values formatCode reads %r" % (nasty, got))
                xy = XyChartData(number_format=nasty)
                xy.add_series("s").add_data_point(1, 2)
                gf = slide.shapes.add_chart(XL_CHART_TYPE.XY_SCATTER, 0, 0, 10, 10, xy)
                got = set(gf.chart._chartSpace.xpath(".//c:ser//c:formatCode/text()"))
                if got != {nasty}:
                    return (True, "XY number format %r: formatCode reads %r" % (nasty, sorted(got)))
            return (False, "number formats with markup characters read back verbatim")
        if which == "chart-series-name":
            from pptx.chart.data import BubbleChartData, CategoryChartData, XyChartData
            from pptx.enum.chart import XL_CHART_TYPE

            for nasty in nasties:
                cd = CategoryChartData()
                cd.categories = [nasty, "b"]
                cd.add_series(nasty, (1, 2))
                gf = slide.shapes.add_chart(XL_CHART_TYPE.BAR_CLUSTERED, 0, 0, 10, 10, cd)
                plot = gf.chart.plots[0]
                if not (list(plot.categories)[0] == nasty and plot.series[0].name == nasty):
                    return (True, "series name %r, category %r (given %r)" % (plot.series[0].name, list(plot.categories)[0], nasty))
                # multi-level categories, every level
                cd = CategoryChartData()
                top = cd.add_category(nasty)
                top.add_sub_category(nasty + "1")
                top.add_sub_category("plain")
                cd.add_series(nasty, (1, 2))
                gf = slide.shapes.add_chart(XL_CHART_TYPE.COLUMN_CLUSTERED, 0, 0, 10, 10, cd)
                cats = gf.chart.plots[0].categories
                lv = [[c.label for c in level] for level in cats.levels]
                if lv != [[nasty + "1", "plain"], [nasty]]:
                    return (True, "multi-level categories read %r (given %r / %r)" % (lv, nasty, nasty + "1"))
                # replace_data goes through the rewriter
                gf.chart.replace_data(cd)
                if gf.chart.plots[0].series[0].name != nasty:
                    return (True, "after replace_data the series name reads %r (given %r)" % (gf.chart.plots[0].series[0].name, nasty))
                for data, ct in ((XyChartData(), XL_CHART_TYPE.XY_SCATTER), (BubbleChartData(), XL_CHART_TYPE.BUBBLE)):
                    sr = data.add_series(nasty)
                    sr.add_data_point(1, 2, 3) if ct == XL_CHART_TYPE.BUBBLE else sr.add_data_point(1, 2)
                    gf = slide.shapes.add_chart(ct, 0, 0, 10, 10, data)
                    if gf.chart.plots[0].series[0].name != nasty:
                        return (True, "%s series name reads %r (given %r)" % (ct, gf.chart.plots[0].series[0].name, nasty))
            return (False, "series names and categories with markup characters read back verbatim")
        if which == "string-properties":
            # string-accepting setters that store through the element API rather than a template: reader returns the same string,
            # in memory and after save / re-open
            from pptx.chart.data import CategoryChartData
            from pptx.enum.chart import XL_CHART_TYPE

            def carriers(sl):
                shp = sl.shapes[0]
                run = shp.text_frame.paragraphs[0].runs[0]
                ch = sl.shapes[1].chart
                cell = sl.shapes[2].table.cell(0, 0)
                return [("shape.name", shp, "name"), ("slide.name", sl, "name"), ("run.text", run, "text"), ("run.hyperlink.address", run.hyperlink, "address"),
                        ("shape.click_action.hyperlink.address", sl.shapes[3].click_action.hyperlink, "address"), ("font.name", run.font, "name"),
                        ("tick_labels.number_format", ch.value_axis.tick_labels, "number_format"), ("data_labels.number_format", ch.plots[0].data_labels, "number_format"),
                        ("chart title text", ch.chart_title.text_frame, "text"), ("cell.text", cell, "text"), ("notes text", sl.notes_slide.notes_text_frame, "text"),
                        ("graphic frame name", sl.shapes[1], "name")]

            for k, nasty in enumerate(nasties):
                sl = prs.slides.add_slide(prs.slide_layouts[6])
                sl.shapes.add_textbox(0, 0, 10, 10).text_frame.paragraphs[0].add_run().text = "x"
                cd = CategoryChartData()
                cd.categories = ["a"]
                cd.add_series("s", (1,))
                sl.shapes.add_chart(XL_CHART_TYPE.COLUMN_CLUSTERED, 0, 0, 10, 10, cd).chart.plots[0].has_data_labels = True
                sl.shapes.add_table(1, 1, 0, 0, 10, 10)
                sl.shapes.add_shape(1, 0, 0, 10, 10)
                for label, obj, attr in carriers(sl):
                    setattr(obj, attr, nasty)
                for label, obj, attr in carriers(sl):
                    if getattr(obj, attr) != nasty:
                        return (True, "%s = %r reads back %r" % (label, nasty, getattr(obj, attr)))
            # addresses that differ only in spelling (percent-encoding, case, trailing slash, surrounding blanks) are different data
            spellings = ["http://h/?q=a&b=1", "http://h/?q=a%26b=1", "http://h/%3C", "http://h/<", "http://H/", "http://h/", "http://h", "http://h/ ", " http://h/",
                         "http://h/%41", "http://h/A", "http://h/a", "http://h/%", "http://h/%25", "HTTP://h/", "http://h/#", "http://h/?", "mailto:a@b", "mailto:A@b"]
            sl = prs.slides.add_slide(prs.slide_layouts[6])
            para = sl.shapes.add_textbox(0, 0, 10, 10).text_frame.paragraphs[0]
            runs = []
            for u in spellings:
                r_ = para.add_run()
                r_.text = "x"
                r_.hyperlink.address = u
                runs.append(r_)
            shp_links = []
            for u in spellings:
                sh_ = sl.shapes.add_shape(1, 0, 0, 10, 10)
                sh_.click_action.hyperlink.address = u
                shp_links.append(sh_)
            for u, r_, sh_ in zip(spellings, runs, shp_links):
                if r_.hyperlink.address != u or sh_.click_action.hyperlink.address != u:
                    return (True, "among %d links on one slide, address %r reads back %r (run) / %r (shape)" % (len(spellings), u, r_.hyperlink.address, sh_.click_action.hyperlink.address))
            n_spell_slide = len(prs.slides) - 1
            cp = prs.core_properties
            for attr in ("author", "title", "subject", "keywords", "comments", "category", "content_status", "identifier", "language", "last_modified_by", "version"):
                setattr(cp, attr, nasties[(len(attr) * 7) % len(nasties)])
            # the documented limit counts characters of the string given, whatever they are
            for attr, long_ in (("title", "&" * 255), ("subject", "<>" * 127 + "<"), ("keywords", '"' * 255), ("comments", "R&D <Q3> " * 28)):
                try:
                    setattr(cp, attr, long_)
                except ValueError as e:
                    return (True, "core_properties.%s = %d markup characters (limit 255) was refused: %s" % (attr, len(long_), e))
                if getattr(cp, attr) != long_:
                    return (True, "core_properties.%s = %r... reads back %r..." % (attr, long_[:12], getattr(cp, attr)[:20]))
            buf = io.BytesIO()
            prs.save(buf)
            prs2 = Presentation(io.BytesIO(buf.getvalue()))
            if prs2.core_properties.title != "&" * 255 or prs2.core_properties.comments != "R&D <Q3> " * 28:
                return (True, "core properties of 255 markup characters differ after save and re-open")
            for k, nasty in enumerate(nasties):
                for label, obj, attr in carriers(prs2.slides[k + 1]):
                    if getattr(obj, attr) != nasty:
                        return (True, "%s = %r reads %r after save and re-open" % (label, nasty, getattr(obj, attr)))
            sl2 = prs2.slides[n_spell_slide]
            got = [r_.hyperlink.address for r_ in sl2.shapes[0].text_frame.paragraphs[0].runs] + [x.click_action.hyperlink.address for x in list(sl2.shapes)[1:]]
            if got != spellings + spellings:
                bad_i = [i for i, (a, b) in enumerate(zip(got, spellings + spellings)) if a != b][:1]
                return (True, "after save and re-open, link %s reads %r, assigned %r" % (bad_i, got[bad_i[0]] if bad_i else got, (spellings + spellings)[bad_i[0]] if bad_i else spellings))
            for attr in ("author", "category", "content_status", "identifier", "language", "last_modified_by", "version"):
                want = nasties[(len(attr) * 7) % len(nasties)]
                if getattr(prs2.core_properties, attr) != want:
                    return (True, "core_properties.%s = %r reads %r after save and re-open" % (attr, want, getattr(prs2.core_properties, attr)))
            return (False, "string properties set through the element API read back verbatim, also after save / re-open")
        if which == "ole-progid":
            for nasty in nasties:
                gf = slide.shapes.add_ole_object(io.BytesIO(b"hello"), nasty, Emu(0), Emu(0), Emu(10), Emu(10))
                got = gf._element.xpath(".//p:oleObj/@progId")[0]
                if got != nasty:
                    return (True, "progId %r reads %r" % (nasty, got))
            return (False, "prog ids with markup characters read back verbatim")
    except Exception as e:
        return (True, "%s: %r" % (which, e))
    return (False, "no native scenario for %s" % which)


PROBE_FOR = {"desc": "picture-desc", "filename": "picture-desc", "number_format": "chart-number-format", "series_name": "chart-series-name",
             "category": "chart-series-name", "prog_id": "ole-progid", "progId": "ole-progid", "shape_name": "movie-name", "movie": "movie-name",
             "ph_desc": "ph-picture-desc"}


def _replay(model, rec):
    origin = (rec.get("info") or {}).get("origin", "")
    for key, which in PROBE_FOR.items():
        if key in origin:
            failed, detail = _native_probe(which)
            return {"confirmed": bool(failed), "witness_class": "markup-injection:" + which, "detail": "%s with strings holding \" & < ; and entity look-alikes: %s" % (which, detail)}
    if not origin:
        # bounded stand-in of a contract that left the supported subset: every public-API scenario
        for which in sorted(set(PROBE_FOR.values()) | {"string-properties"}):
            failed, detail = _native_probe(which)
            if failed:
                return {"confirmed": True, "witness_class": "markup-injection:" + which, "detail": "%s: %s" % (which, detail)}
        return {"confirmed": False, "detail": "every public-API scenario keeps %d nasty strings as data" % len(NASTIES)}
    return {"confirmed": False, "detail": "no public-API scenario registered for origin %r" % origin}


def _native_strings(tier="quick", seed=0):
    """BOUNDED: the public entry points that carry caller strings into XML templates, each with every string of NASTIES."""
    import time as _t

    t0 = _t.time()
    obls = []
    for which in sorted(set(PROBE_FOR.values()) | {"string-properties"}):
        failed, detail = _native_probe(which)
        r = {"name": "C05.native.strings_stay_data[%s]" % which, "base": "C05.native.strings_stay_data[%s]" % which, "kind": "bounded",
             "status": "refuted" if failed else "discharged", "backend": "native", "time": 0, "path": 0}
        if failed:
            r["replay"] = {"confirmed": True, "witness_class": "markup-injection:" + which, "detail": detail}
            r["model"] = None
        obls.append(r)
    return {"contract": "C05.native_strings", "status": "ok", "obligations": obls, "paths": 0, "wall_s": _t.time() - t0, "solver_s": 0.0,
            "functions": {}, "assumed": [], "bounded": {"what": "public entry points x %d strings with markup characters, entity / CDATA / comment / format-spec look-alikes" % len(NASTIES), "evaluations": len(NASTIES) * len(set(PROBE_FOR.values()))}}


# --------------------------------------------------------------------------------------------
# element constructors that parse a template (run with every str parameter a raw caller string)


def _ctor_contracts():
    import inspect

    import pptx.oxml.shapes.autoshape as au
    import pptx.oxml.shapes.connector as cx
    import pptx.oxml.shapes.graphfrm as gf
    import pptx.oxml.shapes.groupshape as gs
    import pptx.oxml.shapes.picture as pic
    from pptx.oxml.chart.chart import CT_Chart

    targets = [
        (pic.CT_Picture, "new_pic"), (pic.CT_Picture, "new_ph_pic"), (pic.CT_Picture, "new_video_pic"),
        (au.CT_Shape, "new_autoshape_sp"), (au.CT_Shape, "new_textbox_sp"), (au.CT_Shape, "new_freeform_sp"), (au.CT_Shape, "new_placeholder_sp"),
        (cx.CT_Connector, "new_cxnSp"), (gs.CT_GroupShape, "new_grpSp"),
        (gf.CT_GraphicalObjectFrame, "new_chart_graphicFrame"), (gf.CT_GraphicalObjectFrame, "new_table_graphicFrame"),
        (gf.CT_GraphicalObjectFrame, "new_ole_object_graphicFrame"), (gf.CT_GraphicalObjectFrame, "new_graphicFrame"),
        (CT_Chart, "new_chart"),
    ]
    # which parameters carry caller text (verbatim from the public API), which are library-made (ids, rIds, enum tokens, names built from literals)
    CALLER = {"desc": "desc(file name of the picture)", "shape_name": "shape_name(movie file name)", "progId": "progId(prog_id of add_ole_object)"}
    for cls, meth in targets:
        fn = getattr(cls, meth)
        sig = inspect.signature(fn)

        @contract("C05", "C05.%s.%s.%s" % (cls.__module__.replace("pptx.", ""), cls.__name__, meth), replay=_replay)
        def body(c, cls=cls, meth=meth, sig=sig):
            """template constructor: every hole fed by a caller string needs the qualifier of its context; names and
            rIds made by the library (literal + number) are passed as such."""
            from pptx.enum.shapes import MSO_CONNECTOR, PP_PLACEHOLDER

            args = []
            for name, p in sig.parameters.items():
                if name in CALLER:
                    nm = {"desc": "ph_desc" if meth == "new_ph_pic" else "desc"}.get(name, name)
                    args.append(tainted("%s:%s" % (nm, CALLER[name])))
                elif name == "name":
                    args.append(SStr(["Shape ", FmtInt(c.int("n_" + name))]))  # "<literal base> %d" -- established by the callers (C05.shapetree.*)
                elif "rId" in name:
                    args.append(SStr(["rId", FmtInt(c.int("n_" + name))]))
                elif name == "prst":
                    args.append("rect")
                elif name == "ph_type":
                    args.append(PP_PLACEHOLDER.BODY)
                elif name in ("orient",):
                    args.append("horz")
                elif name in ("sz",):
                    args.append("full")
                elif name in ("flipH", "flipV"):
                    args.append(c.bool(name))
                elif name in ("rows", "cols"):
                    args.append(2)
                elif name in ("imgW", "imgH"):
                    args.append(c.int(name))
                else:
                    args.append(c.int(name))
            sinks = []
            c.summaries["pptx.oxml:parse_xml"] = _sink_summary(c, sinks)
            out = c.call(getattr(cls, meth), *args)
            if out.raised and not sinks:
                c.fails("runs", "%s raised %s before reaching the parser" % (meth, out.exc))
                return
            c.ensures("reaches_parser", len(sinks) >= 1)
            for i, s in enumerate(sinks):
                _check_sink(c, "sink%d" % i, s)

        del body


_ctor_contracts()


# --------------------------------------------------------------------------------------------
# the callers that build shape names (establish the "literal + number" precondition used above)


@contract("C05", "C05.shapes.autoshape.AutoShapeType.basename")
def _basename(c):
    """every auto shape base name is attribute-safe after AutoShapeType.basename (ground over the 182 entries)."""
    from pptx.enum.shapes import MSO_SHAPE
    from pptx.shapes.autoshape import AutoShapeType

    for m in MSO_SHAPE:
        out = c.getattr(AutoShapeType(m), "basename")
        ok = (not out.raised) and isinstance(out.value, str) and not any(ch in out.value.replace("&quot;", "").replace("&amp;", "").replace("&lt;", "").replace("&gt;", "") for ch in '"&<')
        c.ensures("attr_safe[%s]" % m.name, ok, why="basename of %s is %r" % (m.name, None if out.raised else out.value))


def _shapetree_names():
    import pptx.shapes.shapetree as st

    cases = {
        "_add_sp": lambda c: (SObj(None, "autoshape_type", basename=SStr(["Rounded Rectangle &quot;x&quot;"]), prst="rect"), c.int("x"), c.int("y"), c.int("cx"), c.int("cy")),
        "_add_textbox_sp": lambda c: (c.int("x"), c.int("y"), c.int("cx"), c.int("cy")),
        "_add_cxnSp": lambda c: (__import__("pptx.enum.shapes", fromlist=["x"]).MSO_CONNECTOR.STRAIGHT, c.int("bx"), c.int("by"), c.int("ex"), c.int("ey")),
        "_add_chart_graphicFrame": lambda c: (SStr(["rId", FmtInt(c.int("n"))]), c.int("x"), c.int("y"), c.int("cx"), c.int("cy")),
    }
    for meth, mk in cases.items():
        @contract("C05", "C05.shapes.shapetree._BaseGroupShapes.%s" % meth, replay=_replay)
        def body(c, meth=meth, mk=mk):
            """the shape name handed to the element constructor is a library literal plus a number (no caller text) and the
            XML reaching the parser is clean."""
            from pptx.oxml.shapes.groupshape import CT_GroupShape

            sinks = []
            c.summaries["pptx.oxml:parse_xml"] = _sink_summary(c, sinks)
            elm = SObj(CT_GroupShape, "spTree", insert_element_before=GhostFn(lambda it, a, k: a[0]), append=GhostFn(lambda it, a, k: None))
            shapes = SObj(st._BaseGroupShapes, "shapes", _element=elm, _spTree=elm, _grpSp=elm, _next_shape_id=c.int("next_id"))
            out = c.run(getattr(st._BaseGroupShapes, meth), shapes, *mk(c))
            if out.raised and not sinks:
                c.fails("runs", "%s raised %s" % (meth, out.exc))
                return
            c.ensures("reaches_parser", len(sinks) >= 1)
            for i, s in enumerate(sinks):
                uses = _check_sink(c, "sink%d" % i, s)
                c.ensures("sink%d.no_caller_text" % i, len(uses) == 0)

        del body


_shapetree_names()


@contract("C05", "C05.shapes.shapetree._BaseGroupShapes._add_pic_from_image_part", replay=_replay)
def _add_pic(c):
    """add_picture: the image's file name (ImagePart.desc) is caller text and reaches p:cNvPr/@descr."""
    import pptx.shapes.shapetree as st
    from pptx.oxml.shapes.groupshape import CT_GroupShape

    sinks = []
    c.summaries["pptx.oxml:parse_xml"] = _sink_summary(c, sinks)
    elm = SObj(CT_GroupShape, "spTree", insert_element_before=GhostFn(lambda it, a, k: a[0]))
    shapes = SObj(st._BaseGroupShapes, "shapes", _element=elm, _spTree=elm, _grpSp=elm, _next_shape_id=c.int("next_id"))
    image_part = SObj(None, "image_part", desc=tainted("desc:filename given to add_picture"), scale=GhostFn(lambda it, a, k: (c.int("w"), c.int("h"))))
    out = c.run(st._BaseGroupShapes._add_pic_from_image_part, shapes, image_part, SStr(["rId", FmtInt(c.int("n"))]), c.int("x"), c.int("y"), c.int("cx"), c.int("cy"))
    if out.raised and not sinks:
        c.fails("runs", "raised %s" % out.exc)
        return
    c.ensures("reaches_parser", len(sinks) >= 1)
    for i, s in enumerate(sinks):
        _check_sink(c, "sink%d" % i, s)


# --------------------------------------------------------------------------------------------
# chart XML


def _chart_data(kind):
    import datetime

    from pptx.chart.data import BubbleChartData, CategoryChartData, XyChartData

    nf = tainted("number_format:chart data number_format")
    if kind == "xy":
        cd = XyChartData(number_format=nf)
        s = cd.add_series(tainted("series_name:XY series name"), number_format=tainted("number_format:series number_format"))
        s.add_data_point(1, 2)
        s.add_data_point(3, 4)
        return cd
    if kind == "bubble":
        cd = BubbleChartData(number_format=nf)
        s = cd.add_series(tainted("series_name:bubble series name"))
        s.add_data_point(1, 2, 3)
        return cd
    cd = CategoryChartData(number_format=nf)
    if kind == "cat-str":
        cd.categories = [tainted("category:category label 1"), tainted("category:category label 2")]
    elif kind == "cat-num":
        cd.categories = [1.5, 2.5]
        cd.categories.number_format = tainted("number_format:categories.number_format")
    elif kind == "cat-date":
        cd.categories = [datetime.date(2020, 1, 2), datetime.date(2020, 1, 3)]
        cd.categories.number_format = tainted("number_format:categories.number_format")
    elif kind == "cat-multi":
        g = cd.add_category(tainted("category:top-level label"))
        g.add_sub_category(tainted("category:sub label 1"))
        g.add_sub_category(tainted("category:sub label 2"))
    cd.add_series(tainted("series_name:series 1 name"), (1, 2))
    cd.add_series(tainted("series_name:series 2 name"), (3, None), number_format=tainted("number_format:series number_format"))
    return cd


def _chart_contracts():
    from pptx.enum.chart import XL_CHART_TYPE

    for ct in XL_CHART_TYPE:
        name = ct.name
        if "BUBBLE" in name:
            kinds = ["bubble"]
        elif name.startswith("XY"):
            kinds = ["xy"]
        else:
            kinds = ["cat-str", "cat-num", "cat-date", "cat-multi"] if name in ("BAR_CLUSTERED", "LINE", "PIE", "AREA", "RADAR", "DOUGHNUT", "COLUMN_STACKED") else ["cat-str"]
        for kind in kinds:
            @contract("C05", "C05.chart.xmlwriter.ChartXmlWriter[%s,%s]" % (name, kind), replay=_replay, max_paths=64)
            def body(c, ct=ct, kind=kind):
                """chart XML text (handed to the part loader / parser): series names, category labels and number formats are
                caller strings; each must carry the qualifier of the context it lands in."""
                from pptx.chart.xmlwriter import ChartXmlWriter

                cd = lift(_chart_data(kind))
                try:
                    w = c.call(ChartXmlWriter, ct, cd)
                except Unsupported:
                    raise
                if w.raised:
                    if issubclass(w.exc.exc_cls, NotImplementedError):
                        c.ensures("not_writable", True)
                        return
                    c.fails("runs", "ChartXmlWriter raised %s" % w.exc)
                    return
                x = c.getattr(w.value, "xml")
                if x.raised:
                    c.fails("runs", ".xml raised %s" % x.exc)
                    return
                uses = _check_sink(c, "chart_xml", x.value)
                c.ensures("caller_strings_present", len(uses) >= 1)

            del body


_chart_contracts()


@contract("C05", "C05.probe.public_api")
def _public_probe(c):
    """ground: the public entry points store the string  a"b&<c>]]>'  verbatim (native run of the real API)."""
    for which in ("picture-desc", "chart-number-format", "chart-series-name", "ole-progid", "movie-name", "ph-picture-desc"):
        failed, detail = _native_probe(which)
        c.ensures("native[%s]" % which, not failed, why=detail, origin=which.replace("picture-desc", "desc").replace("chart-", "").replace("-", "_"))


# --------------------------------------------------------------------------------------------
# series writers used by replace_data (their tx / cat / val / xVal / yVal / bubbleSize feed parse_xml directly)


def _series_writer_contracts():
    import inspect

    import pptx.chart.xmlwriter as xw

    classes = [cl for _, cl in vars(xw).items() if inspect.isclass(cl) and issubclass(cl, xw._BaseSeriesXmlWriter) and cl is not xw._BaseSeriesXmlWriter]
    for cl in classes:
        props = [p for p in ("tx", "cat", "val", "xVal", "yVal", "bubbleSize") if isinstance(inspect.getattr_static(cl, p, None), property)]
        for prop in props:
            kinds = ["xy"] if "Xy" in cl.__name__ else ["bubble"] if "Bubble" in cl.__name__ else ["cat-str", "cat-num", "cat-date", "cat-multi"]
            for kind in kinds:
                @contract("C05", "C05.chart.xmlwriter.%s.%s[%s]" % (cl.__name__, prop, kind), replay=_replay, max_paths=64)
                def body(c, cl=cl, prop=prop, kind=kind):
                    """series element builder used when chart data is replaced: what reaches parse_xml is clean."""
                    cd = lift(_chart_data(kind))
                    series = cd.fields["_series"][-1] if "_series" in cd.fields else None
                    if series is None:
                        c.fails("setup", "chart data has no _series list")
                        return
                    sinks = []
                    c.summaries["pptx.oxml:parse_xml"] = _sink_summary(c, sinks)
                    w = c.call(cl, series)
                    if w.raised:
                        c.fails("runs", "%s(series) raised %s" % (cl.__name__, w.exc))
                        return
                    out = c.getattr(w.value, prop)
                    if out.raised and not sinks:
                        c.fails("runs", ".%s raised %s" % (prop, out.exc))
                        return
                    c.ensures("reaches_parser", len(sinks) >= 1)
                    for i, s in enumerate(sinks):
                        _check_sink(c, "sink%d" % i, s)

                del body


_series_writer_contracts()
JOBS = {"C05.native_strings": _native_strings}
